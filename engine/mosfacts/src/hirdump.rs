//! typed, path-resolved HIR bodies → JSON facts.
use crate::json::J;
use crate::Cx;
use rustc_hir as hir;
use rustc_hir::def::Res;
use rustc_hir::def_id::LocalDefId;
use rustc_middle::ty::TypeckResults;

struct H<'a, 'tcx> {
    cx: &'a Cx<'tcx>,
    tr: &'tcx TypeckResults<'tcx>,
}

impl<'a, 'tcx> H<'a, 'tcx> {
    fn res(&self, res: Res) -> J {
        match res {
            Res::Def(kind, did) => J::Obj(vec![
                ("dk", J::s(format!("{:?}", kind))),
                ("path", J::s(self.cx.path(did))),
                ("id", J::s(self.cx.id(did))),
            ]),
            Res::Local(hid) => J::Obj(vec![
                ("dk", J::s("Local")),
                ("name", J::s(self.cx.tcx.hir_name(hid).to_string())),
            ]),
            Res::SelfCtor(_) => J::Obj(vec![("dk", J::s("SelfCtor"))]),
            other => J::Obj(vec![("dk", J::s(format!("{:?}", other)))]),
        }
    }

    fn lit(&self, l: &hir::Lit) -> Vec<(&'static str, J)> {
        use rustc_ast::LitKind;
        match &l.node {
            LitKind::Str(s, _) => vec![("lk", J::s("str")), ("v", J::s(s.to_string()))],
            LitKind::Int(i, _) => vec![("lk", J::s("int")), ("v", J::Int(i.get() as i128))],
            LitKind::Char(c) => vec![("lk", J::s("char")), ("v", J::s(c.to_string()))],
            LitKind::Bool(b) => vec![("lk", J::s("bool")), ("v", J::Bool(*b))],
            LitKind::Byte(b) => vec![("lk", J::s("byte")), ("v", J::Int(*b as i128))],
            LitKind::ByteStr(b, _) => {
                vec![("lk", J::s("bytestr")), ("v", J::s(String::from_utf8_lossy(b.as_byte_str()).to_string()))]
            }
            other => vec![("lk", J::s("other")), ("v", J::s(format!("{:?}", other)))],
        }
    }

    fn pat(&self, p: &'tcx hir::Pat<'tcx>) -> J {
        let mut o: Vec<(&'static str, J)> = vec![];
        match &p.kind {
            hir::PatKind::Wild => o.push(("k", J::s("wild"))),
            hir::PatKind::Missing => o.push(("k", J::s("missing"))),
            hir::PatKind::Never => o.push(("k", J::s("never"))),
            hir::PatKind::Binding(mode, _, ident, sub) => {
                o.push(("k", J::s("bind")));
                o.push(("name", J::s(ident.name.to_string())));
                o.push(("mode", J::s(format!("{:?}", mode))));
                if let Some(s) = sub {
                    o.push(("sub", self.pat(s)));
                }
            }
            hir::PatKind::Struct(qp, fields, rest) => {
                o.push(("k", J::s("struct")));
                o.push(("res", self.res(self.tr.qpath_res(qp, p.hir_id))));
                o.push((
                    "fields",
                    J::Arr(
                        fields
                            .iter()
                            .map(|f| {
                                J::Obj(vec![
                                    ("name", J::s(f.ident.name.to_string())),
                                    ("pat", self.pat(f.pat)),
                                ])
                            })
                            .collect(),
                    ),
                ));
                o.push(("rest", J::Bool(rest.is_some())));
            }
            hir::PatKind::TupleStruct(qp, ps, ddpos) => {
                o.push(("k", J::s("tstruct")));
                o.push(("res", self.res(self.tr.qpath_res(qp, p.hir_id))));
                o.push(("pats", J::Arr(ps.iter().map(|x| self.pat(x)).collect())));
                if let Some(d) = ddpos.as_opt_usize() {
                    o.push(("dotdot", J::Int(d as i128)));
                }
            }
            hir::PatKind::Or(ps) => {
                o.push(("k", J::s("or")));
                o.push(("pats", J::Arr(ps.iter().map(|x| self.pat(x)).collect())));
            }
            hir::PatKind::Tuple(ps, ddpos) => {
                o.push(("k", J::s("tuple")));
                o.push(("pats", J::Arr(ps.iter().map(|x| self.pat(x)).collect())));
                if let Some(d) = ddpos.as_opt_usize() {
                    o.push(("dotdot", J::Int(d as i128)));
                }
            }
            hir::PatKind::Box(s) | hir::PatKind::Deref(s) | hir::PatKind::Ref(s, ..) => {
                o.push(("k", J::s("ref")));
                o.push(("sub", self.pat(s)));
            }
            hir::PatKind::Expr(e) => {
                self.pat_expr(e, &mut o);
            }
            hir::PatKind::Guard(s, g) => {
                o.push(("k", J::s("guard")));
                o.push(("sub", self.pat(s)));
                o.push(("cond", self.expr(g)));
            }
            hir::PatKind::Range(lo, hi, end) => {
                o.push(("k", J::s("range")));
                if let Some(l) = lo {
                    let mut v = vec![];
                    self.pat_expr(l, &mut v);
                    o.push(("lo", J::Obj(v)));
                }
                if let Some(h) = hi {
                    let mut v = vec![];
                    self.pat_expr(h, &mut v);
                    o.push(("hi", J::Obj(v)));
                }
                o.push(("end", J::s(format!("{:?}", end))));
            }
            hir::PatKind::Slice(a, m, b) => {
                o.push(("k", J::s("slice")));
                let mut ps: Vec<J> = a.iter().map(|x| self.pat(x)).collect();
                if let Some(m) = m {
                    ps.push(self.pat(m));
                }
                ps.extend(b.iter().map(|x| self.pat(x)));
                o.push(("pats", J::Arr(ps)));
            }
            hir::PatKind::Err(_) => o.push(("k", J::s("err"))),
        }
        let (_, line, _, _) = self.cx.loc(p.span);
        o.push(("ln", J::Int(line as i128)));
        J::Obj(o)
    }

    fn pat_expr(&self, e: &'tcx hir::PatExpr<'tcx>, o: &mut Vec<(&'static str, J)>) {
        match &e.kind {
            hir::PatExprKind::Lit { lit, negated } => {
                o.push(("k", J::s("lit")));
                o.extend(self.lit(lit));
                o.push(("neg", J::Bool(*negated)));
            }
            hir::PatExprKind::Path(qp) => {
                o.push(("k", J::s("path")));
                o.push(("res", self.res(self.tr.qpath_res(qp, e.hir_id))));
            }
        }
    }

    fn block(&self, b: &'tcx hir::Block<'tcx>) -> J {
        let mut stmts = vec![];
        for s in b.stmts.iter() {
            match &s.kind {
                hir::StmtKind::Let(l) => {
                    let mut o = vec![("k", J::s("let")), ("pat", self.pat(l.pat))];
                    if let Some(i) = l.init {
                        o.push(("init", self.expr(i)));
                    }
                    if let Some(e) = l.els {
                        o.push(("els", self.block(e)));
                    }
                    stmts.push(J::Obj(o));
                }
                hir::StmtKind::Expr(e) => stmts.push(J::Obj(vec![("k", J::s("expr")), ("e", self.expr(e))])),
                hir::StmtKind::Semi(e) => stmts.push(J::Obj(vec![("k", J::s("semi")), ("e", self.expr(e))])),
                hir::StmtKind::Item(_) => {}
            }
        }
        let mut o = vec![("k", J::s("block")), ("stmts", J::Arr(stmts))];
        if let Some(e) = b.expr {
            o.push(("expr", self.expr(e)));
        }
        J::Obj(o)
    }

    fn exprs(&self, es: &'tcx [hir::Expr<'tcx>]) -> J {
        J::Arr(es.iter().map(|e| self.expr(e)).collect())
    }

    fn expr(&self, e: &'tcx hir::Expr<'tcx>) -> J {
        use hir::ExprKind as K;
        let mut o: Vec<(&'static str, J)> = vec![];
        match &e.kind {
            K::Path(qp) => {
                o.push(("k", J::s("path")));
                o.push(("res", self.res(self.tr.qpath_res(qp, e.hir_id))));
            }
            K::Call(f, args) => {
                o.push(("k", J::s("call")));
                o.push(("f", self.expr(f)));
                o.push(("args", self.exprs(args)));
            }
            K::MethodCall(seg, recv, args, _) => {
                o.push(("k", J::s("mcall")));
                o.push(("name", J::s(seg.ident.name.to_string())));
                if let Some(did) = self.tr.type_dependent_def_id(e.hir_id) {
                    o.push(("path", J::s(self.cx.path(did))));
                    o.push(("id", J::s(self.cx.id(did))));
                }
                o.push(("recv", self.expr(recv)));
                o.push(("args", self.exprs(args)));
            }
            K::Lit(l) => {
                o.push(("k", J::s("lit")));
                o.extend(self.lit(l));
            }
            K::Tup(es) => {
                o.push(("k", J::s("tup")));
                o.push(("es", self.exprs(es)));
            }
            K::Array(es) => {
                o.push(("k", J::s("array")));
                o.push(("es", self.exprs(es)));
            }
            K::Binary(op, a, b) => {
                o.push(("k", J::s("binary")));
                o.push(("op", J::s(format!("{:?}", op.node))));
                o.push(("l", self.expr(a)));
                o.push(("r", self.expr(b)));
            }
            K::Unary(op, a) => {
                o.push(("k", J::s("unary")));
                o.push(("op", J::s(format!("{:?}", op))));
                o.push(("a", self.expr(a)));
            }
            K::Cast(a, _) | K::Type(a, _) => {
                o.push(("k", J::s("cast")));
                o.push(("a", self.expr(a)));
            }
            K::DropTemps(a) | K::Use(a, _) | K::Become(a) => {
                return self.expr(a);
            }
            K::Let(l) => {
                o.push(("k", J::s("letx")));
                o.push(("pat", self.pat(l.pat)));
                o.push(("init", self.expr(l.init)));
            }
            K::If(c, t, f) => {
                o.push(("k", J::s("if")));
                o.push(("cond", self.expr(c)));
                o.push(("then", self.expr(t)));
                if let Some(f) = f {
                    o.push(("else", self.expr(f)));
                }
            }
            K::Loop(b, _, src, _) => {
                o.push(("k", J::s("loop")));
                o.push(("src", J::s(format!("{:?}", src))));
                o.push(("body", self.block(b)));
            }
            K::Match(s, arms, src) => {
                o.push(("k", J::s("match")));
                o.push(("src", J::s(format!("{:?}", src))));
                o.push(("scrut", self.expr(s)));
                let mut js = vec![];
                for a in arms.iter() {
                    let mut ao = vec![("pat", self.pat(a.pat))];
                    if let Some(g) = a.guard {
                        ao.push(("guard", self.expr(g)));
                    }
                    ao.push(("body", self.expr(a.body)));
                    let (_, line, _, _) = self.cx.loc(a.span);
                    ao.push(("ln", J::Int(line as i128)));
                    js.push(J::Obj(ao));
                }
                o.push(("arms", J::Arr(js)));
            }
            K::Closure(c) => {
                o.push(("k", J::s("closure")));
                o.push(("id", J::s(self.cx.id(c.def_id.to_def_id()))));
                let body = self.cx.tcx.hir_body(c.body);
                // the closure body is type-checked with its owner's tables
                o.push((
                    "params",
                    J::Arr(body.params.iter().map(|p| self.pat(p.pat)).collect()),
                ));
                o.push(("body", self.expr(body.value)));
            }
            K::Block(b, _) => {
                return {
                    let mut j = match self.block(b) {
                        J::Obj(v) => v,
                        _ => unreachable!(),
                    };
                    self.common(e, &mut j);
                    J::Obj(j)
                };
            }
            K::Assign(a, b, _) => {
                o.push(("k", J::s("assign")));
                o.push(("l", self.expr(a)));
                o.push(("r", self.expr(b)));
            }
            K::AssignOp(op, a, b) => {
                o.push(("k", J::s("assignop")));
                o.push(("op", J::s(format!("{:?}", op.node))));
                o.push(("l", self.expr(a)));
                o.push(("r", self.expr(b)));
            }
            K::Field(a, ident) => {
                o.push(("k", J::s("field")));
                o.push(("name", J::s(ident.name.to_string())));
                o.push(("a", self.expr(a)));
            }
            K::Index(a, i, _) => {
                o.push(("k", J::s("index")));
                o.push(("a", self.expr(a)));
                o.push(("i", self.expr(i)));
            }
            K::AddrOf(_, m, a) => {
                o.push(("k", J::s("addrof")));
                o.push(("mut", J::Bool(matches!(m, hir::Mutability::Mut))));
                o.push(("a", self.expr(a)));
            }
            K::Break(_, a) => {
                o.push(("k", J::s("break")));
                if let Some(a) = a {
                    o.push(("a", self.expr(a)));
                }
            }
            K::Continue(_) => o.push(("k", J::s("continue"))),
            K::Ret(a) => {
                o.push(("k", J::s("ret")));
                if let Some(a) = a {
                    o.push(("a", self.expr(a)));
                }
            }
            K::Struct(qp, fields, tail) => {
                o.push(("k", J::s("struct")));
                o.push(("res", self.res(self.tr.qpath_res(qp, e.hir_id))));
                o.push((
                    "fields",
                    J::Arr(
                        fields
                            .iter()
                            .map(|f| {
                                J::Obj(vec![
                                    ("name", J::s(f.ident.name.to_string())),
                                    ("e", self.expr(f.expr)),
                                ])
                            })
                            .collect(),
                    ),
                ));
                if let hir::StructTailExpr::Base(b) = tail {
                    o.push(("base", self.expr(b)));
                }
            }
            K::Repeat(a, _) => {
                o.push(("k", J::s("repeat")));
                o.push(("a", self.expr(a)));
            }
            other => {
                o.push(("k", J::s("other")));
                o.push(("d", J::s(format!("{:?}", std::mem::discriminant(other)))));
            }
        }
        self.common(e, &mut o);
        J::Obj(o)
    }

    fn common(&self, e: &'tcx hir::Expr<'tcx>, o: &mut Vec<(&'static str, J)>) {
        if let Some(t) = self.tr.expr_ty_opt(e) {
            o.push(("ty", J::s(self.cx.ty(t))));
        }
        let adj = self.tr.expr_ty_adjusted_opt(e);
        if let (Some(a), Some(t)) = (adj, self.tr.expr_ty_opt(e)) {
            if a != t {
                o.push(("aty", J::s(self.cx.ty(a))));
            }
        }
        let (_, line, col, exp) = self.cx.loc(e.span);
        o.push(("ln", J::Int(line as i128)));
        o.push(("col", J::Int(col as i128)));
        if exp {
            o.push(("exp", J::Bool(true)));
        }
    }
}

pub fn dump_body<'tcx>(cx: &Cx<'tcx>, ldid: LocalDefId) -> J {
    let tcx = cx.tcx;
    // closures are dumped inline in their owner's body
    if tcx.is_closure_like(ldid.to_def_id()) {
        return J::Null;
    }
    let body = tcx.hir_body_owned_by(ldid);
    let tr = tcx.typeck(ldid);
    let h = H { cx, tr };
    J::Obj(vec![
        ("params", J::Arr(body.params.iter().map(|p| h.pat(p.pat)).collect())),
        ("body", h.expr(body.value)),
    ])
}
