//! Minimal JSON value + serializer (the driver has no cargo dependencies).
use std::fmt::Write;

pub enum J {
    Null,
    Bool(bool),
    Int(i128),
    Str(String),
    Arr(Vec<J>),
    Obj(Vec<(&'static str, J)>),
}

impl J {
    pub fn s<S: Into<String>>(s: S) -> J {
        J::Str(s.into())
    }
    pub fn opt_s(s: Option<String>) -> J {
        match s {
            Some(s) => J::Str(s),
            None => J::Null,
        }
    }
    pub fn write(&self, out: &mut String) {
        match self {
            J::Null => out.push_str("null"),
            J::Bool(b) => out.push_str(if *b { "true" } else { "false" }),
            J::Int(i) => {
                // keep integers exactly representable for python (arbitrary precision)
                let _ = write!(out, "{}", i);
            }
            J::Str(s) => write_str(s, out),
            J::Arr(v) => {
                out.push('[');
                for (i, x) in v.iter().enumerate() {
                    if i > 0 {
                        out.push(',');
                    }
                    x.write(out);
                }
                out.push(']');
            }
            J::Obj(v) => {
                out.push('{');
                let mut first = true;
                for (k, x) in v.iter() {
                    if let J::Null = x {
                        continue;
                    }
                    if !first {
                        out.push(',');
                    }
                    first = false;
                    write_str(k, out);
                    out.push(':');
                    x.write(out);
                }
                out.push('}');
            }
        }
    }
}

fn write_str(s: &str, out: &mut String) {
    out.push('"');
    for c in s.chars() {
        match c {
            '"' => out.push_str("\\\""),
            '\\' => out.push_str("\\\\"),
            '\n' => out.push_str("\\n"),
            '\r' => out.push_str("\\r"),
            '\t' => out.push_str("\\t"),
            c if (c as u32) < 0x20 => {
                let _ = write!(out, "\\u{:04x}", c as u32);
            }
            c => out.push(c),
        }
    }
    out.push('"');
}
