//! mosfacts — rustc_private driver that dumps resolved-program facts (ADTs, impls,
//! typed HIR bodies, MIR bodies with resolved callees) of the crate being
//! compiled as one JSON file.  Used as RUSTC_WORKSPACE_WRAPPER under
//! `cargo +nightly check`; the rules (Python) only ever read these facts.
#![feature(rustc_private)]
#![allow(clippy::all)]

extern crate rustc_abi;
extern crate rustc_ast;
extern crate rustc_driver;
extern crate rustc_hir;
extern crate rustc_interface;
extern crate rustc_middle;
extern crate rustc_span;

mod hirdump;
mod json;
mod mirdump;

use json::J;
use rustc_driver::Compilation;
use rustc_hir::def::DefKind;
use rustc_hir::def_id::{DefId, LOCAL_CRATE};
use rustc_middle::ty::print::{with_no_trimmed_paths, with_no_visible_paths, with_resolve_crate_name};
use rustc_middle::ty::{self, Ty, TyCtxt};
use rustc_span::Span;

pub struct Cx<'tcx> {
    pub tcx: TyCtxt<'tcx>,
}

impl<'tcx> Cx<'tcx> {
    /// canonical, crate-qualified, untrimmed pretty path of a definition
    pub fn path(&self, did: DefId) -> String {
        with_resolve_crate_name!(with_no_trimmed_paths!(with_no_visible_paths!(self.tcx.def_path_str(did))))
    }
    pub fn path_args(&self, did: DefId, args: ty::GenericArgsRef<'tcx>) -> String {
        with_resolve_crate_name!(with_no_trimmed_paths!(with_no_visible_paths!(self
            .tcx
            .def_path_str_with_args(did, args))))
    }
    /// linking id: crate name + verbose def path (identical from every crate that mentions it)
    pub fn id(&self, did: DefId) -> String {
        format!(
            "{}{}",
            self.tcx.crate_name(did.krate),
            self.tcx.def_path(did).to_string_no_crate_verbose()
        )
    }
    pub fn ty(&self, t: Ty<'tcx>) -> String {
        with_resolve_crate_name!(with_no_trimmed_paths!(with_no_visible_paths!(format!("{}", t))))
    }
    pub fn disp<T: std::fmt::Display>(&self, t: T) -> String {
        with_resolve_crate_name!(with_no_trimmed_paths!(with_no_visible_paths!(format!("{}", t))))
    }
    pub fn dbg<T: std::fmt::Debug>(&self, t: T) -> String {
        with_resolve_crate_name!(with_no_trimmed_paths!(with_no_visible_paths!(format!("{:?}", t))))
    }
    /// (file, line, col) of the *call site* of a span (outermost expansion), plus from_expansion
    pub fn loc(&self, sp: Span) -> (String, usize, usize, bool) {
        let exp = sp.from_expansion();
        let cs = sp.source_callsite();
        let sm = self.tcx.sess.source_map();
        let lo = sm.lookup_char_pos(cs.lo());
        let file = match &lo.file.name {
            rustc_span::FileName::Real(r) => match r.local_path() {
                Some(p) => p.to_string_lossy().to_string(),
                None => format!("{:?}", lo.file.name),
            },
            n => format!("{:?}", n),
        };
        (file, lo.line, lo.col.0 + 1, exp)
    }
    pub fn hi_line(&self, sp: Span) -> usize {
        let cs = sp.source_callsite();
        self.tcx.sess.source_map().lookup_char_pos(cs.hi()).line
    }
}

struct Cb;

impl rustc_driver::Callbacks for Cb {
    fn after_analysis<'tcx>(
        &mut self,
        _c: &rustc_interface::interface::Compiler,
        tcx: TyCtxt<'tcx>,
    ) -> Compilation {
        let out_dir = match std::env::var("MOSFACTS_OUT") {
            Ok(d) => d,
            Err(_) => return Compilation::Continue,
        };
        let crate_name = tcx.crate_name(LOCAL_CRATE).to_string();
        if crate_name.starts_with("build_script") {
            return Compilation::Continue;
        }
        let only = std::env::var("MOSFACTS_ONLY").unwrap_or_default();
        if !only.is_empty() && !only.split(',').any(|c| c == crate_name) {
            return Compilation::Continue;
        }
        let cx = Cx { tcx };
        let is_test = tcx.sess.opts.test;
        let crate_types: Vec<String> = tcx.crate_types().iter().map(|c| format!("{:?}", c)).collect();

        // ---- ADTs and impls
        let mut adts = vec![];
        let mut impls = vec![];
        let mut consts = vec![];
        for id in tcx.hir_free_items() {
            let did = id.owner_id.to_def_id();
            match tcx.def_kind(did) {
                DefKind::Struct | DefKind::Enum | DefKind::Union => {
                    let adt = tcx.adt_def(did);
                    let mut variants = vec![];
                    for v in adt.variants().iter() {
                        let mut fields = vec![];
                        for f in v.fields.iter() {
                            let fty = tcx.type_of(f.did).instantiate_identity().skip_norm_wip();
                            fields.push(J::Obj(vec![
                                ("name", J::s(f.name.to_string())),
                                ("ty", J::s(cx.ty(fty))),
                            ]));
                        }
                        variants.push(J::Obj(vec![
                            ("name", J::s(v.name.to_string())),
                            ("fields", J::Arr(fields)),
                        ]));
                    }
                    let (file, line, _, _) = cx.loc(tcx.def_span(did));
                    adts.push(J::Obj(vec![
                        ("path", J::s(cx.path(did))),
                        ("kind", J::s(format!("{:?}", tcx.def_kind(did)))),
                        ("file", J::s(file)),
                        ("line", J::Int(line as i128)),
                        ("variants", J::Arr(variants)),
                    ]));
                }
                DefKind::Impl { .. } => {
                    let self_ty = tcx.type_of(did).instantiate_identity().skip_norm_wip();
                    let tr = tcx.impl_opt_trait_ref(did).map(|t| {
                        let t = t.instantiate_identity().skip_norm_wip();
                        (cx.path(t.def_id), cx.disp(t))
                    });
                    let mut methods = vec![];
                    for it in tcx.associated_items(did).in_definition_order() {
                        if matches!(it.kind, ty::AssocKind::Fn { .. }) {
                            methods.push(J::Obj(vec![
                                ("name", J::s(it.name().to_string())),
                                ("id", J::s(cx.id(it.def_id))),
                                ("path", J::s(cx.path(it.def_id))),
                                (
                                    "trait_item",
                                    match it.trait_item_def_id() {
                                        Some(t) => J::s(cx.path(t)),
                                        None => J::Null,
                                    },
                                ),
                            ]));
                        }
                    }
                    impls.push(J::Obj(vec![
                        ("self_ty", J::s(cx.ty(self_ty))),
                        ("trait", match &tr { Some(t) => J::s(t.0.clone()), None => J::Null }),
                        ("trait_ref", match &tr { Some(t) => J::s(t.1.clone()), None => J::Null }),
                        ("methods", J::Arr(methods)),
                    ]));
                }
                DefKind::Const { .. } | DefKind::Static { .. } => {
                    let t = tcx.type_of(did).instantiate_identity().skip_norm_wip();
                    consts.push(J::Obj(vec![
                        ("path", J::s(cx.path(did))),
                        ("ty", J::s(cx.ty(t))),
                    ]));
                }
                _ => {}
            }
        }

        // ---- bodies
        let mut fns = vec![];
        let want_hir = std::env::var("MOSFACTS_NO_HIR").is_err();
        for ldid in tcx.hir_body_owners() {
            let did = ldid.to_def_id();
            let kind = tcx.def_kind(did);
            let kname = match kind {
                DefKind::Fn => "fn",
                DefKind::AssocFn => "assoc",
                DefKind::Closure => "closure",
                _ => continue,
            };
            // coroutines (async) are not used by mos; skip anything that has no plain MIR
            if tcx.is_coroutine(did) {
                continue;
            }
            let span = tcx.def_span(did);
            let (file, lo, _, exp) = cx.loc(span);
            let body_span = tcx.hir_body_owned_by(ldid).value.span;
            let hi = cx.hi_line(body_span);
            let parent = tcx.opt_parent(did).filter(|p| {
                matches!(tcx.def_kind(*p), DefKind::Fn | DefKind::AssocFn | DefKind::Closure)
            });
            // inside an impl: self type and trait
            let (impl_self, impl_trait) = match tcx.opt_parent(did) {
                Some(p) if matches!(tcx.def_kind(p), DefKind::Impl { .. }) => {
                    let st = tcx.type_of(p).instantiate_identity().skip_norm_wip();
                    let tr = tcx
                        .impl_opt_trait_ref(p)
                        .map(|t| cx.path(t.instantiate_identity().skip_norm_wip().def_id));
                    (Some(cx.ty(st)), tr)
                }
                _ => (None, None),
            };
            let mir = mirdump::dump_body(&cx, did);
            let hir = if want_hir { hirdump::dump_body(&cx, ldid) } else { J::Null };
            let mut o = vec![
                ("id", J::s(cx.id(did))),
                ("path", J::s(cx.path(did))),
                ("kind", J::s(kname)),
                ("parent", match parent { Some(p) => J::s(cx.id(p)), None => J::Null }),
                ("impl_self", J::opt_s(impl_self)),
                ("impl_trait", J::opt_s(impl_trait)),
                ("file", J::s(file)),
                ("lo", J::Int(lo as i128)),
                ("hi", J::Int(hi as i128)),
                ("exp", J::Bool(exp)),
                ("hir", hir),
            ];
            o.extend(mir);
            fns.push(J::Obj(o));
        }

        let root = J::Obj(vec![
            ("crate", J::s(crate_name.clone())),
            ("crate_types", J::Arr(crate_types.iter().map(|c| J::s(c.clone())).collect())),
            ("cfg_test", J::Bool(is_test)),
            ("overflow_checks", J::Bool(tcx.sess.overflow_checks())),
            ("adts", J::Arr(adts)),
            ("impls", J::Arr(impls)),
            ("consts", J::Arr(consts)),
            ("fns", J::Arr(fns)),
        ]);
        let mut s = String::with_capacity(32 << 20);
        root.write(&mut s);
        let kind = if is_test {
            "test".to_string()
        } else {
            crate_types.first().cloned().unwrap_or_default().to_lowercase()
        };
        let fname = format!("{}/{}.{}.json", out_dir, crate_name, kind);
        // one write per process
        std::fs::write(&fname, s).expect("mosfacts: cannot write facts");
        Compilation::Continue
    }
}

fn main() {
    let mut args: Vec<String> = std::env::args().collect();
    // invoked as `<wrapper> <rustc> <args…>`
    args.remove(1);
    rustc_driver::run_compiler(&args, &mut Cb);
}
