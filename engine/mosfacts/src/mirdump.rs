//! MIR → JSON facts.
use crate::json::J;
use crate::Cx;
use rustc_hir::def_id::DefId;
use rustc_middle::mir::{
    self, AggregateKind, BasicBlock, Body, Const, ConstValue, Operand, Place, PlaceTy, ProjectionElem,
    Rvalue, StatementKind, TerminatorKind, UnwindAction,
};
use rustc_middle::ty::{self, Instance, InstanceKind, Ty, TypingEnv};

fn bb(b: BasicBlock) -> J {
    J::Int(b.as_usize() as i128)
}

struct M<'a, 'tcx> {
    cx: &'a Cx<'tcx>,
    body: &'a Body<'tcx>,
    did: DefId,
    refs: Vec<J>,
}

impl<'a, 'tcx> M<'a, 'tcx> {
    fn place(&self, p: &Place<'tcx>) -> J {
        let tcx = self.cx.tcx;
        let mut pty = PlaceTy::from_ty(self.body.local_decls[p.local].ty);
        let mut proj = vec![];
        for elem in p.projection.iter() {
            let j = match elem {
                ProjectionElem::Deref => J::s("deref"),
                ProjectionElem::Field(idx, fty) => {
                    let mut name = format!("{}", idx.as_usize());
                    let mut of = String::new();
                    match pty.ty.kind() {
                        ty::Adt(adt, _) => {
                            let vi = pty.variant_index.unwrap_or(rustc_abi::FIRST_VARIANT);
                            if adt.variants().len() > vi.as_usize() {
                                let v = adt.variant(vi);
                                if let Some(f) = v.fields.get(idx) {
                                    name = f.name.to_string();
                                }
                                of = self.cx.path(adt.did());
                                if adt.is_enum() {
                                    of = format!("{}::{}", of, v.name);
                                }
                            }
                        }
                        ty::Closure(..) => of = "closure".into(),
                        ty::Tuple(..) => of = "tuple".into(),
                        _ => {}
                    }
                    J::Obj(vec![
                        ("f", J::Int(idx.as_usize() as i128)),
                        ("n", J::s(name)),
                        ("of", J::s(of)),
                        ("ty", J::s(self.cx.ty(fty))),
                    ])
                }
                ProjectionElem::Index(l) => J::Obj(vec![("index", J::Int(l.as_usize() as i128))]),
                ProjectionElem::ConstantIndex { offset, from_end, .. } => J::Obj(vec![
                    ("cindex", J::Int(offset as i128)),
                    ("from_end", J::Bool(from_end)),
                ]),
                ProjectionElem::Subslice { from, to, from_end } => J::Obj(vec![
                    ("subslice", J::Arr(vec![J::Int(from as i128), J::Int(to as i128)])),
                    ("from_end", J::Bool(from_end)),
                ]),
                ProjectionElem::Downcast(name, vi) => J::Obj(vec![
                    ("downcast", J::s(name.map(|s| s.to_string()).unwrap_or_default())),
                    ("vi", J::Int(vi.as_usize() as i128)),
                ]),
                ProjectionElem::OpaqueCast(_) => J::s("opaque"),
                ProjectionElem::UnwrapUnsafeBinder(_) => J::s("unwrap_binder"),
            };
            proj.push(j);
            pty = pty.projection_ty(tcx, elem);
        }
        J::Obj(vec![
            ("l", J::Int(p.local.as_usize() as i128)),
            ("p", if proj.is_empty() { J::Null } else { J::Arr(proj) }),
            ("ty", if p.projection.is_empty() { J::Null } else { J::s(self.cx.ty(pty.ty)) }),
        ])
    }

    fn fn_ref(&self, did: DefId, args: ty::GenericArgsRef<'tcx>) -> J {
        let tcx = self.cx.tcx;
        let env = TypingEnv::post_analysis(tcx, self.did);
        let mut o = vec![
            ("id", J::s(self.cx.id(did))),
            ("path", J::s(self.cx.path(did))),
            ("full", J::s(self.cx.path_args(did, args))),
            ("gen", J::Arr(args.iter().map(|a| J::s(self.cx.disp(a))).collect())),
            ("crate", J::s(tcx.crate_name(did.krate).to_string())),
        ];
        // trait method: which trait
        if let Some(tr) = tcx.trait_of_assoc(did) {
            o.push(("trait", J::s(self.cx.path(tr))));
        }
        // resolve to a concrete instance when the generic arguments allow it
        let resolved = std::panic::catch_unwind(std::panic::AssertUnwindSafe(|| {
            Instance::try_resolve(tcx, env, did, args)
        }));
        if let Ok(Ok(Some(inst))) = resolved {
            let rdid = inst.def_id();
            o.push(("rid", J::s(self.cx.id(rdid))));
            o.push(("rpath", J::s(self.cx.path(rdid))));
            o.push(("rcrate", J::s(tcx.crate_name(rdid.krate).to_string())));
            let k = match inst.def {
                InstanceKind::Item(_) => "item",
                InstanceKind::Virtual(..) => "virtual",
                InstanceKind::Intrinsic(_) => "intrinsic",
                InstanceKind::ClosureOnceShim { .. } => "closure_once_shim",
                InstanceKind::FnPtrShim(..) => "fnptr_shim",
                InstanceKind::DropGlue(..) => "drop_glue",
                InstanceKind::CloneShim(..) => "clone_shim",
                InstanceKind::ReifyShim(..) => "reify_shim",
                InstanceKind::VTableShim(..) => "vtable_shim",
                _ => "other",
            };
            o.push(("rkind", J::s(k)));
        }
        J::Obj(o)
    }

    fn constant(&mut self, c: &mir::ConstOperand<'tcx>, as_value: bool) -> J {
        let tcx = self.cx.tcx;
        let env = TypingEnv::post_analysis(tcx, self.did);
        let t: Ty<'tcx> = c.const_.ty();
        let mut o = vec![("ty", J::s(self.cx.ty(t)))];
        match t.kind() {
            ty::FnDef(did, args) => {
                let f = self.fn_ref(*did, args);
                if as_value {
                    // a function item used as a value (reference edge)
                    self.refs.push(self.fn_ref(*did, args));
                }
                o.push(("fn", f));
            }
            _ => {
                let r = std::panic::catch_unwind(std::panic::AssertUnwindSafe(|| {
                    c.const_.try_eval_scalar_int(tcx, env)
                }));
                if let Ok(Some(si)) = r {
                    let size = si.size();
                    let v: i128 = if t.is_signed() {
                        si.to_int(size)
                    } else {
                        si.to_uint(size) as i128
                    };
                    // u128 values above i128::MAX do not occur in mos; keep them as disp only
                    o.push(("int", J::Int(v)));
                    o.push(("bits", J::Int(size.bits() as i128)));
                } else if let ty::Ref(_, inner, _) = t.kind() {
                    if inner.is_str() {
                        let val = match c.const_ {
                            Const::Val(v, _) => Some(v),
                            _ => std::panic::catch_unwind(std::panic::AssertUnwindSafe(|| {
                                c.const_.eval(tcx, env, c.span).ok()
                            }))
                            .ok()
                            .flatten(),
                        };
                        if let Some(v @ (ConstValue::Slice { .. } | ConstValue::Indirect { .. })) = val {
                            if let Some(bytes) = v.try_get_slice_bytes_for_diagnostics(tcx) {
                                o.push(("str", J::s(String::from_utf8_lossy(bytes).to_string())));
                            }
                        }
                    }
                }
                o.push(("disp", J::s(self.cx.disp(&c.const_))));
            }
        }
        J::Obj(vec![("const", J::Obj(o))])
    }

    fn operand(&mut self, op: &Operand<'tcx>, as_value: bool) -> J {
        match op {
            Operand::Copy(p) => J::Obj(vec![("copy", self.place(p))]),
            Operand::Move(p) => J::Obj(vec![("move", self.place(p))]),
            Operand::Constant(c) => self.constant(c, as_value),
            _ => J::Obj(vec![("rtc", J::Bool(true))]),
        }
    }

    fn rvalue(&mut self, rv: &Rvalue<'tcx>) -> J {
        match rv {
            Rvalue::Use(op, ..) => J::Obj(vec![("k", J::s("use")), ("op", self.operand(op, true))]),
            Rvalue::Repeat(op, n) => J::Obj(vec![
                ("k", J::s("repeat")),
                ("op", self.operand(op, true)),
                ("n", J::s(self.cx.disp(n))),
            ]),
            Rvalue::Ref(_, bk, p) => J::Obj(vec![
                ("k", J::s("ref")),
                ("mut", J::Bool(matches!(bk, mir::BorrowKind::Mut { .. }))),
                ("place", self.place(p)),
            ]),
            Rvalue::RawPtr(k, p) => J::Obj(vec![
                ("k", J::s("rawptr")),
                ("mut", J::Bool(matches!(k, mir::RawPtrKind::Mut))),
                ("place", self.place(p)),
            ]),
            Rvalue::Cast(kind, op, t) => J::Obj(vec![
                ("k", J::s("cast")),
                ("ck", J::s(format!("{:?}", kind))),
                ("op", self.operand(op, true)),
                ("ty", J::s(self.cx.ty(*t))),
            ]),
            Rvalue::BinaryOp(op, b) => J::Obj(vec![
                ("k", J::s("binop")),
                ("op", J::s(format!("{:?}", op))),
                ("l", self.operand(&b.0, false)),
                ("r", self.operand(&b.1, false)),
            ]),
            Rvalue::UnaryOp(op, a) => J::Obj(vec![
                ("k", J::s("unop")),
                ("op", J::s(format!("{:?}", op))),
                ("a", self.operand(a, false)),
            ]),
            Rvalue::Discriminant(p) => J::Obj(vec![("k", J::s("discr")), ("place", self.place(p))]),
            Rvalue::Aggregate(kind, ops) => {
                let mut o = vec![("k", J::s("agg"))];
                match &**kind {
                    AggregateKind::Array(t) => {
                        o.push(("ak", J::s("array")));
                        o.push(("ty", J::s(self.cx.ty(*t))));
                    }
                    AggregateKind::Tuple => o.push(("ak", J::s("tuple"))),
                    AggregateKind::Adt(did, vi, _args, _, _) => {
                        let adt = self.cx.tcx.adt_def(*did);
                        let v = adt.variant(*vi);
                        o.push(("ak", J::s("adt")));
                        o.push(("adt", J::s(self.cx.path(*did))));
                        o.push(("variant", J::s(v.name.to_string())));
                        o.push((
                            "fields",
                            J::Arr(v.fields.iter().map(|f| J::s(f.name.to_string())).collect()),
                        ));
                    }
                    AggregateKind::Closure(did, _) => {
                        o.push(("ak", J::s("closure")));
                        o.push(("closure", J::s(self.cx.id(*did))));
                        self.refs.push(J::Obj(vec![
                            ("id", J::s(self.cx.id(*did))),
                            ("path", J::s(self.cx.path(*did))),
                            ("closure", J::Bool(true)),
                        ]));
                    }
                    _ => o.push(("ak", J::s("other"))),
                }
                o.push(("ops", J::Arr(ops.iter().map(|x| self.operand(x, true)).collect())));
                J::Obj(o)
            }
            Rvalue::CopyForDeref(p) => J::Obj(vec![("k", J::s("copy_for_deref")), ("place", self.place(p))]),
            other => J::Obj(vec![("k", J::s("other")), ("disp", J::s(self.cx.dbg(other)))]),
        }
    }

    fn line(&self, sp: rustc_span::Span) -> (J, J) {
        let (_, line, _, exp) = self.cx.loc(sp);
        (J::Int(line as i128), J::Bool(exp))
    }

    fn unwind(&self, u: &UnwindAction) -> J {
        match u {
            UnwindAction::Cleanup(b) => bb(*b),
            _ => J::Null,
        }
    }

    fn terminator(&mut self, t: &mir::Terminator<'tcx>) -> J {
        let (line, exp) = self.line(t.source_info.span);
        let mut o: Vec<(&'static str, J)> = vec![];
        match &t.kind {
            TerminatorKind::Goto { target } => {
                o.push(("k", J::s("goto")));
                o.push(("target", bb(*target)));
            }
            TerminatorKind::SwitchInt { discr, targets } => {
                o.push(("k", J::s("switch")));
                o.push(("discr", self.operand(discr, false)));
                let mut ts = vec![];
                for (v, b) in targets.iter() {
                    ts.push(J::Arr(vec![J::Int(v as i128), bb(b)]));
                }
                o.push(("targets", J::Arr(ts)));
                o.push(("otherwise", bb(targets.otherwise())));
            }
            TerminatorKind::Return => o.push(("k", J::s("return"))),
            TerminatorKind::Unreachable => o.push(("k", J::s("unreachable"))),
            TerminatorKind::UnwindResume => o.push(("k", J::s("resume"))),
            TerminatorKind::UnwindTerminate(_) => o.push(("k", J::s("terminate"))),
            TerminatorKind::Drop { place, target, unwind, .. } => {
                o.push(("k", J::s("drop")));
                o.push(("place", self.place(place)));
                let pt = place.ty(self.body, self.cx.tcx).ty;
                o.push(("pty", J::s(self.cx.ty(pt))));
                o.push(("target", bb(*target)));
                o.push(("unwind", self.unwind(unwind)));
            }
            TerminatorKind::Call { func, args, destination, target, unwind, fn_span, .. } => {
                o.push(("k", J::s("call")));
                let f = match func {
                    Operand::Constant(c) => match c.const_.ty().kind() {
                        ty::FnDef(did, ga) => self.fn_ref(*did, ga),
                        _ => J::Obj(vec![("indirect", self.operand(func, false))]),
                    },
                    _ => J::Obj(vec![
                        ("indirect", self.operand(func, false)),
                        ("fty", J::s(self.cx.ty(func.ty(self.body, self.cx.tcx)))),
                    ]),
                };
                o.push(("f", f));
                o.push(("args", J::Arr(args.iter().map(|a| self.operand(&a.node, true)).collect())));
                o.push(("dst", self.place(destination)));
                o.push(("target", match target { Some(b) => bb(*b), None => J::Null }));
                o.push(("unwind", self.unwind(unwind)));
                let (fl, _) = self.line(*fn_span);
                o.push(("fline", fl));
            }
            TerminatorKind::Assert { cond, expected, msg, target, unwind } => {
                o.push(("k", J::s("assert")));
                o.push(("cond", self.operand(cond, false)));
                o.push(("expected", J::Bool(*expected)));
                let (kind, ops): (String, Vec<&Operand<'tcx>>) = match &**msg {
                    mir::AssertKind::BoundsCheck { len, index } => ("BoundsCheck".into(), vec![len, index]),
                    mir::AssertKind::Overflow(op, a, b) => (format!("Overflow({:?})", op), vec![a, b]),
                    mir::AssertKind::OverflowNeg(a) => ("OverflowNeg".into(), vec![a]),
                    mir::AssertKind::DivisionByZero(a) => ("DivisionByZero".into(), vec![a]),
                    mir::AssertKind::RemainderByZero(a) => ("RemainderByZero".into(), vec![a]),
                    other => (format!("{:?}", std::mem::discriminant(other)), vec![]),
                };
                o.push(("kind", J::s(kind)));
                o.push(("ops", J::Arr(ops.into_iter().map(|x| self.operand(x, false)).collect())));
                o.push(("target", bb(*target)));
                o.push(("unwind", self.unwind(unwind)));
            }
            TerminatorKind::FalseEdge { real_target, .. } => {
                o.push(("k", J::s("goto")));
                o.push(("target", bb(*real_target)));
            }
            TerminatorKind::FalseUnwind { real_target, .. } => {
                o.push(("k", J::s("goto")));
                o.push(("target", bb(*real_target)));
            }
            other => {
                o.push(("k", J::s("other")));
                o.push(("disp", J::s(self.cx.dbg(other))));
            }
        }
        o.push(("line", line));
        o.push(("exp", exp));
        J::Obj(o)
    }
}

pub fn dump_body<'tcx>(cx: &Cx<'tcx>, did: DefId) -> Vec<(&'static str, J)> {
    let tcx = cx.tcx;
    let body: &Body<'tcx> = tcx.optimized_mir(did);
    let mut m = M { cx, body, did, refs: vec![] };

    // debug names
    let mut names: Vec<Option<String>> = vec![None; body.local_decls.len()];
    let mut upvars = vec![];
    for vdi in body.var_debug_info.iter() {
        if let mir::VarDebugInfoContents::Place(p) = &vdi.value {
            if p.projection.is_empty() {
                names[p.local.as_usize()] = Some(vdi.name.to_string());
            } else {
                // captured upvar of a closure: _1.<idx> (possibly behind a deref)
                upvars.push(J::Obj(vec![("name", J::s(vdi.name.to_string())), ("place", m.place(p))]));
            }
        }
    }
    let mut locals = vec![];
    for (l, d) in body.local_decls.iter_enumerated() {
        locals.push(J::Obj(vec![
            ("ty", J::s(cx.ty(d.ty))),
            ("name", J::opt_s(names[l.as_usize()].clone())),
        ]));
    }
    let mut blocks = vec![];
    for (_b, data) in body.basic_blocks.iter_enumerated() {
        let mut stmts = vec![];
        for s in data.statements.iter() {
            match &s.kind {
                StatementKind::Assign(b) => {
                    let (p, rv) = &**b;
                    let (line, exp) = m.line(s.source_info.span);
                    stmts.push(J::Obj(vec![
                        ("k", J::s("assign")),
                        ("dst", m.place(p)),
                        ("rv", m.rvalue(rv)),
                        ("line", line),
                        ("exp", exp),
                    ]));
                }
                StatementKind::SetDiscriminant { place, variant_index } => {
                    stmts.push(J::Obj(vec![
                        ("k", J::s("setdiscr")),
                        ("dst", m.place(place)),
                        ("vi", J::Int(variant_index.as_usize() as i128)),
                    ]));
                }
                StatementKind::StorageDead(l) => {
                    stmts.push(J::Obj(vec![("k", J::s("dead")), ("l", J::Int(l.as_usize() as i128))]));
                }
                _ => {}
            }
        }
        let term = m.terminator(data.terminator());
        blocks.push(J::Obj(vec![
            ("cleanup", J::Bool(data.is_cleanup)),
            ("stmts", J::Arr(stmts)),
            ("term", term),
        ]));
    }
    let ret_ty = cx.ty(body.return_ty());
    let refs = std::mem::take(&mut m.refs);
    vec![
        ("argc", J::Int(body.arg_count as i128)),
        ("ret_ty", J::s(ret_ty)),
        ("locals", J::Arr(locals)),
        ("upvars", J::Arr(upvars)),
        ("blocks", J::Arr(blocks)),
        ("refs", J::Arr(refs)),
    ]
}
