#!/bin/bash
# usage: run_extract.sh <repo dir> <out dir> [extra cargo args...]
# Runs the mosfacts driver over the workspace in <repo dir> with a fresh target dir; writes facts to <out dir>.
set -e
REPO="$1"; OUT="$2"; shift 2
DRV=/verif/engine/mosfacts/target/release/mosfacts
[ -x "$DRV" ] || { echo "mosfacts driver not built (run MANIFEST.setup_cmd)" >&2; exit 2; }
T=$(mktemp -d /var/tmp/mosverif.XXXXXX)
trap 'rm -rf "$T"' EXIT
mkdir -p "$OUT"
cd "$REPO"
LD_LIBRARY_PATH=$(rustc +nightly --print sysroot)/lib \
RUSTFLAGS="-Zmir-opt-level=0 -Awarnings ${MOSFACTS_RUSTFLAGS}" \
RUSTC_WORKSPACE_WRAPPER="$DRV" MOSFACTS_OUT="$OUT" \
CARGO_TARGET_DIR="$T" CARGO_NET_OFFLINE=true \
cargo +nightly check --offline --workspace "$@" >"$OUT/cargo.log" 2>&1 || { tail -40 "$OUT/cargo.log" >&2; exit 2; }
