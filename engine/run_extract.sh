#!/bin/bash
# usage: run_extract.sh <repo dir> <out dir> <profile> [extra cargo args...]
# Runs the mosfacts driver (RUSTC_WORKSPACE_WRAPPER) over the workspace in <repo dir>; facts go to <out dir>.
# The target dir /verif/.cache/target-<profile> keeps the *dependencies* warm; the workspace members'
# fingerprints are removed first so that cargo re-runs the driver on every member (a fresh-looking member
# would otherwise be skipped and produce no facts).
set -e
REPO="$1"; OUT="$2"; PROFILE="$3"; shift 3
VERIF="$(cd "$(dirname "$0")/.." && pwd)"
DRV="$VERIF/engine/mosfacts/target/release/mosfacts"
[ -x "$DRV" ] || { echo "mosfacts driver not built (run MANIFEST.setup_cmd)" >&2; exit 2; }
T="$VERIF/.cache/target-$PROFILE"
mkdir -p "$T" "$OUT"
rm -rf "$T"/debug/.fingerprint/mos-* "$T"/debug/.fingerprint/mos_* "$T"/debug/incremental
cd "$REPO"
LD_LIBRARY_PATH=$(rustc +nightly --print sysroot)/lib \
RUSTFLAGS="-Zmir-opt-level=0 -Awarnings ${MOSFACTS_RUSTFLAGS}" \
RUSTC_WORKSPACE_WRAPPER="$DRV" MOSFACTS_OUT="$OUT" \
CARGO_TARGET_DIR="$T" CARGO_NET_OFFLINE=true CARGO_INCREMENTAL=0 \
cargo +nightly check --offline --workspace "$@" >"$OUT/cargo.log" 2>&1 || { tail -40 "$OUT/cargo.log" >&2; exit 2; }
# stale member artifacts of earlier trees are not needed again
find "$T"/debug/deps -maxdepth 1 \( -name 'libmos-*' -o -name 'libmos_*' -o -name 'mos-*' -o -name 'mos_*' \) -mmin +30 -delete 2>/dev/null || true
