#!/usr/bin/env python3
"""Writes ref/isa6502.json: the 151 documented NMOS 6502 opcodes, written down from the
MOS 6502 programming manual's instruction tables (not from the mos source), and their
projection onto mos' five syntactic operand forms."""
import json, os
ISA = """
ADC imm 69 zp 65 zpx 75 abs 6D absx 7D absy 79 indx 61 indy 71
AND imm 29 zp 25 zpx 35 abs 2D absx 3D absy 39 indx 21 indy 31
ASL acc 0A zp 06 zpx 16 abs 0E absx 1E
BCC rel 90
BCS rel B0
BEQ rel F0
BIT zp 24 abs 2C
BMI rel 30
BNE rel D0
BPL rel 10
BRK imp 00
BVC rel 50
BVS rel 70
CLC imp 18
CLD imp D8
CLI imp 58
CLV imp B8
CMP imm C9 zp C5 zpx D5 abs CD absx DD absy D9 indx C1 indy D1
CPX imm E0 zp E4 abs EC
CPY imm C0 zp C4 abs CC
DEC zp C6 zpx D6 abs CE absx DE
DEX imp CA
DEY imp 88
EOR imm 49 zp 45 zpx 55 abs 4D absx 5D absy 59 indx 41 indy 51
INC zp E6 zpx F6 abs EE absx FE
INX imp E8
INY imp C8
JMP abs 4C ind 6C
JSR abs 20
LDA imm A9 zp A5 zpx B5 abs AD absx BD absy B9 indx A1 indy B1
LDX imm A2 zp A6 zpy B6 abs AE absy BE
LDY imm A0 zp A4 zpx B4 abs AC absx BC
LSR acc 4A zp 46 zpx 56 abs 4E absx 5E
NOP imp EA
ORA imm 09 zp 05 zpx 15 abs 0D absx 1D absy 19 indx 01 indy 11
PHA imp 48
PHP imp 08
PLA imp 68
PLP imp 28
ROL acc 2A zp 26 zpx 36 abs 2E absx 3E
ROR acc 6A zp 66 zpx 76 abs 6E absx 7E
RTI imp 40
RTS imp 60
SBC imm E9 zp E5 zpx F5 abs ED absx FD absy F9 indx E1 indy F1
SEC imp 38
SED imp F8
SEI imp 78
STA zp 85 zpx 95 abs 8D absx 9D absy 99 indx 81 indy 91
STX zp 86 zpy 96 abs 8E
STY zp 84 zpx 94 abs 8C
TAX imp AA
TAY imp A8
TSX imp BA
TXA imp 8A
TXS imp 9A
TYA imp 98
"""
# mode -> (mos addressing form, index register, operand length)
FORM = {
    "imm": ("Immediate", None, 1), "zp": ("AbsoluteOrZp", None, 1), "abs": ("AbsoluteOrZp", None, 2),
    "zpx": ("AbsoluteOrZp", "X", 1), "absx": ("AbsoluteOrZp", "X", 2),
    "zpy": ("AbsoluteOrZp", "Y", 1), "absy": ("AbsoluteOrZp", "Y", 2),
    "indx": ("Indirect", "X", 1), "indy": ("OuterIndirect", "Y", 1), "ind": ("OuterIndirect", None, 2),
    "acc": ("Implied", None, 0), "imp": ("Implied", None, 0), "rel": ("AbsoluteOrZp", None, 1),
}
ops = []
for line in ISA.strip().splitlines():
    t = line.split()
    for i in range(1, len(t), 2):
        ops.append((t[0], t[i], int(t[i + 1], 16)))
assert len(ops) == 151 and len({o[2] for o in ops}) == 151, len(ops)
rows = {}
for m, mode, op in ops:
    form, reg, n = FORM[mode]
    rows.setdefault((m.capitalize(), form, reg), []).append((n, op))
out = []
for (m, form, reg), c in sorted(rows.items(), key=lambda x: (x[0][0], x[0][1], x[0][2] or "")):
    c.sort()  # shortest operand first: zero page is preferred when the value fits
    out.append({"mnemonic": m, "form": form, "index": reg, "candidates": [[op, n] for n, op in c]})
rel = sorted({m.capitalize() for m, mode, _ in ops if mode == "rel"})
d = {"source": "MOS 6502 programming manual, instruction tables (151 documented opcodes)",
     "mnemonics": sorted({m.capitalize() for m, _, _ in ops}), "opcodes": [[m, mode, op] for m, mode, op in ops],
     "forms": ["AbsoluteOrZp", "Immediate", "Implied", "Indirect", "OuterIndirect"], "index": [None, "X", "Y"],
     "rows": out, "relative": rel}
json.dump(d, open(os.path.join(os.path.dirname(os.path.abspath(__file__)), "isa6502.json"), "w"), indent=0)
print(len(ops), "opcodes,", len(d["mnemonics"]), "mnemonics,", len(out), "rows,", len(rel), "relative")
