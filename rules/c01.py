"""C01 — every instruction is encoded exactly as the 6502 ISA prescribes.

Decided here (structural clauses, DESIGN.md §4 C01):
 R1.1 opcode table ≡ ISA on all mnemonic × form × index keys (first-match semantics, exhaustive)
 R1.2 size selection: 1-byte candidate iff operand < 256, 2-byte little endian, fall-through rejects
 R1.3 relative branches: mnemonic set, +2, target-cur, -128..=127, +256 wrap, out of range ⇒ Err
 R1.4 operand grammar ↔ addressing form, alternative order, register suffix table
 R1.5 line locality: nothing reachable from the operand/expression grammar accepts a line break
 R1.6 mnemonic tag ↔ variant tables; operand-taking / implied sets agree with the ISA
 R1.7 the emitter hands (mnemonic, form, index, value) of the *same* instruction to the table
"""
import json
import os

from . import grammar, lib

HERE = os.path.dirname(os.path.abspath(__file__))
MN = "mos_core::parser::mnemonic::Mnemonic"
AM = "mos_core::parser::ast::AddressingMode"
IR = "mos_core::parser::ast::IndexRegister"


def isa():
    with open(os.path.join(os.path.dirname(HERE), "ref", "isa6502.json")) as f:
        return json.load(f)


def user_exprs(n):
    """maximal sub-expressions written by the user inside a macro expansion, de-duplicated by
    source position (smallvec! repeats every argument twice)"""
    out = {}

    def rec(x):
        if isinstance(x, dict):
            if "k" in x and "ln" in x and "col" in x and not x.get("exp") and x.get("k") not in ("block",):
                out.setdefault((x["ln"], x["col"]), x)
                return
            for v in x.values():
                rec(v)
        elif isinstance(x, list):
            for v in x:
                rec(v)
    rec(n)
    return [out[k] for k in sorted(out)]


def find_opcode_fn(fx):
    """by role: the function containing a match on (Mnemonic, AddressingMode, Option<IndexRegister>)"""
    want = "(%s, %s, core::option::Option<%s>)" % (MN, AM, IR)
    hits = []
    for f in fx.all_fns("mos_core"):
        if not f.d.get("hir"):
            continue
        for n in lib.hwalk(f.hir["body"]):
            if n.get("k") == "match" and lib.strip(n["scrut"]).get("ty") == want:
                hits.append((f, n))
    return hits


def pat_matches(p, key):
    """does HIR pattern p match the concrete key (a nested tuple of variant paths)?  None = unknown shape"""
    k = p.get("k")
    if k == "wild":
        return True
    if k == "bind":
        return pat_matches(p["sub"], key) if p.get("sub") else True
    if k == "or":
        r = [pat_matches(q, key) for q in p["pats"]]
        if any(x is None for x in r):
            return None
        return any(r)
    if k == "tuple":
        if not isinstance(key, tuple) or len(key) != len(p["pats"]) or "dotdot" in p:
            return None
        r = [pat_matches(q, kk) for q, kk in zip(p["pats"], key)]
        if any(x is None for x in r):
            return None
        return all(r)
    if k == "path":
        return p["res"].get("path") == key
    if k == "tstruct":
        # Some(X)
        if not isinstance(key, tuple) or key[0] != p["res"].get("path"):
            return False if not isinstance(key, tuple) else (False if key[0] != p["res"].get("path") else None)
        if len(p["pats"]) != len(key) - 1:
            return None
        r = [pat_matches(q, kk) for q, kk in zip(p["pats"], key[1:])]
        if any(x is None for x in r):
            return None
        return all(r)
    if k == "ref":
        return pat_matches(p["sub"], key)
    return None


def arm_candidates(arm):
    """(opcode, operand_len) literals of an arm body in source order, or 'reject' / None"""
    body = arm["body"]
    tups = []
    rets = [n for n in lib.hwalk(body) if n.get("k") == "ret"]
    if not rets:
        for e in user_exprs(body):
            if e.get("k") == "tup" and len(e["es"]) == 2:
                a, b = lib.hlit(e["es"][0]), lib.hlit(e["es"][1])
                if isinstance(a, int) and isinstance(b, int):
                    tups.append((a, b))
                    continue
            return None, "unrecognised expression in table arm (line %s)" % e.get("ln")
        if tups:
            return tups, None
    # reject arm: `return Err(())`
    if rets and all(lib.hcallee(lib.strip(r.get("a", {}))) == "core::result::Result::Err" for r in rets):
        return "reject", None
    return None, "arm yields neither candidates nor `return Err`"


def r11(ctx, fx, ref):
    rid = ctx.rule("R1.1", "opcode table ≡ ISA reference for every (mnemonic, form, index) key under first-match semantics; "
                   "candidates equal including order (zero-page candidate first); undefined combinations reach the rejecting arm")
    hits = find_opcode_fn(fx)
    if len(hits) != 1:
        ctx.fail_closed(rid, "expected exactly one match on (Mnemonic, AddressingMode, Option<IndexRegister>), found %d" % len(hits))
        return None
    fn, m = hits[0]
    mn_adt = fx.adts.get(MN)
    am_adt = fx.adts.get(AM)
    ir_adt = fx.adts.get(IR)
    if not (mn_adt and am_adt and ir_adt):
        ctx.fail_closed(rid, "Mnemonic/AddressingMode/IndexRegister enums not found")
        return None
    mns = [v["name"] for v in mn_adt["variants"]]
    ams = [v["name"] for v in am_adt["variants"]]
    irs = [None] + [v["name"] for v in ir_adt["variants"]]
    # the enums themselves against the ISA
    if sorted(mns) != sorted(ref["mnemonics"]):
        ctx.finding(rid, "%s|mnemonic-set" % fn.path, "Mnemonic enum differs from the ISA's 56 mnemonics: extra %s missing %s" % (
            sorted(set(mns) - set(ref["mnemonics"])), sorted(set(ref["mnemonics"]) - set(mns))), fn.where)
    if sorted(ams) != sorted(ref["forms"]):
        ctx.fail_closed(rid, "AddressingMode variants %s are not the five forms the reference is projected on" % ams)
        return None
    arms = []
    for a in m["arms"]:
        if a.get("guard") is not None:
            ctx.fail_closed(rid, "table arm at line %s has a guard (unrecognised shape)" % a.get("ln"))
            return None
        c, err = arm_candidates(a)
        if c is None:
            ctx.fail_closed(rid, "%s (line %s)" % (err, a.get("ln")))
            return None
        arms.append((a, c))
    refmap = {(r["mnemonic"], r["form"], r["index"]): [tuple(c) for c in r["candidates"]] for r in ref["rows"]}
    used = set()
    nkeys = 0
    for mnv in mns:
        for amv in ams:
            for irv in irs:
                nkeys += 1
                key = ("%s::%s" % (MN, mnv), "%s::%s" % (AM, amv),
                       "core::option::Option::None" if irv is None else ("core::option::Option::Some", "%s::%s" % (IR, irv)))
                got = None
                for i, (a, c) in enumerate(arms):
                    r = pat_matches(a["pat"], key)
                    if r is None:
                        ctx.fail_closed(rid, "pattern shape not understood at line %s" % a.get("ln"))
                        return None
                    if r:
                        got = (i, c)
                        break
                want = refmap.get((mnv, amv, irv))
                k = "%s|%s/%s/%s" % (fn.path, mnv, amv, irv)
                ctx.inst(rid, k, nontrivial=True,
                         sample={"key": [mnv, amv, irv], "table": got[1] if got else None, "isa": want} if want and mnv in ("Lda", "Stx", "Jmp") else None)
                if got is None:
                    ctx.finding(rid, k, "no arm matches %s %s %s (match not exhaustive?)" % (mnv, amv, irv), fn.where)
                    continue
                used.add(got[0])
                c = got[1]
                if want is None:
                    if c != "reject":
                        ctx.finding(rid, k, "combination %s %s,%s is not defined by the 6502 ISA but the table yields %s instead of rejecting" % (
                            mnv, amv, irv, c), "%s:%s" % (fn.file, arms[got[0]][0].get("ln")), table=c)
                else:
                    if c == "reject":
                        ctx.finding(rid, k, "legal combination %s %s,%s (ISA: %s) is rejected by the table" % (
                            mnv, amv, irv, want), fn.where, isa=want)
                    elif [tuple(x) for x in c] != want:
                        ctx.finding(rid, k, "%s %s,%s: table has %s, ISA prescribes %s (opcode, operand bytes; shortest first)" % (
                            mnv, amv, irv, [("0x%02x" % a, b) for a, b in c], [("0x%02x" % a, b) for a, b in want]),
                            "%s:%s" % (fn.file, arms[got[0]][0].get("ln")), table=c, isa=want)
    # shadowed arms: an arm no key selects is dead code (a duplicate or shadowed row)
    for i, (a, c) in enumerate(arms):
        if i not in used:
            ctx.finding(rid, "%s|dead-arm|%s" % (fn.path, lib.pat_key(a["pat"])),
                        "table arm %s is shadowed by an earlier arm (never selected)" % (lib.pat_key(a["pat"]),),
                        "%s:%s" % (fn.file, a.get("ln")))
    ctx.extra["c01_keys_enumerated"] = nkeys
    ctx.extra["exhaustive"] = True
    ctx.floor(rid, 840, "opcode keys")
    return fn


def cmp_true_set_lt256(g, param):
    """is guard `g` exactly `param < 256` in one of its spellings?"""
    g = lib.strip(g)
    if g.get("k") != "binary":
        return False
    l, r = lib.strip(g["l"]), lib.strip(g["r"])
    lp, rp = lib.hpath(l), lib.hpath(r)
    lv, rv = lib.hlit(l), lib.hlit(r)
    op = g["op"]
    return (lp == param and ((op == "Lt" and rv == 256) or (op == "Le" and rv == 255))) or \
           (rp == param and ((op == "Gt" and lv == 256) or (op == "Ge" and lv == 255)))


def guard_conjuncts(g):
    g = lib.strip(g)
    if g.get("k") == "binary" and g.get("op") == "And":
        return guard_conjuncts(g["l"]) + guard_conjuncts(g["r"])
    return [g]


def mentions_nonneg(g, param):
    """does the expression contain the test `param >= 0` (or `param > -1`, `0 <= param`)?"""
    for n in lib.hwalk(g):
        if n.get("k") != "binary":
            continue
        l, r = lib.strip(n["l"]), lib.strip(n["r"])
        lp, rp, lv, rv = lib.hpath(l), lib.hpath(r), lib.hlit(l), lib.hlit(r)
        if (lp == param and ((n["op"] == "Ge" and rv == 0) or (n["op"] == "Gt" and rv == -1))) or \
                (rp == param and ((n["op"] == "Le" and lv == 0) or (n["op"] == "Lt" and lv == -1))):
            return True
    return False


def r12(ctx, fx, fn):
    rid = ctx.rule("R1.2", "size selection: candidate length 0 → opcode only; length 1 → taken iff operand < 256, operand byte = operand as u8; "
                   "length 2 → unguarded, operand bytes = (operand as u16).to_le_bytes() in order [0],[1]; no candidate fits → Err")
    if fn is None:
        ctx.fail_closed(rid, "opcode function not found")
        return
    # parameters: the i64 one is the operand
    params = [(p.get("name"), lt["ty"]) for p, lt in zip(fn.hir["params"], fn.locals[1:1 + fn.argc])]
    opn = [n for n, t in params if t == "i64"]
    if len(opn) != 1:
        ctx.fail_closed(rid, "cannot identify the operand parameter (i64) of %s" % fn.path)
        return
    opn = opn[0]
    # the match on the candidate's length inside the for loop
    sel = None
    for n in lib.hwalk(fn.hir["body"]):
        if n.get("k") == "match" and n.get("src") == "Normal" and lib.strip(n["scrut"]).get("ty") == "usize" and \
                all(a["pat"].get("k") in ("lit", "wild") for a in n["arms"]):
            sel = n
    if sel is None:
        ctx.fail_closed(rid, "selection match on the candidate's operand length not found")
        return
    lenname = lib.hpath(sel["scrut"])
    seen = {}
    for a in sel["arms"]:
        p = a["pat"]
        key = p.get("v") if p.get("k") == "lit" else "_"
        seen[key] = a
    k = "%s|select" % fn.path
    for want in (0, 1, 2):
        if want not in seen:
            ctx.finding(rid, "%s|len%d" % (k, want), "no arm for operand length %d" % want, fn.where)
    # which binding is the opcode: the other name bound by the loop's tuple pattern
    opcode_name = None
    for n in lib.hwalk(fn.hir["body"]):
        if n.get("k") == "tuple" and len(n.get("pats", [])) == 2 and all(q.get("k") == "bind" for q in n["pats"]):
            if n["pats"][1]["name"] == lenname:
                opcode_name = n["pats"][0]["name"]
    if opcode_name is None:
        ctx.fail_closed(rid, "loop pattern (opcode, operand_length) not recognised")
        return

    def ok_ret(a):
        """the user expressions handed to the Ok(v![…]) of this arm, in order"""
        rets = [r for r in lib.hwalk(a["body"]) if r.get("k") == "ret"]
        if len(rets) != 1:
            return None
        c = lib.strip(rets[0].get("a", {}))
        if lib.hcallee(c) != "core::result::Result::Ok":
            return None
        return user_exprs(c["args"][0])

    def descr(e):
        e = lib.strip(e)
        if e.get("k") == "path":
            return ("var", lib.hpath(e))
        if e.get("k") == "cast":
            return ("cast", e.get("ty"), descr(e["a"]))
        if e.get("k") == "index":
            return ("index", descr(e["a"]), lib.hlit(e["i"]))
        if e.get("k") == "mcall":
            return ("mcall", e.get("path"), descr(e["recv"]))
        return ("?", e.get("k"))

    # arm 0
    if 0 in seen:
        a = seen[0]
        ctx.inst(rid, k + "|len0")
        es = ok_ret(a)
        if a.get("guard") is not None or es is None or [descr(e) for e in es] != [("var", opcode_name)]:
            ctx.finding(rid, k + "|len0", "length-0 arm must return exactly [opcode] unguarded", "%s:%s" % (fn.file, a.get("ln")))
    if 1 in seen:
        a = seen[1]
        ctx.inst(rid, k + "|len1-guard", sample={"guard": "operand < 256", "line": a.get("ln")})
        conj = guard_conjuncts(a["guard"]) if a.get("guard") is not None else []
        if not any(cmp_true_set_lt256(c, opn) for c in conj):
            ctx.finding(rid, k + "|len1-guard", "the one-byte (zero page / immediate / relative) candidate must only be taken when operand < 256; "
                        "guard is absent or has a different true-set", "%s:%s" % (fn.file, a.get("ln")))
        ctx.inst(rid, k + "|len1-nonnegative")
        others = [c for c in conj if not cmp_true_set_lt256(c, opn)]
        if not any(mentions_nonneg(c, opn) for c in others):
            ctx.finding(rid, k + "|len1-nonnegative", "a negative operand selects the zero-page form where an absolute form exists (`operand < 256` alone also holds "
                        "for -1): `sta -1` assembles to `85 FF` — the zero page — instead of `8D FF FF`", "%s:%s" % (fn.file, a.get("ln")))
        elif len(others) != 1:
            ctx.finding(rid, k + "|len1-guard|extra", "the one-byte candidate is guarded by conditions beyond `operand < 256` and the sign test", "%s:%s" % (fn.file, a.get("ln")))
        ctx.inst(rid, k + "|len1-lower-bound")
        gd = repr(lib.hdesc(a["guard"])) if a.get("guard") is not None else ""
        if not ("-128" in gd or "('Neg', ('c', 128))" in gd or "-129" in gd):
            ctx.finding(rid, k + "|len1-lower-bound", "a negative operand of a form that only exists with one byte (immediate, indirect) is accepted however small it is: "
                        "`lda #-300` assembles, silently, to `A9 D4` — an out-of-range immediate is an error", "%s:%s" % (fn.file, a.get("ln")))
        ctx.inst(rid, k + "|len1-bytes")
        es = ok_ret(a)
        if es is None or [descr(e) for e in es] != [("var", opcode_name), ("cast", "u8", ("var", opn))]:
            ctx.finding(rid, k + "|len1-bytes", "one-byte form must emit [opcode, operand as u8]", "%s:%s" % (fn.file, a.get("ln")),
                        got=str([descr(e) for e in es] if es else None))
    if 2 in seen:
        a = seen[2]
        ctx.inst(rid, k + "|len2-guard")
        if a.get("guard") is not None:
            ctx.finding(rid, k + "|len2-guard", "the two-byte candidate must be unguarded (it is the fallback when zero page does not fit)",
                        "%s:%s" % (fn.file, a.get("ln")))
        ctx.inst(rid, k + "|len2-bytes", sample={"bytes": "[opcode, le[0], le[1]] of (operand as u16).to_le_bytes()"})
        es = ok_ret(a)
        # let val = (operand as u16).to_le_bytes()
        lets = {n["pat"]["name"]: descr(n["init"]) for n in lib.hwalk(a["body"])
                if n.get("k") == "let" and n["pat"].get("k") == "bind" and "init" in n}
        le = [nm for nm, d in lets.items() if d == ("mcall", "core::num::<impl u16>::to_le_bytes", ("cast", "u16", ("var", opn)))]
        good = False
        if es is not None and len(le) >= 1:
            for v in le:
                if [descr(e) for e in es] == [("var", opcode_name), ("index", ("var", v), 0), ("index", ("var", v), 1)]:
                    good = True
        if not good:
            ctx.finding(rid, k + "|len2-bytes", "two-byte form must emit [opcode, lo, hi] with lo/hi = (operand as u16).to_le_bytes()[0],[1]",
                        "%s:%s" % (fn.file, a.get("ln")), got=str([descr(e) for e in es] if es else None), lets=str(lets))
    # fall-through of the loop rejects: the function's tail expression is Err(())
    ctx.inst(rid, k + "|fallthrough")
    tail = fn.hir["body"].get("expr")
    if tail is None or lib.hcallee(lib.strip(tail)) != "core::result::Result::Err":
        ctx.finding(rid, k + "|fallthrough", "when no candidate fits (e.g. immediate operand ≥ 256) the function must return Err", fn.where)
    # the wildcard arm must not return
    if "_" in seen:
        a = seen["_"]
        if any(r.get("k") == "ret" for r in lib.hwalk(a["body"])):
            ctx.finding(rid, k + "|wild", "the `_` arm of the length match must fall through to the next candidate", fn.where)


def find_emit_token(fx):
    """by role: the function that calls the opcode table function"""
    out = []
    for f in fx.all_fns("mos_core"):
        for _, t in lib.calls(f):
            p, _ = lib.callee(t)
            if p and p.endswith("::get_opcode_bytes") or (p and "opcodes::" in p and p.endswith("get_opcode_bytes")):
                out.append(f)
                break
    return out


def r13(ctx, fx, ref, opfn):
    rid = ctx.rule("R1.3", "relative branches: the arm computing an offset is selected for exactly the ISA's eight relative-mode mnemonics; "
                   "offset = target − (current target pc + 2); accepted iff −128..=127; negative offsets wrap by +256; every other offset returns Err")
    # (a function of the table's own module that hands its parameters on is a spelling of the table, not a user of it)
    callers = [f for f in fx.all_fns("mos_core") if f.d.get("hir") and f.path.rsplit("::", 1)[0] != opfn.path.rsplit("::", 1)[0] and "::tests::" not in f.path and
               any(p == opfn.path or (p and p.rsplit("::", 1)[0] == opfn.path.rsplit("::", 1)[0] and fx.fn(p) is not None and
                                      any(q == opfn.path for _, q in lib.hir_calls(fx.fn(p).hir["body"]))) for _, p in lib.hir_calls(f.hir["body"]))] if opfn else []
    if len(callers) != 1:
        ctx.fail_closed(rid, "expected one caller of the opcode table, found %d" % len(callers))
        return None
    fn = callers[0]
    # match on the mnemonic with an or-pattern arm
    cand = []
    for n in lib.hwalk(fn.hir["body"]):
        if n.get("k") == "match" and (lib.strip(n["scrut"]).get("ty") or "").endswith(MN):
            for a in n["arms"]:
                if a["pat"].get("k") == "or":
                    cand.append((n, a))
    if len(cand) != 1:
        ctx.fail_closed(rid, "expected one or-pattern arm over Mnemonic in %s, found %d" % (fn.path, len(cand)))
        return fn
    m, arm = cand[0]
    k = "%s|branch" % fn.path
    loc = "%s:%s" % (fn.file, arm.get("ln"))
    got = sorted(v.rsplit("::", 1)[1] for v in lib.pat_variants(arm["pat"]))
    ctx.inst(rid, k + "|set", sample={"relative_mnemonics": got})
    if got != sorted(ref["relative"]):
        ctx.finding(rid, k + "|set", "branch-offset computation applies to %s, the ISA's relative-mode instructions are %s" % (got, sorted(ref["relative"])), loc)
    body = arm["body"]
    lets = {}
    for n in lib.hwalk(body):
        if n.get("k") == "let" and n["pat"].get("k") == "bind" and "init" in n:
            lets[n["pat"]["name"]] = n["init"]

    def derives_from_call(e, suffix, depth=0):
        e = lib.strip(e)
        if depth > 6 or not isinstance(e, dict):
            return False
        for x in lib.hwalk(e):
            if x.get("k") in ("call", "mcall") and (lib.hcallee(x) or "").endswith(suffix):
                return True
        return False

    # cur_pc: a let whose init contains  <try_current_target_pc…> + 2   (plain, wrapping_ or checked_ addition)
    cur = None
    descs = {nm: lib.hdesc(init) for nm, init in lets.items()}
    for nm, d in descs.items():
        for t in lib.subterms(d):
            if isinstance(t, tuple) and len(t) == 3 and t[0] == "Add":
                for a, b in ((t[1], t[2]), (t[2], t[1])):
                    if "try_current_target_pc" in repr(a) and isinstance(b, tuple) and b[0] == "c":
                        cur = (nm, b[1])
    ctx.inst(rid, k + "|plus2", sample={"cur_pc": cur})
    if cur is None:
        ctx.finding(rid, k + "|plus2", "address of the next instruction (current target pc + 2) not found", loc)
    elif cur[1] != 2:
        ctx.finding(rid, k + "|plus2", "branch origin must be current pc + 2 (length of the branch instruction), found + %s" % cur[1], loc)
    # offset = target - cur   (plain, checked_ or wrapping_ subtraction)
    off = None
    for nm, d in descs.items():
        for t in lib.subterms(d):
            if isinstance(t, tuple) and len(t) == 3 and t[0] == "Sub" and t[1][0] == "v" and t[2][0] == "v":
                off = (nm, t[1][1], t[2][1])
    ctx.inst(rid, k + "|sub", sample={"offset": off})
    tgt = None
    if off is None:
        ctx.finding(rid, k + "|sub", "offset = target − origin not found", loc)
    else:
        tgt = off[1]
        if cur and off[2] != cur[0]:
            ctx.finding(rid, k + "|sub", "offset must subtract the origin (%s); it subtracts %s" % (cur[0], off[2]), loc)
        # the target must be the operand's value
        tinit = lets.get(off[1])
        tsrc = lib.strip(tinit) if tinit else None
        while tsrc is not None and tsrc.get("k") == "cast":
            tsrc = lib.strip(tsrc["a"])
        if tsrc is None or tsrc.get("k") != "path":
            ctx.finding(rid, k + "|sub", "branch target is not the evaluated operand value", loc)
    # range test
    rng = None
    for x in lib.hwalk(body):
        if x.get("k") == "mcall" and lib.pm(x.get("path"), "RangeInclusive::contains"):
            recv = lib.strip(x["recv"])
            ends = []
            for e in lib.hwalk(recv):
                if e.get("k") == "unary" and e["op"] == "Neg" and lib.hlit(e["a"]) is not None:
                    ends.append(-lib.hlit(e["a"]))
                elif e.get("k") == "lit" and e.get("lk") == "int":
                    ends.append(e["v"])
            # Neg(128) also yields the inner 128 literal: drop it
            if len(ends) == 3 and ends[0] == -ends[1]:
                ends = [ends[0], ends[2]]
            rng = (ends, lib.hpath(x["args"][0]), x)
    ctx.inst(rid, k + "|range", sample={"range": rng[0] if rng else None})
    ifnode = None
    if rng is None:
        ctx.fail_closed(rid, "range test of the branch offset not recognised (expected RangeInclusive::contains)")
    else:
        if rng[0] != [-128, 127]:
            ctx.finding(rid, k + "|range", "branch offset range is %s, the ISA's signed byte is -128..=127" % rng[0], loc)
        if off and rng[1] != off[0]:
            ctx.finding(rid, k + "|range", "range test is applied to %s, not to the offset %s" % (rng[1], off[0]), loc)
        for x in lib.hwalk(body):
            if x.get("k") == "if" and lib.strip(x["cond"]) is rng[2]:
                ifnode = x
    if ifnode is not None:
        # in range: if offset < 0 { offset += 256 }
        ctx.inst(rid, k + "|wrap")
        good = False
        for x in lib.hwalk(ifnode["then"]):
            if x.get("k") == "if":
                c = lib.strip(x["cond"])
                if c.get("k") == "binary" and c["op"] == "Lt" and off and lib.hpath(c["l"]) == off[0] and lib.hlit(c["r"]) == 0:
                    for y in lib.hwalk(x["then"]):
                        if y.get("k") == "assignop" and y["op"] == "AddAssign" and lib.hpath(y["l"]) == off[0] and lib.hlit(y["r"]) == 256:
                            good = True
        if not good:
            ctx.finding(rid, k + "|wrap", "negative in-range offsets must be encoded as offset + 256 (two's complement byte)", loc)
        # out of range: every path must return Err
        ctx.inst(rid, k + "|reject", sample={"rule": "every out-of-range path returns Err"})

        def all_paths_err(e):
            e = lib.strip(e)
            if e is None or not isinstance(e, dict):
                return False
            if e.get("k") == "block":
                if e.get("stmts"):
                    last = e["stmts"][-1]
                    if last.get("k") in ("semi", "expr") and all_paths_err(last["e"]):
                        return True
                return all_paths_err(e.get("expr")) if e.get("expr") is not None else False
            if e.get("k") == "ret":
                return lib.hcallee(lib.strip(e.get("a", {}))) == "core::result::Result::Err"
            if e.get("k") == "if":
                return all_paths_err(e["then"]) and ("else" in e and all_paths_err(e["else"]))
            return False
        if "else" not in ifnode or not all_paths_err(ifnode["else"]):
            # describe the escaping condition
            esc = ""
            e = lib.strip(ifnode.get("else", {}))
            if e.get("k") == "if":
                c = lib.strip(e["cond"])
                if c.get("k") == "binary":
                    esc = " (escape: %s %s %s yields a value instead of an error)" % (lib.hpath(c["l"]), c["op"], lib.hlit(c["r"]))
            ctx.finding(rid, k + "|reject", "a branch distance outside -128..=127 is not rejected on every path%s" % esc,
                        "%s:%s" % (fn.file, ifnode.get("ln")))
    return fn


def r17(ctx, fx, opfn, emitfn):
    rid = ctx.rule("R1.7", "the emitter passes mnemonic, addressing form, index register and evaluated value of one and the same instruction to the "
                   "opcode table and emits exactly the returned bytes")
    if not (opfn and emitfn):
        ctx.fail_closed(rid, "opcode table or its caller not found")
        return
    # what an instruction assembles to is a function of the instruction: the table takes the mnemonic, the form, the index register and the operand's value — nothing
    # the code generator remembers (about other passes, other expansions of the same source text, neighbouring statements)
    k = "%s|table-signature" % opfn.path
    ptys = [lib.local_ty(opfn, i) or "?" for i in range(1, opfn.argc + 1)]
    want = ["Mnemonic", "AddressingMode", "IndexRegister", "i64"]
    ctx.inst(rid, k, sample={"parameters": ptys})
    extra = [t for t in ptys if not any(w in t for w in want)]
    if extra or len(ptys) != 4:
        ctx.finding(rid, k, "the opcode table `%s` takes %s besides mnemonic, form, index register and operand value: which encoding an instruction gets depends on "
                    "something else than the instruction — the zero-page form is no longer chosen exactly when one exists and the operand is 0..255" % (
                        opfn.path.rsplit("::", 1)[-1], ", ".join("a `%s`" % t for t in extra) or "%d parameters" % len(ptys)), opfn.where)
    mod = opfn.path.rsplit("::", 1)[0]
    spellings = {opfn.path} | {g.path for g in fx.all_fns("mos_core") if g.path.rsplit("::", 1)[0] == mod and g.d.get("hir") and
                               any(q == opfn.path for _, q in lib.hir_calls(g.hir["body"]))}
    k = "%s|table-call" % emitfn.path
    sites = [x for x, p in lib.hir_calls(emitfn.hir["body"]) if p in spellings]
    if not sites:
        ctx.fail_closed(rid, "the call of the opcode table in %s was not found" % emitfn.path)
    for x in sites:
        ctx.inst(rid, k, sample={"args": [lib.hpath(a) or lib.strip(a).get("k") for a in x["args"]]})
        a0 = lib.strip(x["args"][0])
        ok0 = a0.get("k") == "field" and a0["name"] == "data" and lib.strip(a0["a"]).get("k") == "field" and lib.strip(a0["a"])["name"] == "mnemonic"
        tys = [lib.strip(a).get("ty") for a in x["args"]]
        if not ok0 or tys[1] != AM or tys[3] != "i64":
            ctx.finding(rid, k, "opcode table is not called with (instruction.mnemonic.data, form, index, value)", "%s:%s" % (emitfn.file, x.get("ln")))
    # the tuple that binds (value, am, suffix) is built from op.addressing_mode and op.suffix.register of the same operand
    built = False
    for n in lib.hwalk(emitfn.hir["body"]):
        if n.get("k") == "tup" and len(n["es"]) == 3 and (lib.strip(n["es"][1]).get("ty") == AM):
            e1 = lib.strip(n["es"][1])
            if e1.get("k") == "field" and e1["name"] == "addressing_mode":
                built = True
    ctx.inst(rid, "%s|operand-tuple" % emitfn.path)
    if not built:
        ctx.finding(rid, "%s|operand-tuple" % emitfn.path, "the addressing form handed to the table is not the parsed operand's addressing_mode", emitfn.where)


def r14(ctx, fx):
    rid = ctx.rule("R1.4", "operand grammar: `#e`→Immediate, `(e)[,r]`→OuterIndirect, `(e[,r])`→Indirect, `e[,r]`→AbsoluteOrZp; the parenthesised "
                   "alternatives are tried before the plain one and `(e)[,r]` before `(e[,r])`; `,x`→X `,y`→Y")
    fn = None
    for f in fx.all_fns("mos_core"):
        if f.kind == "fn" and f.ret_ty.find("mos_core::parser::ast::Operand)") >= 0 and f.path.startswith("mos_core::parser::"):
            fn = f
    if fn is None:
        ctx.fail_closed(rid, "operand parser (returns IResult<Operand>) not found")
        return
    g = grammar.fn_grammar(fn)
    if not g or g[0] != "alt":
        ctx.fail_closed(rid, "operand parser is not an alt(…) of mapped sequences: %s" % grammar.short(g)[:80])
        return
    WANT = {("#", "E"): "Immediate", ("(", "E", ")", "S"): "OuterIndirect", ("(", "E", "S", ")"): "Indirect", ("E", "S"): "AbsoluteOrZp"}
    order = []
    for alt_ in g[1]:
        if alt_[0] != "map" or grammar.strip_trivia(alt_[1])[0] != "seq":
            ctx.fail_closed(rid, "operand alternative not of the form map(tuple(…), closure)")
            return
        sig = []
        for e in alt_[1][1]:
            e0 = grammar.strip_trivia(e)
            if e0[0] == "char":
                sig.append(e0[1])
            elif e0[0] == "nt" and e0[1] == "mos_core::parser::expression":
                sig.append("E")
            elif e0[0] == "opt":
                # opt(alt(register_x_suffix, register_y_suffix))
                nts = sorted(t[1].rsplit("::", 1)[1] for t in grammar.walk(e0) if t[0] == "nt")
                sig.append("S" if nts == ["register_x_suffix", "register_y_suffix"] else "?opt%s" % nts)
            else:
                sig.append("?" + grammar.short(e0))
        sig = tuple(sig)
        clo = alt_[2]
        # closure: parameter tuple binds names positionally; struct literal fields use them
        am = None
        fields = {}
        for n in lib.hwalk(clo.get("body", {})):
            if n.get("k") == "struct" and (n["res"].get("path") or "").endswith("ast::Operand"):
                for fl in n["fields"]:
                    fields[fl["name"]] = fl["e"]
        if "addressing_mode" in fields:
            am = (lib.hpath(fields["addressing_mode"]) or "").rsplit("::", 1)[-1]
        pnames = []
        ps = clo.get("params", [])
        if len(ps) == 1 and ps[0].get("k") == "tuple":
            pnames = [q.get("name") if q.get("k") == "bind" else None for q in ps[0]["pats"]]
        k = "%s|%s" % (fn.path, "".join(sig))
        ctx.inst(rid, k, sample={"syntax": "".join(sig), "form": am})
        order.append(sig)
        if sig not in WANT:
            ctx.finding(rid, k, "operand alternative with unexpected syntax %s" % (sig,), "%s:%s" % (fn.file, alt_[-1].get("ln")))
            continue
        if am != WANT[sig]:
            ctx.finding(rid, k, "syntax %s must yield addressing form %s, yields %s" % ("".join(sig), WANT[sig], am),
                        "%s:%s" % (fn.file, alt_[-1].get("ln")))
        # positional binding of expr / suffix
        if len(pnames) == len(sig):
            for pos, s in enumerate(sig):
                if s == "E" and lib.hpath(fields.get("expr", {})) != pnames[pos]:
                    ctx.finding(rid, k + "|expr", "Operand.expr is not the expression parsed at position %d" % pos, fn.where)
                if s == "S" and lib.hpath(fields.get("suffix", {})) != pnames[pos]:
                    ctx.finding(rid, k + "|suffix", "Operand.suffix is not the register suffix parsed at position %d" % pos, fn.where)
            if "S" not in sig and lib.hpath(fields.get("suffix", {})) != "core::option::Option::None":
                ctx.finding(rid, k + "|suffix", "form without register suffix must have suffix None", fn.where)
        else:
            ctx.fail_closed(rid, "closure parameters of alternative %s not recognised" % (sig,))
    for s in WANT:
        if s not in order:
            ctx.finding(rid, "%s|missing|%s" % (fn.path, "".join(s)), "operand syntax %s is not accepted" % "".join(s), fn.where)
    ctx.inst(rid, "%s|order" % fn.path, sample={"order": ["".join(s) for s in order]})

    def idx(s):
        return order.index(s) if s in order else None
    i_oi, i_i, i_a = idx(("(", "E", ")", "S")), idx(("(", "E", "S", ")")), idx(("E", "S"))
    if None not in (i_oi, i_i, i_a) and not (i_oi < i_i < i_a):
        ctx.finding(rid, "%s|order" % fn.path, "alternative order must be (e)[,r] < (e[,r]) < e[,r]: otherwise `(zp),y` is read as `(zp)` followed by garbage, "
                    "or a parenthesised operand as an absolute expression; order is %s" % ["".join(s) for s in order], fn.where)
    # register suffix table
    for nm, lit, var in (("register_x_suffix", "x", "X"), ("register_y_suffix", "y", "Y")):
        f = fx.fn("mos_core::parser::" + nm)
        ctx.inst(rid, "mos_core::parser::%s" % nm, sample={"suffix": lit, "register": var})
        if f is None:
            ctx.fail_closed(rid, "%s not found" % nm)
            continue
        gg = grammar.fn_grammar(f)
        ok = gg[0] == "call" and gg[1].endswith("register_suffix") and len(gg[2]) == 2 and gg[2][0][0] == "lit" and \
            str(gg[2][0][1]).lower() == lit and gg[2][1][0] == "nt" and gg[2][1][1] == "%s::%s" % (IR, var)
        if not ok:
            ctx.finding(rid, "mos_core::parser::%s" % nm, "`,%s` must map to IndexRegister::%s: %s" % (lit, var, grammar.short(gg)), f.where)
    f = fx.fn("mos_core::parser::register_suffix")
    if f is not None:
        gg = grammar.fn_grammar(f)
        sig = [grammar.strip_trivia(e) for e in (gg[1][1] if gg[0] == "map" and gg[1][0] == "seq" else [])]
        ctx.inst(rid, "mos_core::parser::register_suffix")
        if not (len(sig) == 2 and sig[0][0] == "char" and sig[0][1] == "," and sig[1][0] == "tagvar" and sig[1][2] is True):
            ctx.finding(rid, "mos_core::parser::register_suffix", "register suffix must be `,` followed by the case-insensitive register name", f.where)
        # the closure must store `map_to` as the register
        if "map_to" not in [lib.hpath(n) for n in lib.hwalk(f.hir["body"]) if n.get("k") == "path"]:
            ctx.finding(rid, "mos_core::parser::register_suffix|map_to", "register suffix does not record the requested register", f.where)


def r15(ctx, fx, cg):
    rid = ctx.rule("R1.5", "line locality: no parser reachable from the operand/expression grammar applies the multi-line trivia wrapper `mws` "
                   "(otherwise an operand continues on the next line and an instruction's bytes depend on its neighbour)")
    roots = [f for f in (fx.fn("mos_core::parser::expression"), fx.fn("mos_core::parser::operand")) if f]
    if len(roots) != 2:
        ctx.fail_closed(rid, "parser::expression / parser::operand not found")
        return
    if not fx.find("mos_core::parser::mws"):
        ctx.fail_closed(rid, "multi-line trivia wrapper `mws` not found")
        return
    # statement-level parsers may use mws: stop at block/statement (a block's `{` may follow on a new line by design)
    stop = {f.id for nm in ("block", "statement") for f in [fx.fn("mos_core::parser::" + nm)] if f}
    reach = cg.reach([r.id for r in roots], stop=stop)
    n = 0
    for fid in sorted(reach):
        f = fx.fns[fid]
        if f.kind == "closure" or not f.path.startswith("mos_core::parser::") or fid in stop:
            continue
        n += 1
        uses = []
        owned = [f] + [c for c in fx.fns.values() if c.kind == "closure" and c.path.startswith(f.path + "::{closure")]
        for o in owned:
            for _, t in lib.calls(o):
                p, fr = lib.callee(t)
                if p == "mos_core::parser::mws":
                    uses.append(t.get("line"))
        k = "%s" % f.path
        ctx.inst(rid, k, nontrivial=True, sample={"parser": f.path, "uses_mws": bool(uses)} if f.path.endswith(("fn_call", "number")) else None)
        if uses:
            path = cg.path(roots[0].id, fid) or cg.path(roots[1].id, fid) or []
            ctx.finding(rid, k + "|mws", "%s is part of the operand grammar and accepts line breaks before its first token (mws): an operand can continue on "
                        "the following line" % f.path.rsplit("::", 1)[1], "%s:%s" % (f.file, uses[0]),
                        via=" -> ".join(fx.fns[i].path.rsplit("::", 1)[1] for i in path))
    ctx.floor(rid, 12, "parsers reachable from the operand grammar")


def r16(ctx, fx, ref):
    rid = ctx.rule("R1.6", "mnemonic parsers: every tag maps to the variant of the same name; the operand-taking parser accepts exactly the ISA's mnemonics "
                   "with a non-implied form, the implied parser exactly those with an implied/accumulator form")
    with_op = sorted({r["mnemonic"] for r in ref["rows"] if r["form"] != "Implied"})
    implied = sorted({r["mnemonic"] for r in ref["rows"] if r["form"] == "Implied"})
    for nm, want in (("mnemonic", with_op), ("implied_mnemonic", implied)):
        f = fx.fn("mos_core::parser::mnemonic::" + nm)
        if f is None:
            ctx.fail_closed(rid, "parser::mnemonic::%s not found" % nm)
            continue
        g = grammar.fn_grammar(f)
        got = []
        for t in grammar.walk(g):
            if t[0] == "map" and t[1][0] == "tag":
                lit, nocase = t[1][1], t[1][2]
                var = lib.hpath(t[2].get("body", {})) if isinstance(t[2], dict) else None
                vname = (var or "?").rsplit("::", 1)[-1]
                k = "%s|%s" % (f.path, lit)
                ctx.inst(rid, k, sample={"tag": lit, "variant": vname} if lit in ("adc", "tya") else None)
                got.append(vname)
                if not var or not var.startswith(MN + "::") or vname.lower() != str(lit).lower():
                    ctx.finding(rid, k, "tag %r is mapped to %s" % (lit, var), f.where)
                if not nocase:
                    ctx.finding(rid, k + "|case", "mnemonic tag %r is matched case-sensitively" % lit, f.where)
        ctx.inst(rid, "%s|set" % f.path)
        if sorted(got) != want:
            ctx.finding(rid, "%s|set" % f.path, "%s accepts %s; by the ISA it must accept %s (missing %s, extra %s)" % (
                nm, len(got), len(want), sorted(set(want) - set(got)), sorted(set(got) - set(want))), f.where)
    ctx.floor(rid, 60, "mnemonic tags")


def run(ctx):
    fx = ctx.facts
    ref = isa()
    cg = lib.CallGraph(fx)
    opfn = r11(ctx, fx, ref)
    r12(ctx, fx, opfn)
    emitfn = r13(ctx, fx, ref, opfn)
    r17(ctx, fx, opfn, emitfn)
    r14(ctx, fx)
    r15(ctx, fx, cg)
    r16(ctx, fx, ref)
    ctx.not_decided("the arithmetic for concrete operand values beyond the boundary constants; concatenation of statement bytes (C02 emission order)")
    ctx.assume("ref/isa6502.json (151 documented NMOS 6502 opcodes, written from the ISA) is correct")
