"""C02 — a successful build is a fixed point.

 R2.1 every field of the code generator's context (and of a segment) that a pass mutates is reset by
      the next-pass routine, or is in the table of deliberately persistent fields (with reason)
 R2.2 symbol insertion marks every changed / newly filled symbol so that another pass is forced
 R2.3 the only successful exit of the pass loop requires "no errors" and "nothing undefined"
 R2.4 every address a program can observe or set is in the target address space: labels, block
      symbols, test symbols, `*`, source map take target_pc; `* =` must convert before set_pc
 R2.5 the VICE export reads the final symbol table's label values
"""
from . import lib

CC = "mos_core::codegen::CodegenContext"
SEG = "mos_core::codegen::segment::Segment"

PERSISTENT = {
    "symbols": "the fixed-point carrier: symbol values of pass n feed pass n+1",
    "undefined": "taken by the pass loop with mem::take before next_pass (checked separately)",
    "banks": "keyed overwrite by every `.define bank` in every pass",
    "current_scope": "balanced push/pop in with_scope (checked by C07 R7.4)",
    "current_scope_nx": "saved/restored in with_scope (checked by C07 R7.4)",
    "pass_idx": "the pass counter itself",
    "import_stack": "balanced push/pop around an import's emission (the pop is not skipped by an error: checked by C06 R6.9)",
    "macro_depth": "balanced increment/decrement around a macro's expansion (the decrement is not skipped by an error: checked by C06 R6.11)",
    "variable_definitions": "deliberately the previous pass's value of every variable definition: only compared with, to decide whether another pass is needed",
    "known_definitions": "deliberately every definition seen in this or an earlier pass: only asked whether a definition is new, to decide whether another pass is "
                         "needed (checked separately: R2.1 first-definitions)",
}


def fields_written(fx, cg, root, adt):
    from collections import defaultdict
    w = defaultdict(list)
    for fid in cg.reach([root.id]):
        f = fx.fns[fid]
        for of, n, kind, bi, line in lib.writes_of(f):
            if of == adt:
                w[n].append((f, kind, line))
    return w


def find_pass_fns(ctx, fx, rid):
    emit = fx.fn(CC + "::emit_tokens")
    # by role: next_pass = the method of the context called from the pass loop that increments pass_idx
    nxt = [f for f in fx.all_fns("mos_core") if f.d.get("impl_self") == CC and
           any(of == CC and n == "pass_idx" and k == "assign" for of, n, k, _, _ in lib.writes_of(f))]
    if emit is None or len(nxt) != 1:
        ctx.fail_closed(rid, "emit_tokens / the pass-advancing method (assigns pass_idx) not found uniquely: %s" % [f.path for f in nxt])
        return None, None
    return emit, nxt[0]


def r21(ctx, fx, cg):
    rid = ctx.rule("R2.1", "per-pass state: every CodegenContext / Segment field assigned or mutably borrowed in code reachable from emit_tokens "
                   "is also reset by next_pass (resp. Segment::reset), or is tabled as deliberately persistent")
    emit, nxt = find_pass_fns(ctx, fx, rid)
    if emit is None:
        return
    w = fields_written(fx, cg, emit, CC)
    reset = {}
    for fid in cg.reach([nxt.id]):
        for of, n, kind, _, line in lib.writes_of(fx.fns[fid]):
            if of == CC:
                reset[n] = line
    adt = fx.adts.get(CC)
    if not adt:
        ctx.fail_closed(rid, "CodegenContext not found")
        return
    allf = [f["name"] for f in adt["variants"][0]["fields"]]
    for n in allf:
        k = "%s|%s" % (CC, n)
        if n not in w:
            ctx.inst(rid, k, nontrivial=False)
            continue
        ctx.inst(rid, k, sample={"field": n, "written_in": sorted({f.path.rsplit("::", 1)[1] for f, _, _ in w[n]})[:4],
                                 "reset": n in reset, "persistent": PERSISTENT.get(n)})
        if n in reset or n in PERSISTENT:
            continue
        f, kind, line = sorted(w[n], key=lambda x: (x[0].path, x[2] or 0))[0]
        ctx.finding(rid, k, "field `%s` is mutated during a pass (%s in %s) but not reset by %s: a value from an earlier pass survives into the next" % (
            n, kind, f.path.rsplit("::", 1)[1], nxt.path.rsplit("::", 1)[1]), "%s:%s" % (nxt.file, nxt.lo),
            writers=sorted({x[0].path for x in w[n]}))
    ctx.floor(rid, 10, "context fields")
    # segments: reset() must cover what emit/set_pc mutate
    sreset = fx.fn(SEG + "::reset")
    if sreset is None:
        ctx.fail_closed(rid, "Segment::reset not found")
        return
    # next_pass must reach Segment::reset
    ctx.inst(rid, "%s|calls-segment-reset" % nxt.path)
    if sreset.id not in cg.reach([nxt.id]):
        ctx.finding(rid, "%s|calls-segment-reset" % nxt.path, "next_pass does not reset the segments", nxt.where)
    sw = fields_written(fx, cg, emit, SEG)
    sres = {n for of, n, _, _, _ in lib.writes_of(sreset) if of == SEG}
    for n, ws in sorted(sw.items()):
        k = "%s|%s" % (SEG, n)
        ctx.inst(rid, k, sample={"field": n, "reset": n in sres})
        if n not in sres and n != "options":
            ctx.finding(rid, k, "segment field `%s` is mutated during a pass but not reset by Segment::reset" % n, sreset.where)
    # the pass loop must take `undefined` before calling next_pass
    loop = [f for f in fx.all_fns("mos_core") if f.kind == "fn" and any(lib.callee(t)[0] == nxt.path for _, t in lib.calls(f))]
    ctx.inst(rid, "pass-loop|undefined-taken")
    if len(loop) != 1:
        ctx.fail_closed(rid, "pass loop (caller of next_pass) not found uniquely")
        return
    loop = loop[0]
    taken = False
    for _, t in lib.calls(loop):
        p, fr = lib.callee(t)
        if p and p.startswith("core::mem::take") and "UndefinedSymbol" in fr.get("full", ""):
            taken = True
    if not taken:
        ctx.finding(rid, "pass-loop|undefined-taken", "the pass loop does not empty the undefined set (mem::take) between passes", loop.where)
    return loop


def r22(ctx, fx):
    rid = ctx.rule("R2.2", "change marking in symbol insertion: the branch for `existing.data != new.data` and the branch filling a data-less slot "
                   "both set the new-pass flag; the flag (for non-variables) inserts into the undefined set; the new value is stored")
    # by role: the context method that calls SymbolTable::update_data
    fns = [f for f in fx.all_fns("mos_core") if f.d.get("hir") and f.d.get("impl_self") == CC and
           any(True for _ in lib.hir_calls(f.hir["body"], "SymbolTable::update_data"))]
    if len(fns) != 1:
        ctx.fail_closed(rid, "symbol insertion (caller of SymbolTable::update_data) not found uniquely")
        return
    fn = fns[0]
    body = fn.hir["body"]
    flags = [n["pat"]["name"] for n in lib.hwalk(body) if n.get("k") == "let" and n["pat"].get("k") == "bind" and
             "Mut" in n["pat"].get("mode", "") and lib.hlit(n.get("init", {})) is False]
    if len(flags) != 1:
        ctx.fail_closed(rid, "new-pass flag (`let mut x = false`) not found uniquely in %s: %s" % (fn.path, flags))
        return
    flag = flags[0]

    def sets_flag(n):
        return any(x.get("k") == "assign" and lib.hpath(x["l"]) == flag and lib.hlit(x["r"]) is True for x in lib.hwalk(n))

    def is_data_ne(c):
        c = lib.strip(c)
        if c.get("k") != "binary" or c["op"] != "Ne":
            return False
        l, r = lib.strip(c["l"]), lib.strip(c["r"])
        return l.get("k") == "field" and r.get("k") == "field" and l["name"] == "data" and r["name"] == "data" and \
            (l.get("ty") or "").endswith("SymbolData")
    def comparator(c):
        """a function asked about the two `.data` values instead of `!=`: (node, [the two operands]) or None"""
        c = lib.strip(c)
        while c.get("k") == "unary" and c.get("op") == "Not":
            c = lib.strip(c["a"])
        if c.get("k") not in ("mcall", "call"):
            return None
        ops = [lib.strip(a) for a in ([c["recv"]] if c.get("k") == "mcall" else []) + list(c.get("args") or [])]
        datas = [o for o in ops if o.get("k") == "field" and o.get("name") == "data" and (o.get("ty") or "").endswith("SymbolData")]
        return c if len(datas) == 2 else None
    n_ne = 0
    for n in lib.hwalk(body):
        if n.get("k") == "if" and comparator(n["cond"]) is not None:
            c = comparator(n["cond"])
            n_ne += 1
            k = "%s|data-differs" % fn.path
            g = fx.fns.get(c.get("id")) or fx.fns.get((c.get("f") or {}).get("id") if isinstance(c.get("f"), dict) else None)
            name = c.get("name") or (c.get("path") or "?")
            ctx.inst(rid, k, sample={"branch": "comparator `%s` over existing.data and symbol.data" % name, "sets_flag": sets_flag(n["then"])})
            if not sets_flag(n["then"]):
                ctx.finding(rid, k, "a symbol whose value changed is not marked: no further pass is forced and operands encoded with the old value survive",
                            "%s:%s" % (fn.file, n.get("ln")))
            derived = (c.get("path") or "").endswith(("PartialEq::eq", "PartialEq::ne")) or name in ("eq", "ne")
            if derived:
                continue
            kinds_only = g is not None and g.d.get("hir") and any(
                (x.get("k") == "call" and "discriminant" in repr(lib.hdesc(x.get("f")))) or (x.get("k") == "path" and "discriminant" in (lib.hpath(x) or ""))
                for x in lib.hwalk(g.hir["body"]))
            if kinds_only:
                ctx.finding(rid, "%s|comparator-kinds-only" % fn.path,
                            "whether a symbol changed is decided by `%s`, which for some pairs of values compares only their kind (mem::discriminant): a value of "
                            "that kind — a string, say — that changed between passes is not marked, no further pass is forced, and what was assembled with the "
                            "old value stays in the image" % name, g.where)
            else:
                ctx.fail_closed(rid, "whether a symbol changed is decided by a hand-written comparison `%s` and not by `!=` of the values: cannot decide that it "
                                "tells every changed value apart" % name)
    for n in lib.hwalk(body):
        if n.get("k") == "if" and is_data_ne(n["cond"]):
            n_ne += 1
            k = "%s|data-differs" % fn.path
            ctx.inst(rid, k, sample={"branch": "existing.data != symbol.data", "sets_flag": sets_flag(n["then"])})
            if not sets_flag(n["then"]):
                ctx.finding(rid, k, "a symbol whose value changed is not marked: no further pass is forced and operands encoded with the old value survive",
                            "%s:%s" % (fn.file, n.get("ln")))
    if n_ne != 1:
        ctx.fail_closed(rid, "expected one `if existing.data != symbol.data` in %s, found %d" % (fn.path, n_ne))
    # the arm that calls update_data
    n_upd = 0
    for n in lib.hwalk(body):
        if n.get("k") == "match":
            for a in n["arms"]:
                if any(True for _ in lib.hir_calls(a["body"], "SymbolTable::update_data")) and \
                        not any(x.get("k") == "match" and x is not n and
                                any(True for _ in lib.hir_calls(x, "SymbolTable::update_data")) for x in lib.hwalk(a["body"])):
                    n_upd += 1
                    k = "%s|filled-from-no-data" % fn.path
                    ctx.inst(rid, k, sample={"branch": "slot without data filled", "sets_flag": sets_flag(a["body"])})
                    if not sets_flag(a["body"]):
                        ctx.finding(rid, k, "a symbol that was referenced before it had a value is filled in without forcing another pass",
                                    "%s:%s" % (fn.file, a.get("ln")))
    if n_upd != 1:
        ctx.fail_closed(rid, "arm calling update_data not isolated (%d)" % n_upd)
    # the final test
    k = "%s|flag-forces-pass" % fn.path
    ctx.inst(rid, k)
    ok = False
    for n in lib.hwalk(body):
        if n.get("k") == "if":
            c = lib.strip(n["cond"])
            names = [lib.hpath(x) for x in lib.hwalk(c) if x.get("k") == "path"]
            if flag in names and not is_data_ne(c):
                ins = [p for _, p in lib.hir_calls(n["then"], "HashSet::insert")]
                # the condition may only additionally exclude variables
                extra = [x for x in lib.hwalk(c) if x.get("k") == "binary" and x["op"] not in ("And",)]
                exc_ok = all(x["op"] == "Ne" and (lib.hpath(x["r"]) or "").endswith("SymbolType::Variable") for x in extra)
                if ins and exc_ok and lib.strip(c).get("k") in ("binary", "path"):
                    ok = True
    if not ok:
        ctx.finding(rid, k, "the new-pass flag does not lead to an insertion into the undefined set (for every symbol type except Variable)", fn.where)
    # the store of the new value
    k = "%s|store" % fn.path
    ctx.inst(rid, k)
    stores = [x for x in lib.hwalk(body) if x.get("k") == "assign" and lib.strip(x["l"]).get("k") == "unary" and
              lib.strip(x["l"])["op"] == "Deref"]
    if not stores:
        ctx.finding(rid, k, "an existing symbol is not overwritten with its new value (`*existing = symbol`)", fn.where)


def r27(ctx, fx, loop):
    rid = ctx.rule("R2.7", "what a pass did is visible to the test that ends the passes: `segments.<name>.start/end` are registered (the context method that adds symbols "
                   "under `segments`) on every path from the emission of the main file to the test `undefined.is_empty()` of the same iteration (MIR must-pass with "
                   "wrapper summaries) — registered after the test, a segment that grew in the last pass is noticed by nobody, and what reads its end (a segment that "
                   "starts there, a header word) keeps the end of the pass before")
    if loop is None:
        ctx.fail_closed(rid, "pass loop not found")
        return
    regs = [f for f in fx.all_fns("mos_core") if f.d.get("hir") and f.d.get("impl_self") == CC and "::tests::" not in f.path and
            any(x.get("k") == "lit" and str(x.get("v", "")).startswith("segments") for x in lib.hwalk(f.hir["body"])) and
            any(True for _ in lib.hir_calls(f.hir["body"], "CodegenContext::add_symbol"))]
    if not regs:
        ctx.fail_closed(rid, "the function that registers the `segments.*` symbols was not found")
        return
    reg_ids = {f.id for f in regs}
    mc = lib.MustCall(fx, lambda p: any(lib.norm(p) == lib.norm(f.path) for f in regs), depth=3)
    through = mc.call_blocks(loop)
    emits = [bi for bi, t in lib.calls(loop) if lib.norm(lib.callee(t)[0] or "").endswith("CodegenContext::emit_tokens")]
    tests = []
    du = lib.DefUse(loop)
    for bi, t in lib.calls(loop):
        p = lib.norm(lib.callee(t)[0] or "")
        if p.endswith("::is_empty") and "HashSet" in p:
            tests.append(bi)
    key = "%s|segment-symbols-before-the-test" % loop.path
    ctx.inst(rid, key, sample={"registering_functions": [f.path for f in regs], "emissions": len(emits), "tests_of_the_undefined_set": len(tests), "registrations_in_the_loop": len(through)})
    if not emits or not tests:
        ctx.fail_closed(rid, "emission of the main file / test of the undefined set not found in the pass loop")
        return
    bad = [(e, t_) for e in emits for t_ in tests if not lib.must_pass(loop, through, t_, start=e)]
    if bad:
        ctx.finding(rid, key, "the pass loop can test `undefined.is_empty()` without having registered the `segments.*` symbols of the pass it just ran: a segment whose "
                    "size changed in that pass is not noticed, no further pass follows, and whatever reads `segments.<name>.end` was assembled with the end of the "
                    "pass before", loop.where)


def r28(ctx, fx):
    rid = ctx.rule("R2.8", "the image is the bytes of the statements: a fresh segment is put into the table of segments while code is generated (`segments.insert(.., "
                   "Segment::new(..))` in anything emit_token reaches, the dummy segment of the analysis mode aside) only behind a test of the existing segment's range "
                   "(`range().is_empty()`) in the same function — from the second pass on a `.segment` block in front of its definition is accepted, and replacing "
                   "the segment would throw away what the block emitted")
    n = 0
    for f in sorted(fx.all_fns("mos_core"), key=lambda f: f.path):
        if f.kind == "closure" or not f.d.get("hir") or "::tests::" in f.path or not f.path.startswith(CC + "::"):
            continue
        if f.path.endswith(("::codegen", "::new")):
            continue
        for x in lib.hwalk(f.hir["body"]):
            if not (x.get("k") == "mcall" and x.get("name") == "insert" and lib.strip(x["recv"]).get("k") == "field" and lib.strip(x["recv"]).get("name") == "segments"):
                continue
            if any(y.get("k") == "lit" and str(y.get("v", "")).startswith("$dummy") for a in x.get("args") or [] for y in lib.hwalk(a)):
                continue
            if not any(str(lib.hcallee(y) or "").endswith("Segment::new") for a in x.get("args") or [] for y in lib.hwalk(a) if y.get("k") == "call"):
                continue
            n += 1
            guarded = any(y.get("k") == "mcall" and y.get("name") == "is_empty" and any(z.get("k") == "mcall" and z.get("name") == "range" for z in lib.hwalk(y["recv"]))
                          for y in lib.hwalk(f.hir["body"]) if (y.get("ln") or 0) <= (x.get("ln") or 0))
            key = "%s|fresh-segment#%d" % (f.path, n)
            ctx.inst(rid, key, sample={"fn": f.path, "line": x.get("ln"), "range_tested_first": guarded})
            if not guarded:
                ctx.finding(rid, key, "%s replaces a segment of the same name without looking whether something was emitted to it in this pass: with a `.segment` block in "
                            "front of the definition (accepted from the second pass on) the bytes of that block are not in the image, and nothing says so" % (
                                f.path.rsplit("::", 1)[-1]), "%s:%s" % (f.file, x.get("ln")))
    if n < 1:
        ctx.fail_closed(rid, "no place where a defined segment is put into the table was found")


def r23(ctx, fx, loop):
    rid = ctx.rule("R2.3", "pass loop: exactly one `break`; it is nested under `errors.is_empty()` and `undefined.is_empty()`; the main file is emitted "
                   "in the same iteration before it; next_pass is called on every path that iterates again")
    if loop is None:
        ctx.fail_closed(rid, "pass loop not found")
        return
    body = loop.hir["body"]
    loops = [n for n in lib.hwalk(body) if n.get("k") == "loop"]
    # the loop that contains the emit_tokens call
    target = None
    for l in loops:
        if any((p or "").endswith("CodegenContext::emit_tokens") for _, p in lib.hir_calls(l)):
            target = l
    if target is None:
        ctx.fail_closed(rid, "loop calling emit_tokens not found in %s" % loop.path)
        return

    breaks = []

    def rec(n, conds, in_nested_loop):
        if isinstance(n, list):
            for x in n:
                rec(x, conds, in_nested_loop)
            return
        if not isinstance(n, dict):
            return
        k = n.get("k")
        if k == "break" and not in_nested_loop:
            breaks.append((n, list(conds)))
            return
        if k == "closure":
            return
        if k == "loop" and n is not target:
            in_nested_loop = True
        if k == "if":
            rec(n["cond"], conds, in_nested_loop)
            rec(n["then"], conds + [("then", n["cond"])], in_nested_loop)
            if "else" in n:
                rec(n["else"], conds + [("else", n["cond"])], in_nested_loop)
            return
        for v in n.values():
            if isinstance(v, (dict, list)):
                rec(v, conds, in_nested_loop)
    rec(target["body"], [], False)
    # `while c {}` desugars to loop { if c {..} else { break } }: that break is the bound exit, handled by C06 R6.5
    user_breaks = [(b, c) for b, c in breaks if not b.get("exp")]
    k = "%s|success-exit" % loop.path
    ctx.inst(rid, k, sample={"breaks": len(user_breaks)})
    if not user_breaks:
        ctx.fail_closed(rid, "no user `break` found in the pass loop")
        return

    def is_empty_of(c, what):
        c = lib.strip(c)
        if c.get("k") != "mcall" or c.get("name") != "is_empty":
            return False
        r = lib.strip(c["recv"])
        if what == "undefined":
            return r.get("k") == "field" and r["name"] == "undefined"
        return (r.get("ty") or "").endswith("errors::Diagnostics") or (lib.strip(r).get("aty") or "").endswith("errors::Diagnostics")
    # every way out of the loop that is not an error return is a success exit and must be guarded by both
    for i, (b, conds) in enumerate(user_breaks):
        kk = k if i == 0 else "%s#%d" % (k, i + 1)
        if i:
            ctx.inst(rid, kk)
        has_err = any(side == "then" and is_empty_of(c, "errors") for side, c in conds)
        has_und = any(side == "then" and is_empty_of(c, "undefined") for side, c in conds)
        if not has_err:
            ctx.finding(rid, kk + "|errors", "a successful exit of the pass loop is not guarded by `errors.is_empty()`", "%s:%s" % (loop.file, b.get("ln")))
        if not has_und:
            ctx.finding(rid, kk + "|undefined", "a successful exit of the pass loop is not guarded by `undefined.is_empty()`: the build can succeed with the image "
                        "of a pass in which symbols still changed (operands encode the values of the pass before)", "%s:%s" % (loop.file, b.get("ln")))
    b = user_breaks[0][0]
    # emission precedes the break in the loop body (statement order)
    ctx.inst(rid, "%s|emit-before-exit" % loop.path)
    order = []
    for n in lib.hwalk(target["body"]):
        if n.get("k") in ("mcall", "call") and (lib.hcallee(n) or "").endswith("CodegenContext::emit_tokens"):
            order.append("emit")
        if n is b:
            order.append("break")
    if order[:1] != ["emit"]:
        ctx.finding(rid, "%s|emit-before-exit" % loop.path, "the pass loop can exit successfully before emitting the main file in that iteration", loop.where)


def r26(ctx, fx, loop):
    rid = ctx.rule("R2.6", "repaired convergence defects stay repaired: `.align n` pads by (n − pc mod n) mod n (nothing at an aligned address); a definition that gives a "
                   "variable another value than the same definition gave it in the previous pass asks for another pass; the pass loop never succeeds in its "
                   "first pass (a name defined further on in its scope is unknown where it is used and binds to an enclosing scope's symbol)")
    et = fx.fn(CC + "::emit_token")
    ads = fx.fn(CC + "::add_symbol")
    if et is None or ads is None or loop is None:
        ctx.fail_closed(rid, "emit_token / add_symbol / pass loop not found")
        return
    k = "emit_token|Align|padding"
    ctx.inst(rid, k)
    pads = [n for n in lib.hwalk(et.hir["body"]) if n.get("k") == "let" and n["pat"].get("k") == "bind" and n["pat"].get("name") == "padding" and "init" in n]
    if not pads:
        ctx.fail_closed(rid, "the padding computation of `.align` was not found")
    else:
        d = lib.hdesc(pads[0]["init"])
        rems = [t for t in lib.subterms(d) if isinstance(t, tuple) and t and t[0] == "Rem"]
        # (align - pc % align) % align : an outer Rem whose left operand contains a Sub with an inner Rem
        outer = [t for t in rems if any(isinstance(u, tuple) and u and u[0] == "Sub" for u in lib.subterms(t[1]))]
        if not outer:
            ctx.finding(rid, k, "`.align n` pads by n − (pc mod n), which is n — not 0 — at an address that is already aligned", "%s:%s" % (et.file, pads[0].get("ln")))
    k = "add_symbol|variable-definitions"
    ctx.inst(rid, k)
    uses = any(x.get("k") == "field" and x.get("name") == "variable_definitions" for x in lib.hwalk(ads.hir["body"]))
    cmp_ = any(n.get("k") == "binary" and n.get("op") in ("Ne", "Eq") and "variable_definitions" in repr(lib.hdesc(n)) for n in lib.hwalk(ads.hir["body"]))
    if not (uses and cmp_):
        ctx.finding(rid, k, "a variable never asks for another pass: `.var here = *` behind code that changes size leaves `jmp here` with the address of the pass before",
                    ads.where)
    k = "add_symbol|first-definitions"
    ctx.inst(rid, k)
    # the branch that inserts a symbol that was not in the table sets the new-pass flag (under the test that the definition was not seen before)
    ok = False
    for n in lib.hwalk(ads.hir["body"]):
        if n.get("k") == "match":
            for a in n["arms"]:
                if any(True for _ in lib.hir_calls(a["body"], "SymbolTable::insert")) or any(
                        x.get("k") == "mcall" and x.get("name") == "insert" and "symbols" in repr(lib.hdesc(x["recv"])) for x in lib.hwalk(a["body"])):
                    if any(x.get("k") == "assign" and lib.hlit(x["r"]) is True and "new_pass" in (lib.hpath(x["l"]) or "") for x in lib.hwalk(a["body"])):
                        ok = True
    if not ok:
        ctx.finding(rid, k, "a symbol that is defined for the first time in a later pass (in a block that an `.if defined(later)` reaches only then) never asks for "
                    "another pass: what used its name earlier in that pass stays bound to the enclosing scope's symbol of the same name", ads.where)
    k = "%s|at-least-two-passes" % loop.path
    ctx.inst(rid, k)
    ok = False
    for n in lib.hwalk(loop.hir["body"]):
        if n.get("k") == "if":
            c = lib.hdesc(n["cond"])
            # `pass_idx > 0` (any spelling: 0 < pass_idx, pass_idx != 0, pass_idx >= 1) directly guarding a break
            first_pass_excluded = isinstance(c, tuple) and "pass_idx" in repr(c) and (
                (c[0] in ("Lt", "Ne") and ("c", 0) in c[1:]) or (c[0] == "Le" and ("c", 1) in c[1:]))
            direct_break = any(x.get("k") == "semi" and lib.strip(x["e"]).get("k") == "break" or x.get("k") == "break"
                               for x in (n["then"].get("stmts") or []) + ([n["then"].get("expr")] if n["then"].get("expr") else []))
            if first_pass_excluded and direct_break:
                ok = True
    if not ok:
        ctx.finding(rid, k, "the pass loop can succeed in its very first pass: with a segment defined in the source a reference to a name that is defined further on in "
                    "its scope stays bound to the enclosing scope's symbol of the same name", loop.where)


def r24(ctx, fx):
    rid = ctx.rule("R2.4", "address spaces: label / `-` / `+` / test symbols, the evaluator's `*` and the source map take Segment::target_pc (target space); "
                   "target_pc = pc + target_offset, target_offset = target_address − initial_pc; a user value reaches Segment::set_pc (physical space) "
                   "only after subtracting target_offset")
    # structure of the conversion
    tp = fx.fn(SEG + "::target_pc")
    to = fx.fn(SEG + "::target_offset")
    if not (tp and to):
        ctx.fail_closed(rid, "Segment::target_pc / target_offset not found")
        return
    k = SEG + "::target_offset"
    ctx.inst(rid, k)
    d = lib.hdesc(to.hir["body"].get("expr") or to.hir["body"])
    subs = [t for t in lib.subterms(d) if isinstance(t, tuple) and len(t) == 3 and t[0] == "Sub"]
    if len(subs) != 1 or "'target_address'" not in repr(subs[0][1]) or "'initial_pc'" not in repr(subs[0][2]):
        ctx.finding(rid, k, "target_offset must be target_address − initial_pc", to.where)
    k = SEG + "::target_pc"
    ctx.inst(rid, k)
    d = lib.hdesc(tp.hir["body"].get("expr") or tp.hir["body"])
    adds = [t for t in lib.subterms(d) if isinstance(t, tuple) and len(t) == 3 and t[0] == "Add"]
    ok = len(adds) == 1 and "('f', 'pc'," in repr(adds[0]) and "target_offset" in repr(adds[0])
    if not ok:
        ctx.finding(rid, k, "target_pc must be pc + target_offset()", tp.where)
    # try_current_target_pc → target_pc
    tc = fx.fn(CC + "::try_current_target_pc")
    ctx.inst(rid, CC + "::try_current_target_pc")
    if tc is None:
        ctx.fail_closed(rid, "try_current_target_pc not found")
        return
    owned = [tc] + [c for c in fx.fns.values() if c.path.startswith(tc.path + "::{closure")]
    callees = {lib.callee(t)[0] for o in owned for _, t in lib.calls(o)}
    if SEG + "::target_pc" not in callees or SEG + "::pc" in callees:
        ctx.finding(rid, CC + "::try_current_target_pc", "the current address visible to programs must be Segment::target_pc, not the physical pc", tc.where)
    # every add_symbol with SymbolType::Label / TestCase / the '-' '+' constants derives its value from try_current_target_pc
    emit_token = fx.fn(CC + "::emit_token")
    with_scope = fx.fn(CC + "::with_scope")
    n_sym = 0
    for fn in (emit_token, with_scope):
        if fn is None:
            ctx.fail_closed(rid, "emit_token / with_scope not found")
            return
        for x, p in lib.hir_calls(fn.hir["body"], "CodegenContext::symbol"):
            args = lib.hargs(x)
            ty = lib.hpath(args[-1]) or ""
            is_addr = ty.endswith("SymbolType::Label") or ty.endswith("SymbolType::TestCase")
            # with_scope: the block symbols
            if fn is with_scope:
                is_addr = True
            if not is_addr:
                continue
            n_sym += 1
            val = lib.strip(args[2])
            src = None
            if val.get("k") == "mcall" and val.get("name") == "as_i64":
                src = lib.hpath(val["recv"])
            kk = "%s|addr-symbol|%d" % (fn.path, n_sym)
            ctx.inst(rid, kk, sample={"symbol_type": ty.rsplit("::", 1)[-1] or "block symbol", "value": "%s.as_i64()" % src})
            # the binding `src` must come from try_current_target_pc()
            good = False
            for n in lib.hwalk(fn.hir["body"]):
                if n.get("k") in ("letx", "let") and any(q.get("name") == src for q in lib.hwalk(n["pat"]) if q.get("k") == "bind"):
                    if any((pp or "").endswith("try_current_target_pc") for _, pp in lib.hir_calls(n.get("init", {}))):
                        good = True
                if n.get("k") == "closure" and any(q.get("name") == src for pr in n.get("params", []) for q in lib.hwalk(pr) if q.get("k") == "bind"):
                    good = good or True  # closure parameter of try_current_target_pc().map(|pc| …): checked below
            if src is None or not good:
                ctx.finding(rid, kk, "an address symbol does not take its value from the current target pc", "%s:%s" % (fn.file, x.get("ln")))
    if n_sym < 4:
        ctx.fail_closed(rid, "expected ≥4 address-valued symbol constructions (label, test, `-`, `+`), found %d" % n_sym)
    if with_scope is not None:
        # `-`/`+` closures hang off try_current_target_pc().map(...)
        ctx.inst(rid, with_scope.path + "|block-symbols")
        maps = [x for x, p in lib.hir_calls(with_scope.hir["body"], "Option::map")
                if any((pp or "").endswith("try_current_target_pc") for _, pp in lib.hir_calls(x["recv"]))]
        # or: `if let Some(pc) = self.try_current_target_pc() { … add_symbol("-", self.symbol(span, pc.as_i64(), …)) }`
        for n in lib.hwalk(with_scope.hir["body"]):
            if n.get("k") == "if" and lib.strip(n["cond"]).get("k") == "letx" and \
                    any((pp or "").endswith("try_current_target_pc") for _, pp in lib.hir_calls(lib.strip(n["cond"])["init"])) and \
                    any(True for _ in lib.hir_calls(n["then"], "CodegenContext::add_symbol")):
                maps.append(n)
        if len(maps) < 2:
            ctx.finding(rid, with_scope.path + "|block-symbols", "block start/end symbols are not derived from the current target pc", with_scope.where)
    # source map gets target_pc in emit
    em = fx.fn(CC + "::emit")
    ctx.inst(rid, CC + "::emit|source-map-space")
    if em is None:
        ctx.fail_closed(rid, "CodegenContext::emit not found")
    else:
        good = False
        sm_add = fx.fn("mos_core::codegen::source_map::SourceMap::add")
        i_pc = lib.param_index(sm_add, "ProgramCounter") if sm_add else None
        if i_pc is None:
            ctx.fail_closed(rid, "SourceMap::add(…, pc: ProgramCounter, …) not found")
        for x, p in lib.hir_calls(em.hir["body"], "SourceMap::add"):
            a = lib.hargs(x)
            if i_pc is not None and any((pp or "").endswith("Segment::target_pc") for _, pp in lib.hir_calls(a[i_pc])):
                good = True
        if not good:
            ctx.finding(rid, CC + "::emit|source-map-space", "source map entries are not recorded at the segment's target pc", em.where)
    # the evaluator's `*`
    ge = fx.fn(CC + "::get_evaluator_for_scope")
    ctx.inst(rid, CC + "::get_evaluator_for_scope|star")
    if ge is None or not any((p or "").endswith("try_current_target_pc") for _, p in lib.hir_calls(ge.hir["body"])):
        ctx.finding(rid, CC + "::get_evaluator_for_scope|star", "the evaluator's current pc (`*`) is not the target pc", ge.where if ge else None)
    # user value → set_pc
    n_set = 0
    for f in fx.all_fns("mos_core"):
        if not f.d.get("hir") or "::tests::" in f.path:
            continue
        for x, p in lib.hir_calls(f.hir["body"], "Segment::set_pc"):
            n_set += 1
            arg = lib.hargs(x)[1]
            kk = "%s|set_pc|%d" % (f.path, n_set)
            conv = any((pp or "").endswith("target_offset") for _, pp in lib.hir_calls(arg))
            # resolve a let-bound argument
            if not conv and lib.hpath(arg):
                nm = lib.hpath(arg)
                for n in lib.hwalk(f.hir["body"]):
                    if n.get("k") == "let" and n["pat"].get("name") == nm and "init" in n:
                        conv = any((pp or "").endswith("target_offset") for _, pp in lib.hir_calls(n["init"]))
            ctx.inst(rid, kk, sample={"call": "Segment::set_pc", "converted": conv})
            if not conv:
                ctx.finding(rid, kk, "`* = expr` hands a target-space address to Segment::set_pc (physical space) without subtracting target_offset: "
                            "in a relocated segment (`pc = …`) code is emitted at the wrong file offset and labels get wrong values",
                            "%s:%s" % (f.file, x.get("ln")))
    if n_set < 1:
        ctx.fail_closed(rid, "no call of Segment::set_pc found (the `* =` implementation moved?)")


def r25(ctx, fx):
    rid = ctx.rule("R2.5", "the VICE symbol export reads label symbols' data from the final symbol table (no second address computation)")
    f = fx.fn("mos_core::io::vice::to_vice_symbols")
    if f is None:
        ctx.fail_closed(rid, "io::vice::to_vice_symbols not found")
        return
    owned = [f] + [c for c in fx.fns.values() if c.path.startswith(f.path + "::{closure")]
    callees = set()
    for o in owned:
        for _, t in lib.calls(o):
            callees.add(lib.callee(t)[0])
    k = f.path
    ctx.inst(rid, k, sample={"callees": sorted(c for c in callees if c and "mos_core" in c)})
    if not any(lib.pm(c, "SymbolTable::all") for c in callees):
        ctx.finding(rid, k, "VICE export does not enumerate the symbol table", f.where)
    labels = False
    for o in owned:
        if o.d.get("hir") is None:
            continue
    for n in lib.hwalk(f.hir["body"]):
        if n.get("k") == "path" and (n.get("res", {}).get("path") or "").endswith("SymbolType::Label"):
            labels = True
    if not labels:
        ctx.finding(rid, k + "|labels", "VICE export no longer restricts itself to label symbols", f.where)
    bad = [c for c in callees if c and (c.endswith("target_pc") or c.endswith("Segment::pc"))]
    if bad:
        ctx.finding(rid, k + "|recompute", "VICE export recomputes addresses (%s) instead of using the symbol values" % bad, f.where)


def run(ctx):
    fx = ctx.facts
    cg = lib.CallGraph(fx)
    loop = r21(ctx, fx, cg)
    r22(ctx, fx)
    r23(ctx, fx, loop)
    r27(ctx, fx, loop)
    r28(ctx, fx)
    r24(ctx, fx)
    r25(ctx, fx)
    r26(ctx, fx, loop)
    ctx.not_decided("convergence for a given program; scoped lookup on concrete symbol graphs; emission order of statement bytes")
