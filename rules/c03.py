"""C03 — expressions evaluate as documented (table agreement parser ↔ AST ↔ printer ↔ evaluator ↔ docs).

 R3.1 operator tag ↔ BinaryOp variant is the documented bijection; Display is its inverse
 R3.2 apply_i64: every variant performs the documented operation on (lhs, rhs) in that order;
      string operators; evaluate_expression hands lhs/rhs through in order
 R3.3 two precedence classes, left fold
 R3.4 no operator tag is shadowed by an earlier prefix of it in the same alt
 R3.5 modifiers, prefix flags, radix, bool literals, data sizes, encodings, defined()
"""
import json
import os

from . import grammar, lib

HERE = os.path.dirname(os.path.abspath(__file__))
BOP = "mos_core::parser::ast::BinaryOp"


def ref():
    with open(os.path.join(os.path.dirname(HERE), "ref", "operators.json")) as f:
        return json.load(f)


def op_alts(fx, ctx, rid):
    """(level, [(tag, variant, nocase, ln)]) for expression_term (high) and expression (low)"""
    out = {}
    for lvl, nm, operand in (("high", "expression_term", "expression_factor"), ("low", "expression", "expression_term")):
        f = fx.fn("mos_core::parser::" + nm)
        if f is None:
            ctx.fail_closed(rid, "parser::%s not found" % nm)
            return None
        ap = grammar.applied_parsers(f)
        ops = []
        shape_ok = False
        for g in ap:
            if g[0] == "many0" and g[1][0] == "seq" and len(g[1][1]) == 2:
                a, b = g[1][1]
                if grammar.strip_trivia(a)[0] == "alt" and b[0] == "nt" and b[1] == "mos_core::parser::" + operand:
                    shape_ok = True
                    for t in grammar.strip_trivia(a)[1]:
                        if t[0] == "map" and t[1][0] == "tag":
                            var = lib.hpath(t[2].get("body", {})) if isinstance(t[2], dict) else None
                            ops.append((t[1][1], (var or "?").rsplit("::", 1)[-1], t[1][2], t[-1].get("ln")))
                        else:
                            ctx.fail_closed(rid, "operator alternative in %s is not map(tag(..), |_| BinaryOp::X)" % nm)
        first = ap[0] if ap else None
        if not shape_ok or first is None or first[0] != "nt" or first[1] != "mos_core::parser::" + operand:
            ctx.fail_closed(rid, "%s is not `operand (op operand)*` over %s" % (nm, operand))
            return None
        out[lvl] = (f, ops)
    return out


def r31_33_34(ctx, fx, R):
    rid1 = ctx.rule("R3.1", "operator tag ↔ BinaryOp variant equals the documented table (16 pairs, bijection); Display for BinaryOp prints the same tag")
    rid3 = ctx.rule("R3.3", "`* / %` are parsed in the tighter level (expression_term over expression_factor), `+ -` in the looser one (expression over "
                    "expression_term); both levels fold left: BinaryExpression{lhs: accumulated, rhs: next} over a forward iterator")
    rid4 = ctx.rule("R3.4", "within one alt of operator tags no tag is preceded by a proper prefix of itself (`>=` before `>`, `<<` not after `<`)")
    alts = op_alts(fx, ctx, rid1)
    if alts is None:
        return
    seen = {}
    for lvl, (f, ops) in alts.items():
        for tag, var, nocase, ln in ops:
            k = "%s|%s" % (f.path, tag)
            ctx.inst(rid1, k, sample={"tag": tag, "variant": var, "level": lvl} if tag in ("*", "+", ">=") else None)
            want = R["binary"].get(tag)
            if want is None:
                ctx.finding(rid1, k, "operator %r is parsed but not documented" % tag, "%s:%s" % (f.file, ln))
            elif want["variant"] != var:
                ctx.finding(rid1, k, "operator %r is parsed as %s; documented meaning is %s" % (tag, var, want["variant"]), "%s:%s" % (f.file, ln))
            if tag in seen:
                ctx.finding(rid1, k + "|dup", "operator %r is parsed at both precedence levels" % tag, "%s:%s" % (f.file, ln))
            seen[tag] = (lvl, var)
            # precedence class
            if want is not None and want.get("class"):
                ctx.inst(rid3, "%s|class|%s" % (f.path, tag), sample={"tag": tag, "class": lvl})
                if want["class"] != lvl:
                    ctx.finding(rid3, "%s|class|%s" % (f.path, tag), "operator %r must bind %s than `%s`; it is parsed at the %s level" % (
                        tag, "tighter" if want["class"] == "high" else "looser", "+" if want["class"] == "high" else "*", lvl),
                        "%s:%s" % (f.file, ln))
        # R3.4 prefix shadowing
        tags = [t for t, _, _, _ in ops]
        for i, t in enumerate(tags):
            ctx.inst(rid4, "%s|%s" % (f.path, t), nontrivial=len(t) > 1)
            for e in tags[:i]:
                if t != e and t.startswith(e):
                    ctx.finding(rid4, "%s|%s" % (f.path, t), "operator %r can never match: its prefix %r is tried first in the same alt" % (t, e), f.where)
    for tag in R["binary"]:
        if tag not in seen:
            ctx.finding(rid1, "missing|%s" % tag, "documented operator %r is not parsed" % tag)
    ctx.floor(rid1, 16, "operator tags")
    # cross-level prefix: a low-level tag that starts with a high-level tag is fine (term is tried first only after a factor);
    # a high-level tag that is a prefix of a low-level one would steal it: `<` is not high-level. check anyway.
    hi = [t for t, (l, _) in seen.items() if l == "high"]
    lo = [t for t, (l, _) in seen.items() if l == "low"]
    for h in hi:
        for l in lo:
            ctx.inst(rid4, "cross|%s|%s" % (h, l), nontrivial=False)
            if l != h and l.startswith(h):
                ctx.finding(rid4, "cross|%s|%s" % (h, l), "tighter-level operator %r is a prefix of looser-level %r and is tried first" % (h, l))
    # Display inverse
    disp = fx.fn("<%s as core::fmt::Display>::fmt" % BOP)
    if disp is None:
        ctx.fail_closed(rid1, "Display for BinaryOp not found")
    else:
        arms = [n for n in lib.hwalk(disp.hir["body"]) if n.get("k") == "match"]
        got = {}
        if arms:
            for a in arms[0]["arms"]:
                var = lib.pat_key(a["pat"])
                strs = [x.get("v") for x in lib.hwalk(a["body"]) if x.get("k") == "lit" and x.get("lk") in ("str", "bytestr")]
                got[(var or "").rsplit("::", 1)[-1]] = strs
        for tag, w in R["binary"].items():
            k = "%s|%s" % (disp.path, w["variant"])
            ctx.inst(rid1, k)
            s = got.get(w["variant"])
            if not s or not any(tag == x or (isinstance(x, str) and x.strip("\x00").endswith(tag) and len(x) <= len(tag) + 2) for x in s):
                ctx.finding(rid1, k, "Display prints %s as %r, the parser reads it from %r" % (w["variant"], s, tag), disp.where)
    # fold
    fold = fx.fn("mos_core::parser::fold_expressions")
    k = "mos_core::parser::fold_expressions"
    ctx.inst(rid3, k, sample={"fold": "BinaryExpression{lhs: acc, rhs: next}"})
    if fold is None:
        ctx.fail_closed(rid3, "fold_expressions not found")
    else:
        folds = [x for x, p in lib.hir_calls(fold.hir["body"], "Iterator::fold")]
        ok = False
        for x in folds:
            recv = lib.strip(x["recv"])
            fwd = recv.get("k") == "mcall" and lib.pm(recv.get("path"), "IntoIterator::into_iter") and not any(
                lib.pm(p, "Iterator::rev") for _, p in lib.hir_calls(recv))
            clo = lib.strip(x["args"][1])
            if clo.get("k") != "closure" or len(clo["params"]) != 2:
                continue
            acc = clo["params"][0].get("name")
            for s in lib.hwalk(clo["body"]):
                if s.get("k") == "struct" and lib.pm(s["res"].get("path"), "BinaryExpression"):
                    fl = {f_["name"]: lib.hdesc(f_["e"]) for f_ in s["fields"]}
                    lhs_acc = fl.get("lhs") == ("call", "alloc::boxed::Box::new", ("v", acc))
                    rhs_not_acc = ("v", acc) not in fl.get("rhs", ())
                    if fwd and lhs_acc and rhs_not_acc and lib.hpath(x["args"][0]) == fold.hir["params"][0].get("name"):
                        ok = True
        if not ok:
            ctx.finding(rid3, k, "operators of equal precedence no longer associate to the left (fold must build lhs = accumulated, rhs = next, "
                        "starting from the first operand, over a forward iterator)", fold.where)
    for lvl, (f, _) in alts.items():
        ctx.inst(rid3, "%s|uses-fold" % f.path)
        if not any(True for _ in lib.hir_calls(f.hir["body"], "parser::fold_expressions")):
            ctx.finding(rid3, "%s|uses-fold" % f.path, "%s does not combine its operands with fold_expressions" % f.path, f.where)


_CHECKED = {"add": "Add", "sub": "Sub", "mul": "Mul", "div": "Div", "rem": "Rem", "shl": "Shl", "shr": "Shr"}


def _canon(op, l, r):
    if op in lib._FLIP:
        op, l, r = lib._FLIP[op], r, l
    if op in lib._COMM:
        l, r = sorted((l, r), key=repr)
    return (op, l, r)


def core_op(e, subst=None):
    """the operation an evaluator arm performs, in canonical form.  Looks through `Some(…)`, treats `a.checked_op(b)` /
    `a.wrapping_op(b)` as `a op b`, and `conv(rhs).ok().and_then(|s| lhs.checked_shl(s))` as `lhs << rhs`."""
    subst = subst or {}
    e = lib.strip(e)
    if not isinstance(e, dict):
        return ("?",)
    if e.get("k") == "call" and lib.pm(lib.hcallee(e), "Option::Some") and len(e["args"]) == 1:
        return core_op(e["args"][0], subst)
    if e.get("k") == "mcall":
        nm = e.get("name", "")
        for pre in ("checked_", "wrapping_"):
            if nm.startswith(pre) and nm[len(pre):] in _CHECKED and len(e["args"]) == 1 and \
                    (e.get("path") or "").startswith("core::num::<impl i64>::"):
                return _canon(_CHECKED[nm[len(pre):]], _sub(lib.hdesc(e["recv"]), subst), _sub(lib.hdesc(e["args"][0]), subst))
        if nm in ("and_then", "map") and len(e["args"]) == 1 and lib.strip(e["args"][0]).get("k") == "closure":
            clo = lib.strip(e["args"][0])
            if len(clo["params"]) == 1 and clo["params"][0].get("k") == "bind":
                srcs = {lib.hpath(x) for x in lib.hwalk(e["recv"]) if x.get("k") == "path" and (x.get("res") or {}).get("dk") == "Local"}
                convs = [lib.norm(p) for _, p in lib.hir_calls(e["recv"]) if p]
                if len(srcs) == 1 and all(c.endswith("TryFrom::try_from") or c.endswith("Result::ok") for c in convs):
                    s2 = dict(subst)
                    s2[clo["params"][0]["name"]] = list(srcs)[0]
                    return core_op(clo["body"], s2)
    return _sub(lib.hdesc(e), subst)


def _sub(d, subst):
    if not subst or not isinstance(d, tuple):
        return d
    if d[0] == "v" and d[1] in subst:
        return ("v", subst[d[1]])
    return tuple(_sub(x, subst) if isinstance(x, tuple) else x for x in d)


def r32(ctx, fx, R):
    rid = ctx.rule("R3.2", "evaluator: BinaryOp::apply_i64 performs for every variant the documented operation with operands (lhs, rhs) in order "
                   "(comparisons and &&/|| as bool→i64, i.e. 0 or 1); string + concatenates lhs then rhs, ==/!= compare; evaluate_expression passes the "
                   "value of bin.lhs as first and of bin.rhs as second argument")
    f = None
    for g in fx.all_fns("mos_core"):
        if g.d.get("impl_self") == BOP and g.ret_ty in ("i64", "core::option::Option<i64>") and g.argc == 3:
            f = g
    if f is None:
        ctx.fail_closed(rid, "BinaryOp::apply_i64 (fn(&BinaryOp, i64, i64) -> i64) not found")
        return
    pn = [p.get("name") for p in f.hir["params"]]
    names = {"lhs": pn[1], "rhs": pn[2]}
    m = [n for n in lib.hwalk(f.hir["body"]) if n.get("k") == "match"]
    if not m:
        ctx.fail_closed(rid, "apply_i64 is not a match on the operator")
        return
    byvar = {}
    for a in m[0]["arms"]:
        for v in lib.pat_variants(a["pat"]):
            byvar[(v or "").rsplit("::", 1)[-1] if isinstance(v, str) else v] = a
    for tag, w in R["binary"].items():
        k = "%s|%s" % (f.path, w["variant"])
        a = byvar.get(w["variant"])
        want = lib.refdesc(w["sem"], names)
        if a is None:
            ctx.inst(rid, k)
            ctx.finding(rid, k, "no evaluator arm for %s" % w["variant"], f.where)
            continue
        body = lib.strip(a["body"])
        # division / modulo guard: match rhs { 0 => 0, _ => lhs / rhs }  — accept the guarded form
        got = None
        if body.get("k") == "match" and lib.hpath(body["scrut"]) == names["rhs"]:
            for ia in body["arms"]:
                if ia["pat"].get("k") == "wild":
                    got = core_op(ia["body"])
        else:
            got = core_op(body)
        ctx.inst(rid, k, sample={"op": tag, "evaluator": str(got)} if tag in ("-", "<=", "&&") else None)
        if got != want:
            ctx.finding(rid, k, "operator %r (%s) evaluates as %s; documented semantics is %s" % (tag, w["variant"], got, want),
                        "%s:%s" % (f.file, a.get("ln")))
    ctx.floor(rid, 16, "evaluator arms")
    # string ops
    sf = None
    for g in fx.all_fns("mos_core"):
        if g.d.get("impl_self") == BOP and "SymbolData" in g.ret_ty and g.argc == 3:
            sf = g
    if sf is None:
        ctx.fail_closed(rid, "BinaryOp::try_apply_str not found")
    else:
        pn = [p.get("name") for p in sf.hir["params"]]
        m = [n for n in lib.hwalk(sf.hir["body"]) if n.get("k") == "match"]
        arms = {}
        for a in (m[0]["arms"] if m else []):
            for v in lib.pat_variants(a["pat"]):
                if isinstance(v, str):
                    arms[v.rsplit("::", 1)[-1]] = a
        for var in ("Add", "Eq", "Ne"):
            k = "%s|%s" % (sf.path, var)
            ctx.inst(rid, k)
            a = arms.get(var)
            if a is None:
                ctx.finding(rid, k, "string operator %s missing" % var, sf.where)
                continue
            bins = [x for x in lib.hwalk(a["body"]) if x.get("k") == "binary"]
            ok = False
            for b in bins:
                if b["op"] == var:
                    lnames = [lib.hpath(x) for x in lib.hwalk(b["l"]) if x.get("k") == "path"]
                    rnames = [lib.hpath(x) for x in lib.hwalk(b["r"]) if x.get("k") == "path"]
                    if var == "Add":
                        ok = pn[1] in lnames and pn[2] in rnames
                    else:
                        ok = {pn[1], pn[2]} <= set(lnames + rnames)
            if not ok:
                ctx.finding(rid, k, "string operator %s does not compute lhs %s rhs" % (var, {"Add": "+", "Eq": "==", "Ne": "!="}[var]),
                            "%s:%s" % (sf.file, a.get("ln")))
        extra = sorted(set(arms) - {"Add", "Eq", "Ne", "_"})
        if extra:
            ctx.finding(rid, "%s|extra" % sf.path, "undocumented string operators: %s" % extra, sf.where)
    # evaluate_expression: lhs first
    ev = fx.fn("mos_core::codegen::evaluator::Evaluator::<'a>::evaluate_expression")
    k = "evaluate_expression|operand-order"
    ctx.inst(rid, k)
    if ev is None:
        ctx.fail_closed(rid, "Evaluator::evaluate_expression not found")
        return
    lets = {}
    for n in lib.hwalk(ev.hir["body"]):
        if n.get("k") == "let" and n["pat"].get("k") == "bind" and "init" in n:
            fields = [x["name"] for x in lib.hwalk(n["init"]) if x.get("k") == "field"]
            lets.setdefault(n["pat"]["name"], fields)
    ok = False
    for n in lib.hwalk(ev.hir["body"]):
        if n.get("k") == "match" and lib.strip(n["scrut"]).get("k") == "tup":
            es = [lib.hpath(e) for e in lib.strip(n["scrut"])["es"]]
            if len(es) == 2 and "lhs" in lets.get(es[0], []) and "rhs" in lets.get(es[1], []):
                # arm (Some(Number(a)), Some(Number(b))) => apply_i64(a, b)
                for a in n["arms"]:
                    binds = [q["name"] for q in lib.hwalk(a["pat"]) if q.get("k") == "bind"]
                    for x, p in lib.hir_calls(a["body"]):
                        if p and (p == f.path or (sf is not None and p == sf.path)):
                            args = [lib.hpath(z) for z in lib.hargs(x)[1:]]
                            if args == binds[:2]:
                                ok = True
                            else:
                                ok = False
                                ctx.finding(rid, k, "operands are handed to %s in the order %s, bound as %s" % (p.rsplit("::", 1)[1], args, binds),
                                            "%s:%s" % (ev.file, x.get("ln")))
    if not ok:
        ctx.finding(rid, k + "|shape", "evaluate_expression does not evaluate (bin.lhs, bin.rhs) and apply the operator to them in that order", ev.where)


def r36(ctx, fx, R):
    rid = ctx.rule("R3.6", "the value of a binary expression is what the operator table returns: in the BinaryExpression arm of evaluate_expression no `Ok(..)` carries "
                   "the value of an operand (lhs / rhs or a part of them) that did not pass through BinaryOp::apply_i64 / try_apply_str — e.g. a short-circuit that "
                   "hands back the left operand makes `4 || 0` evaluate to 4")
    ev = fx.fn("mos_core::codegen::evaluator::Evaluator::<'a>::evaluate_expression")
    if ev is None:
        ctx.fail_closed(rid, "Evaluator::evaluate_expression not found")
        return
    arm = None
    for n in lib.hwalk(ev.hir["body"]):
        if n.get("k") == "match":
            for a in n["arms"]:
                pk = lib.pat_key(a["pat"])
                if isinstance(pk, str) and pk.split("(")[0].endswith("Expression::BinaryExpression"):
                    arm = a
            if arm:
                break
    if arm is None:
        ctx.fail_closed(rid, "BinaryExpression arm not found")
        return
    APPLY = ("BinaryOp::apply_i64", "BinaryOp::try_apply_str")

    def has_apply(e):
        return any(True for x, p in lib.hir_calls(e) if p and "BinaryOp" in p and p.endswith(("::apply_i64", "::try_apply_str")))

    def locals_of(e):
        return {lib.hpath(x) for x in lib.hwalk(e) if x.get("k") == "path" and (x.get("res") or {}).get("dk") == "Local"}

    def binds(pat):
        return {q["name"] for q in lib.hwalk(pat) if q.get("k") == "bind"}
    operand = set()
    result = set()
    # fixpoint over lets / matches / if-lets in source order (shadowing inside the number arm keeps the names operand names, which is what we want)
    for _ in range(3):
        for n in lib.hwalk(arm["body"]):
            if n.get("k") == "let" and "init" in n:
                if has_apply(n["init"]):
                    result |= binds(n["pat"])
                elif any(True for x, p in lib.hir_calls(n["init"], "Evaluator::evaluate_expression")) or (locals_of(n["init"]) & operand):
                    operand |= binds(n["pat"])
            if n.get("k") == "match":
                if has_apply(n["scrut"]):
                    for a in n["arms"]:
                        result |= binds(a["pat"])
                elif locals_of(n["scrut"]) & operand:
                    for a in n["arms"]:
                        operand |= binds(a["pat"])
            if n.get("k") == "iflet" or (n.get("k") == "if" and lib.strip(n.get("cond", {})).get("k") == "let"):
                c = lib.strip(n.get("cond", {}))
                if c.get("k") == "let" and "init" in c:
                    if has_apply(c["init"]):
                        result |= binds(c["pat"])
                    elif locals_of(c["init"]) & operand:
                        operand |= binds(c["pat"])
    operand -= result
    oks = [x for x, p in lib.hir_calls(arm["body"]) if p and lib.pm(p, "Result::Ok")]
    ctx.inst(rid, "evaluate_expression|binary-value", sample={"ok_sites": len(oks), "operand_names": sorted(operand), "operator_results": sorted(result)})
    if not oks or not result:
        ctx.fail_closed(rid, "no Ok(..) site or no operator application found in the BinaryExpression arm")
        return
    bad = 0
    for x in oks:
        arg = lib.hargs(x)[0]
        used = locals_of(arg)
        if used & operand and not has_apply(arg):
            bad += 1
            ctx.finding(rid, "evaluate_expression|binary-value|operand-returned#%d" % bad,
                        "a binary expression can evaluate to the value of its operand `%s` without the operator having been applied (comparisons and &&/|| must "
                        "yield 0 or 1; every operator must go through the operator table)" % sorted(used & operand)[0], "%s:%s" % (ev.file, x.get("ln")))


def r37(ctx, fx, R):
    rid = ctx.rule("R3.7", "the `<` / `>` modifier is applied at the occurrence: in the IdentifierValue arm of evaluate_expression_factor every value handed back "
                   "(`Ok(..)` / `return`, other than a literal None) is computed from the `match` on this occurrence's modifier, directly or through locals "
                   "bound to it — a value remembered from another occurrence of the same name (a cache keyed by the path alone) makes `>name` evaluate to "
                   "the low byte after `<name` was seen")
    ef = fx.fn("mos_core::codegen::evaluator::Evaluator::<'a>::evaluate_expression_factor")
    if ef is None or not ef.d.get("hir"):
        ctx.fail_closed(rid, "evaluate_expression_factor not found")
        return
    arm = None
    for n in lib.hwalk(ef.hir["body"]):
        if n.get("k") == "match":
            for a in n["arms"]:
                pk = lib.pat_key(a["pat"])
                if isinstance(pk, str) and pk.split("(")[0].endswith("ExpressionFactor::IdentifierValue"):
                    arm = a
            if arm:
                break
    if arm is None:
        ctx.fail_closed(rid, "IdentifierValue arm not found")
        return

    def applies_modifier(e):
        return any(n.get("k") == "match" and any("AddressModifier::" in str(lib.pat_key(a["pat"])) for a in n["arms"]) for n in lib.hwalk(e))

    def locals_of(e):
        return {lib.hpath(x) for x in lib.hwalk(e) if x.get("k") == "path" and (x.get("res") or {}).get("dk") == "Local"}
    if not applies_modifier(arm["body"]):
        ctx.fail_closed(rid, "no match on AddressModifier in the IdentifierValue arm")
        return
    # bindings of the arm in source order; a use refers to the nearest binding of its name at or above its line (the dump names locals, it does not number them)
    binds = []          # [name, line, init expression, carries the modified value]
    for n in lib.hwalk(arm["body"]):
        if n.get("k") in ("let", "letx") and "init" in n:
            for q in lib.hwalk(n["pat"]):
                if q.get("k") == "bind":
                    binds.append([q["name"], q.get("ln") or 0, n["init"], False])
        elif n.get("k") == "match" and n.get("src") != "ForLoopDesugar":
            for a in n["arms"]:
                for q in lib.hwalk(a["pat"]):
                    if q.get("k") == "bind":
                        binds.append([q["name"], q.get("ln") or 0, n["scrut"], False])

    def binding(name, line, own=None):
        # a name used in its own initialiser (`let value = value;`) is the binding before
        c = [b for b in binds if b[0] == name and b[1] <= (line or 10 ** 9) and b is not own]
        return max(c, key=lambda b: b[1]) if c else None

    def carries(e, own=None):
        if applies_modifier(e):
            return True
        for x in lib.hwalk(e):
            if x.get("k") == "path" and (x.get("res") or {}).get("dk") == "Local":
                b = binding(x["res"].get("name"), x.get("ln"), own)
                if b is not None and b[3]:
                    return True
        return False
    for _ in range(3):
        for b in binds:
            if not b[3] and carries(b[2], b):
                b[3] = True
    good = {b[0] for b in binds if b[3]}
    sites = []
    for n in lib.hwalk(arm["body"]):
        if n.get("k") == "ret" and n.get("a") is not None:
            sites.append(n["a"])
    # the value of the arm itself
    tail = arm["body"]
    while isinstance(tail, dict) and tail.get("k") == "block" and tail.get("expr") is not None:
        tail = tail["expr"]
    sites.append(tail)
    key = "evaluate_expression_factor|IdentifierValue|modifier-applied"
    ctx.inst(rid, key, sample={"value_sites": len(sites), "locals_carrying_the_modified_value": sorted(good)})
    bad = 0
    for e in sites:
        inner = lib.strip(e)
        # Ok(x) → x ; a literal None carries no value
        if inner.get("k") == "call" and lib.pm(lib.hcallee(inner) or "", "Result::Ok"):
            inner = lib.strip(lib.hargs(inner)[0])
        if lib.hpath(inner) and str(lib.hpath(inner)).endswith("Option::None"):
            continue
        if inner.get("k") == "call" and lib.pm(lib.hcallee(inner) or "", "Result::Err"):
            continue
        if carries(inner):
            continue
        bad += 1
        ctx.finding(rid, "%s#%d" % (key, bad), "an identifier's value is handed back without the modifier of this occurrence having been applied (%s): "
                    "`<name` and `>name` of one name no longer select different bytes" % (repr(lib.hdesc(inner))[:120]), "%s:%s" % (ef.file, e.get("ln")))


def r38(ctx, fx, R):
    rid = ctx.rule("R3.8", "operand starts are not taken for names (regression guards): the literals `true` / `false` end at a word boundary — the tag is followed by "
                   "not(<identifier character>), so `truex` or `FalseColor` are identifiers; and the scope label `-` / `+` is not recognised in front of `(`, `$` "
                   "or `\"`, where the `-` can only be the sign of the operand that follows (`-(3)`, `-$10`); the encoding names of `.text` end at a word boundary too")
    nf = fx.fn("mos_core::parser::number")
    sf = fx.fn("mos_core::parser::identifier_scope")
    if nf is None or sf is None:
        ctx.fail_closed(rid, "parser::number / parser::identifier_scope not found")
        return

    def expanded(t, depth=0):
        """terminal descriptions below t, following non-terminals"""
        out = []
        for x in grammar.walk(t):
            if x[0] == "nt" and depth < 4:
                g = fx.fn(x[1])
                if g is not None:
                    out += expanded(grammar.fn_grammar(g), depth + 1)
            elif x[0] in ("prim", "tag", "char", "lit"):
                out.append(str(x[1]))
        return out
    g = grammar.fn_grammar(nf)
    words = 0
    for t in grammar.walk(g):
        if t[0] == "call" and str(t[1]).endswith("sequence::terminated") and len(t[2]) == 2 and t[2][0][0] == "tag" and str(t[2][0][1]).lower() in ("true", "false"):
            words += 1
            k = "number|%s|word-boundary" % t[2][0][1]
            follow = expanded(t[2][1]) if t[2][1][0] == "not" else []
            ok = any(a.startswith("alphanumeric") for a in follow) and "_" in follow
            ctx.inst(rid, k, sample={"literal": t[2][0][1], "not_followed_by": follow})
            if not ok:
                ctx.finding(rid, k, "the literal `%s` is not required to end at a word boundary" % t[2][0][1], nf.where)
    bare = [t for t in grammar.walk(g) if t[0] == "tag" and str(t[1]).lower() in ("true", "false")]
    if len(bare) > words:
        k = "number|true-false|word-boundary"
        ctx.inst(rid, k)
        ctx.finding(rid, k, "`true` / `false` are recognised as a prefix of a longer word: an identifier that starts with them (`truex`, `FalseColor`) cannot be used "
                    "in an expression (`unexpected 'x'`)", nf.where)
    elif not bare:
        ctx.fail_closed(rid, "the literals true / false were not found in parser::number")
    # the names of the encodings of `.text`: an identifier may start with one (`.text petsciiname`)
    tf = fx.fn("mos_core::parser::text")
    if tf is None:
        ctx.fail_closed(rid, "parser::text not found")
    else:
        gt = grammar.fn_grammar(tf)
        guarded = set()
        for t in grammar.walk(gt):
            if t[0] == "call" and str(t[1]).endswith("sequence::terminated") and len(t[2]) == 2 and t[2][0][0] == "tag" and t[2][1][0] == "not":
                follow = expanded(t[2][1])
                if any(a.startswith("alphanumeric") for a in follow) and "_" in follow:
                    guarded.add(str(t[2][0][1]).lower())
        for enc_name in sorted(R["encodings"]):
            kk = "text|%s|word-boundary" % enc_name
            ctx.inst(rid, kk, sample={"encoding": enc_name, "ends_at_a_word_boundary": enc_name in guarded})
            if enc_name not in guarded:
                ctx.finding(rid, kk, "the encoding name `%s` of `.text` is recognised as the start of a longer word: `.text %sname` is read as the encoding followed "
                            "by the identifier `name` — silently another string, or `unknown identifier`" % (enc_name, enc_name), tf.where)
    g = grammar.fn_grammar(sf)
    k = "identifier_scope|not-before-operand"
    nots = [t for t in grammar.walk(g) if t[0] == "not"]
    follow = [a for t in nots for a in expanded(t)]
    chars = "".join(a for a in follow if not a.startswith("alpha"))
    ctx.inst(rid, k, sample={"not_followed_by": follow})
    if not nots:
        ctx.fail_closed(rid, "identifier_scope has no negative lookahead")
    elif not all(c in chars for c in "($"):
        ctx.finding(rid, k, "the scope label `-` is recognised in front of `(` or `$`: `-(3)`, `-$10`, `5 - -(x)` are rejected (`unexpected '(3'`) although unary "
                    "minus is documented for every operand", sf.where)


def r35(ctx, fx, R):
    rid = ctx.rule("R3.5", "`<`→LowByte→val & 255, `>`→HighByte→(val >> 8) & 255; `!`→NOT (0→1, else 0), `-`→NEG (negate); `$`→Hex→16, `%`→Bin→2, none→Dec→10; "
                   "true→1, false→0; .byte/.word/.dword ↔ Byte/Word/Dword ↔ u8/u16/u32 little-endian; ascii/petscii/petscreen ↔ encoder arms, default ascii; "
                   "defined(x) is 1 iff x evaluates")
    # --- address modifiers: parser
    iv = fx.fn("mos_core::parser::identifier_value")
    if iv is None:
        ctx.fail_closed(rid, "parser::identifier_value not found")
    else:
        pairs = {}
        for n in lib.hwalk(iv.hir["body"]):
            if n.get("k") == "match":
                for a in n["arms"]:
                    if a["pat"].get("k") == "lit" and a["pat"].get("lk") == "char":
                        pairs[a["pat"]["v"]] = (lib.hpath(a["body"]) or "").rsplit("::", 1)[-1]
        for ch, w in R["modifiers"].items():
            k = "%s|%s" % (iv.path, ch)
            ctx.inst(rid, k, sample={"modifier": ch, "variant": pairs.get(ch)})
            if pairs.get(ch) != w["variant"]:
                ctx.finding(rid, k, "modifier %r is parsed as %s, documented: %s" % (ch, pairs.get(ch), w["variant"]), iv.where)
    # --- evaluator for modifiers
    ef = fx.fn("mos_core::codegen::evaluator::Evaluator::<'a>::evaluate_expression_factor")
    if ef is None:
        ctx.fail_closed(rid, "evaluate_expression_factor not found")
    else:
        got = {}
        for n in lib.hwalk(ef.hir["body"]):
            if n.get("k") == "match":
                for a in n["arms"]:
                    pk = lib.pat_key(a["pat"])
                    if isinstance(pk, str) and "AddressModifier::" in pk:
                        got[pk.split("AddressModifier::")[1].rstrip(")")] = lib.hdesc(a["body"])
        # find the value binding name: the arm pattern SymbolData::Number(val)
        for ch, w in R["modifiers"].items():
            k = "%s|%s" % (ef.path, w["variant"])
            g = got.get(w["variant"])
            names = {}
            if g is not None:
                vs = {x[1] for x in _flat(g) if isinstance(x, tuple) and x and x[0] == "v"}
                if len(vs) == 1:
                    names["val"] = list(vs)[0]
            want = lib.refdesc(w["sem"], names)
            ctx.inst(rid, k, sample={"modifier": ch, "evaluator": str(g)})
            if g != want:
                ctx.finding(rid, k, "modifier %r evaluates as %s, documented: %s" % (ch, g, want), ef.where)
        # number literal → Number::value
        ctx.inst(rid, "%s|number" % ef.path)
        if not any(True for _ in lib.hir_calls(ef.hir["body"], "Number::value")) and \
                not any(True for _ in lib.hir_calls(ef.hir["body"], "Number::try_value")):
            ctx.finding(rid, "%s|number" % ef.path, "number literals are not evaluated through Number::value", ef.where)
    # --- prefix flags: parser and evaluator
    pf = fx.fn("mos_core::parser::expression_factor")
    if pf is None:
        ctx.fail_closed(rid, "parser::expression_factor not found")
    else:
        g = grammar.fn_grammar(pf)
        chars = []
        for t in grammar.walk(g):
            if t[0] == "seq":
                chars = [grammar.strip_trivia(grammar.strip_trivia(e)[1])[1] if grammar.strip_trivia(e)[0] == "opt" and
                         grammar.strip_trivia(grammar.strip_trivia(e)[1])[0] == "char" else None for e in t[1]]
                if chars[:2] == ["!", "-"]:
                    break
        k = "%s|prefix" % pf.path
        ctx.inst(rid, k, sample={"prefix_chars": chars[:2]})
        if chars[:2] != ["!", "-"]:
            ctx.finding(rid, k, "prefix modifiers are not `!` then `-`", pf.where)
        # closure: tag_not → NOT, tag_neg → NEG
        sets = []
        for n in lib.hwalk(pf.hir["body"]):
            if n.get("k") == "if":
                c = lib.strip(n["cond"])
                if c.get("k") == "mcall" and c.get("name") == "is_some":
                    who = lib.hpath(c["recv"])
                    for x, p in lib.hir_calls(n["then"]):
                        if x.get("k") == "mcall" and x.get("name") == "set":
                            flag = (lib.hpath(x["args"][0]) or "").rsplit("::", 1)[-1]
                            sets.append((who, flag, lib.hlit(x["args"][1])))
        # which closure parameter is which: positional
        ctx.inst(rid, "%s|flags" % pf.path, sample={"sets": sets})
        want_sets = {("tag_not", "NOT", True), ("tag_neg", "NEG", True)}
        # resolve param names positionally from the closure taking the 3-tuple
        pn = None
        for n in lib.hwalk(pf.hir["body"]):
            if n.get("k") == "closure" and n.get("params") and n["params"][0].get("k") == "tuple" and len(n["params"][0]["pats"]) == 3:
                pn = [q.get("name") for q in n["params"][0]["pats"]]
        if pn is None:
            ctx.fail_closed(rid, "prefix-flag closure not recognised")
        else:
            got_sets = {("tag_not" if w == pn[0] else "tag_neg" if w == pn[1] else w, fl, v) for w, fl, v in sets}
            if got_sets != want_sets:
                ctx.finding(rid, "%s|flags" % pf.path, "`!` must set NOT and `-` must set NEG; got %s" % sorted(got_sets), pf.where)
    ev = fx.fn("mos_core::codegen::evaluator::Evaluator::<'a>::evaluate_expression")
    if ev is not None:
        nots, negs = [], []
        for n in lib.hwalk(ev.hir["body"]):
            if n.get("k") == "if":
                c = lib.strip(n["cond"])
                if c.get("k") == "mcall" and c.get("name") == "contains":
                    fl = (lib.hpath(c["args"][0]) or "").rsplit("::", 1)[-1]
                    if fl == "NOT":
                        nots.append(n)
                    if fl == "NEG":
                        negs.append(n)
        k = "%s|NOT" % ev.path
        ctx.inst(rid, k)
        ok = False
        for n in nots:
            for i in lib.hwalk(n["then"]):
                if i.get("k") == "if":
                    c = lib.hdesc(i["cond"])
                    if c[0] == "Eq" and ("c", 0) in c:
                        t = [lib.hlit(x["r"]) for x in lib.hwalk(i["then"]) if x.get("k") == "assign"]
                        e = [lib.hlit(x["r"]) for x in lib.hwalk(i.get("else", {})) if x.get("k") == "assign"]
                        ok = t == [1] and e == [0]
        if not ok:
            ctx.finding(rid, k, "`!x` must be 1 for x == 0 and 0 otherwise", ev.where)
        k = "%s|NEG" % ev.path
        ctx.inst(rid, k)
        ok = False
        for n in negs:
            for x in lib.hwalk(n["then"]):
                if x.get("k") == "assign" and lib.strip(x["r"]).get("k") == "unary" and lib.strip(x["r"])["op"] == "Neg" and \
                        lib.hpath(x["l"]) == lib.hpath(lib.strip(x["r"])["a"]):
                    ok = True
                # number = number.checked_neg().ok_or_else(…)?
                if x.get("k") == "assign":
                    tgt = lib.hpath(x["l"])
                    for y in lib.hwalk(x["r"]):
                        if y.get("k") == "mcall" and y.get("name") in ("checked_neg", "wrapping_neg") and lib.hpath(y["recv"]) == tgt:
                            ok = True
        if not ok:
            ctx.finding(rid, k, "unary `-` must negate the factor's value", ev.where)
        # order: the grammar is `!` `-` factor (checked below), so `!-x` is !(-x): the negation — the inner operator — is applied first
        ctx.inst(rid, "%s|order" % ev.path)
        if nots and negs and nots[0].get("ln", 0) < negs[0].get("ln", 0):
            ctx.finding(rid, "%s|order" % ev.path, "`!-x` is written `!` `-` x, so it means !(-x): the negation must be applied before the logical not "
                        "(otherwise `!-0` evaluates to -1 instead of 1)", ev.where)
    # --- radix
    nf = fx.fn("mos_core::parser::number")
    ft = fx.fn("mos_core::parser::ast::Number::from_type")
    # by role: the Number method that calls from_str_radix
    nv = None
    for cand in fx.all_fns("mos_core"):
        if cand.d.get("impl_self") == "mos_core::parser::ast::Number" and cand.d.get("hir") and \
                any(True for _ in lib.hir_calls(cand.hir["body"], "from_str_radix")):
            nv = cand
    if not (nf and ft and nv):
        ctx.fail_closed(rid, "number parser / Number::from_type / Number::value not found")
    else:
        g = grammar.fn_grammar(nf)
        alts = None
        for t in grammar.walk(g):
            if t[0] == "alt":
                alts = t[1]
                break
        parsed = {}
        digits = {}
        for a in alts or []:
            if a[0] != "seq" or len(a[1]) != 2:
                continue
            first, second = a[1]
            pfx = ""
            var = None
            if first[0] == "map":
                inner = grammar.strip_trivia(first[1])
                if inner[0] == "char":
                    pfx = inner[1]
                for x in lib.hwalk(first[2]):
                    if x.get("k") == "path" and "NumberType::" in (x.get("res", {}).get("path") or ""):
                        var = x["res"]["path"].rsplit("::", 1)[1]
            else:
                for t in grammar.walk(first):
                    if t[0] == "value":
                        var = (lib.hpath(t[1]) or "").rsplit("::", 1)[-1]
            body = grammar.strip_trivia(second)
            dg = None
            for t in grammar.walk(second):
                if t[0] == "isa":
                    dg = t[1]
                if t[0] == "prim":
                    dg = t[1]
                if t[0] == "tag":
                    dg = "lit:" + str(t[1])
            parsed.setdefault(pfx, []).append((var, dg))
        for pfx, w in R["radix"].items():
            k = "%s|%s" % (nf.path, pfx or "dec")
            ctx.inst(rid, k, sample={"prefix": pfx, "parsed": parsed.get(pfx)})
            vs = {v for v, _ in parsed.get(pfx, [])}
            if vs != {w["variant"]}:
                ctx.finding(rid, k, "number prefix %r yields %s, documented %s" % (pfx, sorted(vs), w["variant"]), nf.where)
        want_digits = {"$": {"hex_digit1"}, "%": {"01"}, "": {"0123456789", "lit:true", "lit:false"}}
        for pfx, wd in want_digits.items():
            k = "%s|digits|%s" % (nf.path, pfx or "dec")
            ctx.inst(rid, k)
            gd = {d for _, d in parsed.get(pfx, [])}
            if gd != wd:
                ctx.finding(rid, k, "digits accepted after %r are %s, expected %s" % (pfx, sorted(gd), sorted(wd)), nf.where)
        # from_type radix table
        m = [n for n in lib.hwalk(ft.hir["body"]) if n.get("k") == "match"]
        tab = {}
        for a in (m[0]["arms"] if m else []):
            tab[(lib.pat_key(a["pat"]) or "").rsplit("::", 1)[-1]] = lib.hlit(a["body"])
        for pfx, w in R["radix"].items():
            k = "%s|%s" % (ft.path, w["variant"])
            ctx.inst(rid, k, sample={"variant": w["variant"], "radix": tab.get(w["variant"])})
            if tab.get(w["variant"]) != w["radix"]:
                ctx.finding(rid, k, "%s literals are converted with radix %s, must be %s" % (w["variant"], tab.get(w["variant"]), w["radix"]), ft.where)
        # value(): from_str_radix(data, radix); true→1 false→0
        k = "%s|radix-use" % nv.path
        ctx.inst(rid, k)
        ok = False
        for x, p in lib.hir_calls(nv.hir["body"], "from_str_radix"):
            d = [lib.hdesc(a) for a in x["args"]]
            if len(d) == 2 and d[0][:2] == ("f", "data") and d[1][:2] == ("f", "radix"):
                ok = True
        if not ok:
            ctx.finding(rid, k, "Number::value must convert the literal's text with the literal's radix", nv.where)
        m = [n for n in lib.hwalk(nv.hir["body"]) if n.get("k") == "match"]
        bl = {}
        for a in (m[0]["arms"] if m else []):
            if a["pat"].get("k") == "lit":
                bl[a["pat"]["v"]] = lib.hlit(a["body"])
        # if data.eq_ignore_ascii_case("true") { Some(1) } …
        for n in lib.hwalk(nv.hir["body"]):
            if n.get("k") == "if":
                c = lib.strip(n["cond"])
                if c.get("k") == "mcall" and c.get("name") in ("eq_ignore_ascii_case", "eq") and isinstance(lib.hlit(c["args"][0]), str):
                    vals = [x.get("v") for x in lib.hwalk(lib.strip(n["then"])) if x.get("k") == "lit" and x.get("lk") == "int"]
                    if len(vals) == 1:
                        bl[lib.hlit(c["args"][0])] = vals[0]
        for lit, val in R["bool_literals"].items():
            k = "%s|%s" % (nv.path, lit)
            ctx.inst(rid, k)
            if bl.get(lit) != val:
                ctx.finding(rid, k, "`%s` must evaluate to %d" % (lit, val), nv.where)
    # --- data sizes
    df = fx.fn("mos_core::parser::data")
    et = fx.fn("mos_core::codegen::CodegenContext::emit_token")
    if not (df and et):
        ctx.fail_closed(rid, "parser::data / emit_token not found")
    else:
        g = grammar.fn_grammar(df)
        got = {}
        for t in grammar.walk(g):
            if t[0] == "map" and grammar.strip_trivia(t[1])[0] == "tag" and isinstance(t[2], dict):
                for x in lib.hwalk(t[2]):
                    if x.get("k") == "path" and "DataSize::" in (x.get("res", {}).get("path") or ""):
                        got[grammar.strip_trivia(t[1])[1]] = x["res"]["path"].rsplit("::", 1)[1]
        emit = {}
        for n in lib.hwalk(et.hir["body"]):
            if n.get("k") == "match":
                for a in n["arms"]:
                    pk = lib.pat_key(a["pat"])
                    if isinstance(pk, str) and "DataSize::" in pk:
                        casts = [x.get("ty") for x in lib.hwalk(a["body"]) if x.get("k") == "cast"]
                        le = [lib.norm(p) for _, p in lib.hir_calls(a["body"]) if p and "to_" in p and "_bytes" in p]
                        emit[pk.rsplit("::", 1)[1]] = (casts, le)
        for tag, w in R["data"].items():
            k = "%s|%s" % (df.path, tag)
            ctx.inst(rid, k, sample={"directive": tag, "variant": got.get(tag), "emit": emit.get(w["variant"])})
            if got.get(tag) != w["variant"]:
                ctx.finding(rid, k, "%s is parsed as %s" % (tag, got.get(tag)), df.where)
            e = emit.get(w["variant"])
            good = e is not None and e[0] == [w["cast"]] and (w["bytes"] == 1 or (len(e[1]) == 1 and e[1][0].endswith("::to_le_bytes")))
            if not good:
                ctx.finding(rid, k + "|emit", "%s must store the low %d bits little-endian (cast %s, to_le_bytes); emitter does %s" % (
                    tag, 8 * w["bytes"], w["cast"], e), et.where)
    # --- encodings
    tf = fx.fn("mos_core::parser::text")
    enc = fx.fn("mos_core::codegen::text_encoding::encode_text")
    if not (tf and enc and et):
        ctx.fail_closed(rid, "parser::text / encode_text not found")
    else:
        g = grammar.fn_grammar(tf)
        got = {}
        for t in grammar.walk(g):
            if t[0] == "map" and grammar.unlook(t[1])[0] == "tag" and isinstance(t[2], dict):
                tg = grammar.unlook(t[1])
                got[tg[1]] = ((lib.hpath(t[2].get("body", {})) or "").rsplit("::", 1)[-1], tg[2])
        m = [n for n in lib.hwalk(enc.hir["body"]) if n.get("k") == "match"]
        earms = {}
        for a in (m[0]["arms"] if m else []):
            for v in lib.pat_variants(a["pat"]):
                if isinstance(v, str):
                    calls = [lib.norm(p) for _, p in lib.hir_calls(a["body"]) if p]
                    earms[v.rsplit("::", 1)[-1]] = calls
        for tag, var in R["encodings"].items():
            k = "%s|%s" % (tf.path, tag)
            ctx.inst(rid, k, sample={"encoding": tag, "variant": got.get(tag), "encoder": (earms.get(var) or [])[:3]})
            if got.get(tag, (None,))[0] != var:
                ctx.finding(rid, k, "encoding keyword %r yields %s" % (tag, got.get(tag)), tf.where)
            calls = earms.get(var)
            if calls is None:
                ctx.finding(rid, k + "|encoder", "no encoder arm for %s" % var, enc.where)
            else:
                uses_pet = any("Petscii" in c for c in calls)
                maps = any(c.endswith("Iterator::map") for c in calls)
                want = {"Ascii": (False, False), "Petscii": (True, False), "Petscreen": (True, True)}[var]
                if (uses_pet, maps) != want:
                    ctx.finding(rid, k + "|encoder", "encoder arm of %s has the wrong shape (petscii conversion: %s, screen-code mapping: %s)" % (
                        var, uses_pet, maps), enc.where)
        # default
        k = "%s|default-encoding" % et.path
        ctx.inst(rid, k)
        dflt = None
        for x, p in lib.hir_calls(et.hir["body"], "Option::unwrap_or"):
            a = lib.hpath(x["args"][0]) or ""
            if "TextEncoding::" in a:
                dflt = a.rsplit("::", 1)[1]
        if dflt != R["default_encoding"]:
            ctx.finding(rid, k, "the default text encoding is %s, documented: ascii" % dflt, et.where)
    # --- defined()
    dfn = [f for f in fx.all_fns("mos_core") if f.path.endswith("DefinedFn as mos_core::codegen::evaluator::FunctionCallback>::apply")]
    reg = fx.fn("mos_core::codegen::CodegenContext::register_default_fns")
    k = "defined()"
    ctx.inst(rid, k)
    if len(dfn) != 1 or reg is None:
        ctx.fail_closed(rid, "defined() implementation not found")
    else:
        names = [lib.hlit(x["args"][0]) for x, p in lib.hir_calls(reg.hir["body"], "CodegenContext::register_fn")]
        if names != ["defined"]:
            ctx.finding(rid, k + "|name", "built-in functions registered: %s (documented: defined)" % names, reg.where)
        f = dfn[0]
        # Ok(result) → is_some → 1 else 0 ; Err → 0
        ok = False
        for n in lib.hwalk(f.hir["body"]):
            if n.get("k") == "if":
                c = lib.strip(n["cond"])
                if c.get("k") == "mcall" and c.get("name") == "is_some":
                    t = [x.get("v") for x in lib.hwalk(n["then"]) if x.get("k") == "lit" and x.get("lk") == "int"]
                    e = [x.get("v") for x in lib.hwalk(n.get("else", {})) if x.get("k") == "lit" and x.get("lk") == "int"]
                    ok = t == [1] and e == [0]
        if not ok:
            ctx.finding(rid, k, "defined(x) must be 1 exactly when x evaluates to a value", f.where)


def _flat(t):
    out = [t]
    if isinstance(t, tuple):
        for x in t:
            out.extend(_flat(x))
    return out


def r39(ctx, fx):
    rid = ctx.rule("R3.9", "`.text` stores the bytes of the string in the selected encoding, for every character: in the encoders (mos_core::cbm, codegen::text_encoding) a "
                   "`char` is cut to a narrower integer (`c as u8`) only where the same `char` has been tested (`c.is_ascii()`, a comparison of `c` / `c as u32` with a "
                   "bound) — a test of the byte *after* the cut says nothing about the character: U+2523 has the low byte `#`")
    from .c11 import _anc_walk
    n_fns = n = 0
    for f in sorted(fx.all_fns("mos_core"), key=lambda f: f.path):
        if f.kind == "closure" or not f.d.get("hir") or "::tests::" in f.path or not f.path.startswith(("mos_core::cbm::", "mos_core::codegen::text_encoding::")):
            continue
        n_fns += 1
        for x, anc in _anc_walk(f.hir["body"]):
            if not (x.get("k") == "cast" and str(x.get("ty")) in ("u8", "i8", "u16", "i16") and str(lib.strip(x.get("a", {})).get("ty")) == "char"):
                continue
            n += 1
            who = lib.hpath(lib.strip(x["a"]))
            guarded = False
            for p_, key in anc:
                if (p_.get("k") == "if" and key == "then") or (p_.get("k") == "binary" and p_.get("op") == "And" and key == "r"):
                    for y in lib.hwalk(p_["cond"] if p_.get("k") == "if" else p_["l"]):
                        if y.get("k") == "mcall" and y.get("name") in ("is_ascii", "is_ascii_alphanumeric", "is_ascii_graphic", "is_ascii_digit", "is_ascii_alphabetic") and \
                                str(lib.strip(y["recv"]).get("ty")) in ("char", "&char") and lib.hpath(lib.strip(y["recv"])) == who:
                            guarded = True
                        if y.get("k") == "binary" and y.get("op") in ("Lt", "Le") and any(
                                z.get("k") == "path" and lib.hpath(z) == who and str(z.get("ty")) == "char" for z in lib.hwalk(y["l"])):
                            guarded = True
                if p_.get("k") == "match" and key == "arms":
                    pass
            key = "%s|char-cut#%d" % (f.path, n)
            ctx.inst(rid, key, sample={"fn": f.path, "line": x.get("ln"), "char": who, "tested_as_a_character_first": guarded})
            if not guarded:
                ctx.finding(rid, key, "%s cuts the character `%s` to `%s` without having tested the character itself: a character beyond U+00FF whose low byte looks like "
                            "ASCII is encoded as that ASCII character (`┣` U+2523 as `#`)" % (f.path.rsplit("::", 1)[-1], who, x.get("ty")), "%s:%s" % (f.file, x.get("ln")))
    ctx.inst(rid, "encoders", sample={"functions_scanned": n_fns, "casts_of_a_char_to_a_narrower_integer": n})
    if n_fns < 3:
        ctx.fail_closed(rid, "fewer than 3 functions found in the text encoders (%d)" % n_fns)


def run(ctx):
    fx = ctx.facts
    r39(ctx, fx)
    R = ref()
    r31_33_34(ctx, fx, R)
    r36(ctx, fx, R)
    r37(ctx, fx, R)
    r38(ctx, fx, R)
    r32(ctx, fx, R)
    r35(ctx, fx, R)
    ctx.not_decided("numeric results of the underlying i64 operations (rustc's), the contents of the PETSCII conversion tables, string interpolation values, "
                    "precedence between operator classes the documentation leaves open")
    ctx.assume("ref/operators.json transcribes docs/src/guide/assembler.md and the property statement")
