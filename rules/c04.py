"""C04 — invalid programs are rejected at the offending location and produce no binary.

 R4.1 `mos build`: every file-creating / file-writing call is dominated by the "no diagnostics" branch of the parse
      result and of the codegen result and by the Ok continuation of merge_segments; who-may-write table
 R4.2 every error diagnostic constructed in mos_core::{codegen, parser} carries a label (location), except the
      tabled project-level errors
 R4.3 main: the Err branch of `run` reaches process::exit with a non-zero constant on every path
 R4.4 no Result<_, Diagnostics> is discarded unreported (`let _ =`, `Err(_)` arm, dropped statement value,
      .ok()/.is_err()/unwrap_or…, `if let Ok` without else), except tabled sites
"""
import re

from . import lib

DIAG = "mos_core::errors::Diagnostics"

# file-creating / writing primitives (name-keyed summary of fs_err / std::fs / std::io::Write)
WRITE_CALLEES = re.compile(
    r"^(fs_err|std::fs)::(file::)?(File::create|File::create_new|write|copy|rename|remove_file|remove_dir_all|open_options::OpenOptions::open|OpenOptions::open)$"
    r"|^std::io::Write::(write_all|write|write_fmt)$")
CREATE_CALLEES = re.compile(
    r"^(fs_err|std::fs)::(file::)?(File::create|File::create_new|write|copy|rename|open_options::OpenOptions::open|OpenOptions::open)$")

# who may create files (non-test workspace code), confirmed by reading
MAY_CREATE = {
    "mos::commands::build::build_command": "listing and symbol files, after the binary was written (R4.1 dominance applies)",
    "mos_core::io::binary_writer::BinaryWriter::write_banks": "the binary itself; only called from build_command (checked)",
    "mos::commands::format::format_command": "rewrites source files; guarded by parse_or_err (C12 R12.3)",
    "mos::commands::init::init_command": "`mos init` writes mos.toml; not part of a build",
}

# R4.2: error sites without a label, each confirmed by reading
UNLABELLED_OK = {   # function -> (how many unlabelled sites were confirmed there, reason)
    "mos_core::parser::parse": (1, "entry file missing: there is no source construct to point at"),
    "mos_core::codegen::CodegenContext::finalize": (1, "segment not assigned to a bank: project-level configuration error"),
    "mos_core::codegen::codegen": (1, "`code generation did not settle after N passes`: concerns the whole program, not one construct"),
    "mos_core::io::binary_writer::BinaryWriter::merge_segments": (3, "bank layout errors (size, fill, unknown bank) concern the whole bank"),
    "mos_core::errors::map_io_error": (1, "I/O error text, no source construct"),
    "mos_core::errors::map_generic_error": (1, "generic error text, no source construct"),
    "<mos_core::parser::source::InMemoryParsingSource as mos_core::parser::source::ParsingSource>::get_contents":
        (1, "file missing in the in-memory source (LSP/tests), no source construct"),
}

# R4.4: discarded results, each confirmed by reading
DISCARD_OK = {   # (function, kind) -> (confirmed count, reason)
    ("mos_core::codegen::CodegenContext::finalize", "let_"): (1, "greedy analysis of uninvoked macros (LSP only): results are analysis hints, errors are expected"),
    ("mos_core::parser::source::ParsingSource::try_get_contents", "ok"): (1, "try_ variant: a missing file is the `None` answer"),
    ("mos_core::parser::parse", "is_err"): (1, "checked and returned two lines below (`file.err().unwrap()`)"),
    ("mos_core::parser::parse", "err"): (1, "the error is returned"),
    ("mos_core::parser::parse", "ok"): (1, "taken only after is_err() was false"),
    ("mos::lsp::symbols::DocSymEmitter::<'a>::emit_document_symbol", "ok"): (1, "document symbols (LSP outline): a segment name that does not evaluate has no children to list"),
    ("mos_core::codegen::CodegenContext::with_scope", "stmt"): (2, "the discarded `-`/`+` insertion results are reported under C07 (R7.5), where the behaviour breaks"),
}


def dst_switch_true_succ(fn, bi):
    """block bi ends in a call producing a bool; returns the successor block taken when the bool is TRUE
    (handles `switch(t)` and `n = Not(t); switch(n)`), following gotos; or None"""
    t = fn.blocks[bi]["term"]
    if t["k"] != "call" or t.get("target") is None:
        return None
    l = t["dst"]["l"]
    b = t["target"]
    neg = False
    for _ in range(6):
        blk = fn.blocks[b]
        for s in blk["stmts"]:
            if s["k"] == "assign" and s["rv"]["k"] == "unop" and s["rv"]["op"] == "Not" and lib.op_local(s["rv"]["a"]) == l:
                l = s["dst"]["l"]
                neg = not neg
            elif s["k"] == "assign" and s["rv"]["k"] == "use" and lib.op_local(s["rv"]["op"]) == l:
                l = s["dst"]["l"]
        tt = blk["term"]
        if tt["k"] == "switch" and lib.op_local(tt["discr"]) == l:
            zero = [bb for v, bb in tt["targets"] if v == 0]
            if not zero:
                return None
            false_succ, true_succ = zero[0], tt["otherwise"]
            return false_succ if neg else true_succ
        if tt["k"] == "goto":
            b = tt["target"]
            continue
        return None
    return None


def source_call(fn, du, op, depth=10):
    """the call whose result an operand derives from, through refs / copies / field projections"""
    p = lib.op_place(op)
    if p is None:
        return None
    l = p["l"]
    seen = set()
    while depth > 0 and l not in seen:
        seen.add(l)
        depth -= 1
        ds = du.defs.get(l, [])
        if not ds:
            return None
        # prefer a unique definition
        d = ds[0]
        if d[2] == "call":
            return d[3]
        rv = d[3]["rv"]
        nxt = None
        if rv["k"] == "use":
            q = lib.op_place(rv["op"])
            nxt = q["l"] if q else None
        elif rv["k"] in ("ref", "copy_for_deref", "rawptr"):
            nxt = rv["place"]["l"]
        elif rv["k"] == "cast":
            q = lib.op_place(rv["op"])
            nxt = q["l"] if q else None
        elif rv["k"] == "agg" and rv["ops"]:
            q = lib.op_place(rv["ops"][0])
            nxt = q["l"] if q else None
        if nxt is None:
            return None
        l = nxt
    return None


def ok_continuation(fn, bi):
    """block bi calls f() -> Result and the result goes through `?` (Try::branch): returns the block of the Continue arm"""
    t = fn.blocks[bi]["term"]
    b = t.get("target")
    l = t["dst"]["l"]
    for _ in range(8):
        if b is None:
            return None
        blk = fn.blocks[b]
        tt = blk["term"]
        if tt["k"] == "call" and lib.pm(lib.callee(tt)[0], "Try>::branch") or \
                (tt["k"] == "call" and (lib.callee(tt)[0] or "").endswith("::branch")):
            # switch on discriminant of the ControlFlow
            cf = tt["dst"]["l"]
            b2 = tt["target"]
            for _ in range(4):
                blk2 = fn.blocks[b2]
                t2 = blk2["term"]
                if t2["k"] == "switch":
                    # Continue = variant 0
                    for v, bb in t2["targets"]:
                        if v == 0:
                            return bb
                    return None
                if t2["k"] == "goto":
                    b2 = t2["target"]
                else:
                    return None
            return None
        if tt["k"] == "goto":
            b = tt["target"]
        elif tt["k"] == "call":
            b = tt.get("target")
        else:
            return None
    return None


def r41(ctx, fx, cg):
    rid = ctx.rule("R4.1", "in the build command every file-creating/-writing call (File::create, BinaryWriter::write_banks, Write::write_all, …) is dominated "
                   "by the `is_empty()` branch of the diagnostics returned by parse() and by codegen() and by the Ok continuation of merge_segments(); "
                   "no other non-test function of the workspace creates files except the tabled ones")
    # by role: the function in `mos` that calls write_banks
    builders = [f for f in fx.all_fns("mos") if any(lib.pm(lib.callee(t)[0], "BinaryWriter::write_banks") for _, t in lib.calls(f))]
    if len(builders) != 1:
        ctx.fail_closed(rid, "build command (caller of BinaryWriter::write_banks in crate mos) not found uniquely: %s" % [b.path for b in builders])
        return
    fn = builders[0]
    du = lib.DefUse(fn)
    guards = {}
    for bi, t in lib.calls(fn):
        p, _ = lib.callee(t)
        if lib.pm(p, "Diagnostics::is_empty"):
            src = source_call(fn, du, t["args"][0])
            sp = lib.norm(lib.callee(src)[0]) if src else None
            ts = dst_switch_true_succ(fn, bi)
            if sp and ts is not None:
                guards[sp] = ts
        if lib.pm(p, "BinaryWriter::merge_segments"):
            oc = ok_continuation(fn, bi)
            if oc is not None:
                guards["merge_segments"] = oc
    need = {"parse": None, "codegen": None, "merge_segments": guards.get("merge_segments")}
    for sp, ts in guards.items():
        if lib.pm(sp, "parser::parse"):
            need["parse"] = ts
        if lib.pm(sp, "codegen::codegen"):
            need["codegen"] = ts
    for k, v in need.items():
        ctx.inst(rid, "%s|guard|%s" % (fn.path, k), sample={"guard": k, "block": v})
        if v is None:
            ctx.finding(rid, "%s|guard|%s" % (fn.path, k), "the build command has no recognisable `no error` branch for the result of %s" % k, fn.where)
    n = 0
    for bi, t in lib.calls(fn):
        p, _ = lib.callee(t)
        pn = lib.norm(p) if p else ""
        is_write = bool(WRITE_CALLEES.match(pn)) or lib.pm(pn, "BinaryWriter::write_banks")
        if not is_write:
            continue
        n += 1
        # ordinal among same callee
        ordn = sum(1 for bj, tj in lib.calls(fn) if bj < bi and lib.norm(lib.callee(tj)[0] or "") == pn)
        k = "%s|%s|%d" % (fn.path, pn, ordn)
        missing = [g for g, blk in need.items() if blk is None or not lib.dominates(fn, blk, bi)]
        ctx.inst(rid, k, sample={"write": pn, "line": t.get("line"), "dominated_by": [g for g in need if g not in missing]})
        if missing:
            ctx.finding(rid, k, "%s (line %s) can execute although %s reported errors / failed: an output file is created or modified for an invalid program" % (
                pn.rsplit("::", 2)[-2] + "::" + pn.rsplit("::", 1)[-1], t.get("line"), " and ".join(missing)),
                "%s:%s" % (fn.file, t.get("line")))
    ctx.floor(rid, 8, "guards + write sites in the build command")
    # who-may-create
    for f in fx.all_fns():
        if "::tests::" in f.path or "::testing::" in f.path:
            continue
        owner = f
        while owner.kind == "closure" and owner.d.get("parent") in fx.fns:
            owner = fx.fns[owner.d["parent"]]
        for bi, t in lib.calls(f):
            p, _ = lib.callee(t)
            pn = lib.norm(p) if p else ""
            if CREATE_CALLEES.match(pn):
                k = "who-may-create|%s|%s" % (owner.path, pn)
                ctx.inst(rid, k, sample={"creator": owner.path, "callee": pn, "reason": MAY_CREATE.get(owner.path)})
                if owner.path not in MAY_CREATE:
                    ctx.finding(rid, k, "%s creates/overwrites a file (%s) but is not one of the functions allowed to" % (owner.path, pn),
                                "%s:%s" % (f.file, t.get("line")))
    # write_banks only from the build command
    wb = fx.find("BinaryWriter::write_banks")
    for w in wb:
        callers = sorted(fx.fns[c].path for c in cg.callers.get(w.id, ()) if "::tests::" not in fx.fns[c].path)
        ctx.inst(rid, "callers|%s" % w.path, sample={"callers": callers})
        if callers != [fn.path]:
            ctx.finding(rid, "callers|%s" % w.path, "write_banks is called from %s (allowed: the build command only)" % callers, w.where)


def chains(body):
    """method-call chains: for every outermost call/mcall expression, (node, [names from base to top], base callee path)"""
    out = []

    def chain_of(n):
        names = []
        cur = n
        while isinstance(cur, dict) and cur.get("k") == "mcall":
            names.append(cur.get("name"))
            cur = lib.strip(cur["recv"])
        base = lib.hcallee(cur) if isinstance(cur, dict) and cur.get("k") == "call" else None
        return names[::-1], base, cur

    def rec(n, is_recv):
        if isinstance(n, list):
            for x in n:
                rec(x, False)
            return
        if not isinstance(n, dict):
            return
        if n.get("k") in ("mcall", "call") and not is_recv:
            names, base, basenode = chain_of(n)
            out.append((n, names, base))
        for key, v in n.items():
            if key == "recv" and n.get("k") == "mcall":
                rec(v, True)
            elif isinstance(v, (dict, list)):
                rec(v, False)
    rec(body, False)
    return out


def r42(ctx, fx):
    rid = ctx.rule("R4.2", "every `Diagnostic::error()` built in mos_core::codegen / mos_core::parser is given a label (`with_labels`) in the same "
                   "expression chain, or, when bound to a variable first, on a later path; unlabelled project-level errors are tabled with their reason")
    n = 0
    unl = {}
    for f in sorted(fx.all_fns("mos_core"), key=lambda f: f.path):
        if not f.d.get("hir") or "::tests::" in f.path or "::testing" in f.path:
            continue
        if not (f.path.startswith("mos_core::codegen") or f.path.startswith("mos_core::parser") or f.path.startswith("<mos_core::parser")
                or f.path.startswith("mos_core::io") or f.path.startswith("mos_core::errors")):
            continue
        seen_here = 0
        # closures are inline in the owner's HIR: attribute to the innermost closure by line range
        closures = [c for c in fx.fns.values() if c.kind == "closure" and c.path.startswith(f.path + "::{closure")]
        for node, names, base in chains(f.hir["body"]):
            if not lib.pm(base, "Diagnostic::error"):
                continue
            ln = node.get("ln")
            owner = f
            for c in closures:
                if c.lo <= ln <= c.hi and (owner is f or (c.lo >= owner.lo and c.hi <= owner.hi)):
                    owner = c
            seen_here += 1
            n += 1
            ordn = seen_here
            labelled = "with_labels" in names
            if not labelled:
                # `let mut diag = …; diag = diag.with_labels(…)` later in the same function
                labelled_later = any(nm2 and "with_labels" in nm2 and not lib.pm(b2, "Diagnostic::error") for _, nm2, b2 in chains(f.hir["body"]))
            k = "%s|error#%d" % (owner.path, ordn)
            ctx.inst(rid, k, sample={"fn": owner.path, "line": ln, "chain": names} if n <= 2 else None)
            if labelled:
                continue
            # `let mut d = Diagnostic::error()…;  if let Some(span) = … { d = d.with_labels(…) }` : labelled on the path that has a span
            bound = None
            for st in lib.hwalk(f.hir["body"]):
                if st.get("k") == "let" and st["pat"].get("k") == "bind" and st.get("init") is not None and lib.strip(st["init"]) is node:
                    bound = st["pat"]["name"]
            if bound is not None and any(a.get("k") == "assign" and lib.hpath(a["l"]) == bound and
                                         any(m.get("k") == "mcall" and m.get("name") == "with_labels" and lib.hpath(m["recv"]) == bound for m in lib.hwalk(a["r"]))
                                         for a in lib.hwalk(f.hir["body"])):
                continue
            unl[owner.path] = unl.get(owner.path, 0) + 1
            if owner.path in UNLABELLED_OK and unl[owner.path] <= UNLABELLED_OK[owner.path][0]:
                continue
            ctx.finding(rid, k, "error diagnostic without a source location (no with_labels) in %s" % owner.path, "%s:%s" % (f.file, ln))
    ctx.floor(rid, 20, "Diagnostic::error() sites in mos_core")
    # the tabled conditional one really has a labelled path
    cl = fx.fn("mos_core::codegen::codegen::{closure#1}")
    ctx.inst(rid, "undefined-report|labelled-path")
    cg_fn = fx.fn("mos_core::codegen::codegen")
    if cg_fn is not None:
        found = False
        for n_ in lib.hwalk(cg_fn.hir["body"]):
            if n_.get("k") == "if" and lib.strip(n_["cond"]).get("k") == "letx":
                lx = lib.strip(n_["cond"])
                if lib.pat_key(lx["pat"]).startswith("core::option::Option::Some") and \
                        any(x.get("k") == "mcall" and x.get("name") == "with_labels" for x in lib.hwalk(n_["then"])):
                    found = True
        if not found:
            ctx.finding(rid, "undefined-report|labelled-path", "the undefined-symbol report no longer attaches the usage span as a label", cg_fn.where)
    else:
        ctx.fail_closed(rid, "codegen() not found")
    # span → file:line:column
    fmt = fx.fn("mos_core::errors::Diagnostics::format")
    ctx.inst(rid, "Diagnostics::format|line-col")
    if fmt is None:
        ctx.fail_closed(rid, "Diagnostics::format not found")
    else:
        # begin.line + 1 and begin.column + 1
        adds = []
        for o in lib.owned(fx, fmt):
            pass
        for n_ in lib.hwalk(fmt.hir["body"]):
            if n_.get("k") == "binary" and n_["op"] == "Add" and lib.hlit(n_["r"]) == 1:
                d = lib.hdesc(n_["l"])
                if d[0] == "f":
                    adds.append((d[1], d[2][1] if len(d[2]) > 1 else None))
        if ("line", "begin") not in adds or ("column", "begin") not in adds:
            ctx.finding(rid, "Diagnostics::format|line-col", "diagnostics must be printed with the 1-based begin line and column of their first label; found %s" % adds, fmt.where)


def r43(ctx, fx):
    rid = ctx.rule("R4.3", "main(): the Err continuation of run() reaches std::process::exit with a non-zero constant on every path, and no other exit precedes it")
    mains = [f for f in fx.all_fns("mos") if f.path == "mos::main"]
    if len(mains) != 1:
        ctx.fail_closed(rid, "mos::main not found")
        return
    fn = mains[0]
    runs = [(bi, t) for bi, t in lib.calls(fn) if lib.callee(t)[0] == "mos::run"]
    if len(runs) != 1:
        ctx.fail_closed(rid, "call of run() in main not found")
        return
    bi, t = runs[0]
    # discriminant switch on the result
    b = t["target"]
    l = t["dst"]["l"]
    err_succ = None
    for _ in range(6):
        blk = fn.blocks[b]
        tt = blk["term"]
        if tt["k"] == "switch":
            # Result: Ok = 0, Err = 1
            for v, bb in tt["targets"]:
                if v == 1:
                    err_succ = bb
            if err_succ is None:
                # `if let Err(e)`: switch [1: err, otherwise: ok] or [0: ok, otherwise: err]
                if any(v == 0 for v, _ in tt["targets"]):
                    err_succ = tt["otherwise"]
            break
        if tt["k"] == "goto":
            b = tt["target"]
        else:
            break
    k = "%s|err-exit" % fn.path
    ctx.inst(rid, k)
    if err_succ is None:
        ctx.fail_closed(rid, "Err branch of run() not recognised in main")
        return
    exits = [(bj, tj) for bj, tj in lib.calls(fn) if lib.pm(lib.callee(tj)[0], "process::exit")]
    exit_blocks = {bj for bj, _ in exits}
    # every path from err_succ ends in an exit block: removing exit blocks, no return/… reachable
    reach = lib.reachable(fn, err_succ, removed=exit_blocks)
    escaping = [x for x in reach if fn.blocks[x]["term"]["k"] in ("return",)]
    ctx.inst(rid, k + "|all-paths", sample={"exit_sites": len(exits), "err_branch_block": err_succ})
    if escaping or not exits:
        ctx.finding(rid, k + "|all-paths", "a failed command can leave main() without process::exit: the exit status would be 0", fn.where)
    for bj, tj in exits:
        code = lib.const_int(tj["args"][0])
        ctx.inst(rid, k + "|code|%d" % bj, sample={"exit_code": code})
        if lib.dominates(fn, err_succ, bj) and (code is None or code == 0):
            ctx.finding(rid, k + "|code", "the failure exit status is %s (must be a non-zero constant)" % code, "%s:%s" % (fn.file, tj.get("line")))
    # run(): the build arm returns build_command's result unchanged
    run = fx.fn("mos::run")
    ctx.inst(rid, "mos::run|propagates")
    if run is None:
        ctx.fail_closed(rid, "mos::run not found")
    else:
        ok = False
        for n_ in lib.hwalk(run.hir["body"]):
            if n_.get("k") == "match":
                for a in n_["arms"]:
                    pk = lib.pat_key(a["pat"])
                    if isinstance(pk, str) and "Subcommand::Build" in pk:
                        b_ = lib.strip(a["body"])
                        if b_.get("k") == "call" and lib.pm(lib.hcallee(b_), "build::build_command"):
                            ok = True
        if not ok:
            ctx.finding(rid, "mos::run|propagates", "run() does not return the build command's result as its own", run.where)


def is_diag_result(ty):
    return bool(ty) and DIAG in ty and "Result<" in ty and "ControlFlow" not in ty


def _consumed_locals(body):
    """locals that occur somewhere other than as the receiver of is_ok()/is_err() or as the target of an assignment: such a local is still handed on
    (returned, `?`-ed, matched), so testing it with is_ok() does not throw its diagnostics away"""
    out = set()

    def rec(n, parent, key):
        if isinstance(n, list):
            for x in n:
                rec(x, parent, key)
            return
        if not isinstance(n, dict):
            return
        if n.get("k") == "path" and (n.get("res") or {}).get("dk") == "Local":
            test_only = parent is not None and parent.get("k") == "mcall" and key == "recv" and parent.get("name") in ("is_ok", "is_err")
            assigned = parent is not None and parent.get("k") in ("assign", "assignop") and key == "l"
            if not test_only and not assigned:
                out.add(lib.hpath(n))
            return
        for k2, v in n.items():
            if isinstance(v, (dict, list)):
                # look through address-of
                if isinstance(v, dict) and v.get("k") == "addrof":
                    rec(v["a"], n, k2)
                else:
                    rec(v, n, k2)
    rec(body, None, None)
    return out


def discard_sites(f):
    """HIR sites in f that throw a Result<_, Diagnostics> away; yields (kind, line, description)"""
    consumed = None
    for n in lib.hwalk(f.hir["body"]):
        k = n.get("k")
        if k == "let" and n["pat"].get("k") == "wild" and is_diag_result(lib.strip(n.get("init", {})).get("ty")):
            yield "let_", n["init"].get("ln"), "`let _ =` of a result"
        if k == "semi":
            e = lib.strip(n["e"])
            if is_diag_result(e.get("ty")) and e.get("k") not in ("ret", "break", "assign"):
                yield "stmt", e.get("ln"), "statement value of type %s is dropped" % e.get("ty")[:70]
        if k == "match":
            st = lib.strip(n["scrut"]).get("ty")
            if is_diag_result(st) and (st or "").startswith("core::result::Result<"):
                for a in n["arms"]:
                    p = a["pat"]
                    if p.get("k") == "tstruct" and lib.pm(p["res"].get("path"), "Result::Err") and \
                            len(p["pats"]) == 1 and p["pats"][0].get("k") == "wild":
                        yield "err_", a.get("ln"), "`Err(_)` arm ignores the diagnostics"
        if k == "mcall" and n.get("name") in ("ok", "unwrap_or", "unwrap_or_default", "is_ok", "is_err", "unwrap_or_else", "err") and \
                is_diag_result(lib.strip(n["recv"]).get("ty")) and (lib.strip(n["recv"]).get("ty") or "").startswith("core::result::Result<"):
            r = lib.strip(n["recv"])
            if n["name"] in ("is_ok", "is_err") and r.get("k") == "path" and (r.get("res") or {}).get("dk") == "Local":
                if consumed is None:
                    consumed = _consumed_locals(f.hir["body"])
                if lib.hpath(r) in consumed:
                    continue      # a test of a local that is still handed on afterwards
            yield n["name"], n.get("ln"), ".%s() on a result discards its diagnostics" % n["name"]
        if k == "if" and lib.strip(n["cond"]).get("k") == "letx":
            lx = lib.strip(n["cond"])
            if is_diag_result(lib.strip(lx["init"]).get("ty")) and (lib.strip(lx["init"]).get("ty") or "").startswith("core::result::Result<"):
                p = lx["pat"]
                if p.get("k") == "tstruct" and lib.pm(p["res"].get("path"), "Result::Ok"):
                    yield "iflet-ok", n.get("ln"), "`if let Ok(..)` ignores the Err case"


def r44(ctx, fx, only_prefix=None, rid=None):
    rid = rid or ctx.rule("R4.4", "no `Result<_, Diagnostics>` is thrown away unreported in non-test workspace code (type-directed: `let _ =`, `Err(_)` arms, "
                          "dropped statement values, .ok()/.is_err()/.unwrap_or*(), `if let Ok`), except tabled sites")
    nfn = 0
    for f in sorted(fx.all_fns(), key=lambda f: f.path):
        if not f.d.get("hir") or "::tests::" in f.path or "::testing" in f.path:
            continue
        nfn += 1
        seen = {}
        for kind, ln, what in discard_sites(f):
            seen[kind] = seen.get(kind, 0) + 1
            k = "%s|%s#%d" % (f.path, kind, seen[kind])
            ctx.inst(rid, k, sample={"fn": f.path, "kind": kind, "line": ln, "tabled": (DISCARD_OK.get((f.path, kind)) or (0, None))[1]})
            if (f.path, kind) in DISCARD_OK and seen[kind] <= DISCARD_OK[(f.path, kind)][0]:
                continue
            yield_finding(ctx, rid, k, f, ln, what)
        if not seen:
            ctx.inst(rid, f.path, nontrivial=False)
    ctx.floor(rid, 300, "functions scanned")


def yield_finding(ctx, rid, k, f, ln, what):
    ctx.finding(rid, k, "%s in %s: an error of the program is swallowed (build can succeed / continue with wrong state)" % (what, f.path.rsplit("::", 1)[1]),
                "%s:%s" % (f.file, ln))


def r45(ctx, fx):
    rid = ctx.rule("R4.5", "the pass loop's error bail-out — the `return` that hands back the collected diagnostics when a pass repeats the errors of the previous one — is "
                   "guarded by a condition over the two error sets only (`errors`, `prev_errors`): any further conjunct can stay false for a program with a persistent "
                   "error, whose located diagnostic is then never reported")
    loops = [f for f in fx.all_fns("mos_core") if f.kind == "fn" and any(lib.pm(lib.callee(t)[0], "CodegenContext::next_pass") for _, t in lib.calls(f))]
    if len(loops) != 1:
        ctx.fail_closed(rid, "pass loop (caller of next_pass) not found uniquely")
        return
    f = loops[0]
    hits = []

    def rec(n, conds, in_loop):
        if isinstance(n, list):
            for x in n:
                rec(x, conds, in_loop)
            return
        if not isinstance(n, dict) or n.get("k") == "closure":
            return
        if n.get("k") == "ret" and in_loop:
            a = lib.strip(n.get("a", {}))
            if a.get("k") == "tup" and len(a["es"]) == 2 and lib.hpath(a["es"][1]) is not None and (lib.strip(a["es"][1]).get("ty") or "").endswith("errors::Diagnostics"):
                hits.append((n, lib.hpath(a["es"][1]), list(conds)))
        if n.get("k") == "loop":
            in_loop = True
        if n.get("k") == "if":
            rec(n["cond"], conds, in_loop)
            rec(n["then"], conds + [n["cond"]], in_loop)
            if "else" in n:
                rec(n["else"], conds, in_loop)
            return
        for v in n.values():
            if isinstance(v, (dict, list)):
                rec(v, conds, in_loop)
    rec(f.hir["body"], [], False)
    # the bail-out: returns the loop's own error accumulator (a mutable local of type Diagnostics assigned from emit_tokens' Err)
    bail = [h for h in hits if h[1] == "errors"]
    key = "%s|error-bail-out" % f.path
    ctx.inst(rid, key, sample={"returns_in_loop": len(hits), "bail_out_sites": len(bail)})
    if len(bail) != 1:
        ctx.fail_closed(rid, "expected exactly one `return (…, errors)` inside the pass loop, found %d" % len(bail))
        return
    node, _, conds = bail[0]
    # only the innermost guards that are not the loop's own `while` condition
    names = set()
    for c in conds:
        d = lib.hdesc(c)
        if "pass_idx" in repr(d):
            continue
        for t in lib.subterms(d):
            if isinstance(t, tuple) and len(t) >= 2 and t[0] == "v":
                names.add(t[1])
            if isinstance(t, tuple) and len(t) >= 2 and t[0] == "f":
                names.add("." + t[1])
    extra = sorted(x for x in names if x not in ("errors", "prev_errors") and not x.startswith(".is_empty"))
    # `ctx.segments.is_empty()` else-branch: the bail-out sits in the else of "no segments yet" — that is an `else`, not recorded in conds
    ctx.inst(rid, key + "|guard", sample={"mentions": sorted(names)})
    if extra:
        ctx.finding(rid, key + "|guard", "the error bail-out of the pass loop also depends on %s: a program whose error persists while that condition stays false is "
                    "never reported with its location (the loop runs to the pass bound instead)" % extra, "%s:%s" % (f.file, node.get("ln")))


def r46(ctx, fx):
    rid = ctx.rule("R4.6", "a second definition of a read-only symbol (label, constant) in the same pass is an error whatever value it has: the condition under which "
                   "add_symbol reports `cannot redefine symbol` does not depend on the two values being different")
    ads = fx.fn("mos_core::codegen::CodegenContext::add_symbol")
    if ads is None:
        ctx.fail_closed(rid, "add_symbol not found")
        return
    key = "add_symbol|redefinition"
    ctx.inst(rid, key)
    conds = [n for n in lib.hwalk(ads.hir["body"]) if n.get("k") == "if" and "read_only" in repr(lib.hdesc(n["cond"])) and
             any(r.get("k") == "ret" for r in lib.hwalk(n["then"]))]
    if not conds:
        ctx.fail_closed(rid, "the redefinition check of add_symbol was not found")
        return
    # the disjunct that mentions pass_idx (same-pass redefinition): none of its conjuncts may compare the data of the two symbols
    def disjuncts(g):
        g = lib.strip(g)
        if g.get("k") == "binary" and g.get("op") == "Or":
            return disjuncts(g["l"]) + disjuncts(g["r"])
        return [g]
    same_pass = [d for d in disjuncts(conds[0]["cond"]) if "pass_idx" in repr(lib.hdesc(d))]
    if not same_pass:
        ctx.finding(rid, key, "add_symbol no longer rejects a second definition of a read-only symbol in the same pass", ads.where)
    elif any(n.get("k") == "binary" and n.get("op") in ("Ne", "Eq") and "'data'" in repr(lib.hdesc(n)) for d in same_pass for n in lib.hwalk(d)):
        ctx.finding(rid, key, "a second definition of a label or constant is only rejected when its value differs: `a:` twice at one address, or `.const x = 1` twice, "
                    "build without a diagnostic", "%s:%s" % (ads.file, conds[0].get("ln")))


def r47(ctx, fx):
    rid = ctx.rule("R4.7", "an out-of-range branch is reported where it stands (regression guard): the path of emit_token that rejects a branch distance still emits the "
                   "instruction (CodegenContext::emit before the `return Err`). If it emitted nothing, whatever follows would sit two bytes closer in that pass, a "
                   "forward branch that is just out of range would be in range in every other pass, and the build would end with `unknown identifier` at the "
                   "target label instead of `branch too far` at the branch")
    et = fx.fn("mos_core::codegen::CodegenContext::emit_token")
    if et is None or not et.d.get("hir"):
        ctx.fail_closed(rid, "CodegenContext::emit_token not found")
        return
    arms = [a for n in lib.hwalk(et.hir["body"]) if n.get("k") == "match" and (lib.strip(n["scrut"]).get("ty") or "").endswith("Mnemonic")
            for a in n["arms"] if a["pat"].get("k") == "or"]
    if len(arms) != 1:
        ctx.fail_closed(rid, "expected one or-pattern arm over Mnemonic in emit_token, found %d" % len(arms))
        return
    ifs = [x for x in lib.hwalk(arms[0]["body"]) if x.get("k") == "if" and "else" in x and
           any(True for _ in lib.hir_calls(x["cond"], "RangeInclusive::<Idx>::contains")) or
           (x.get("k") == "if" and "else" in x and any(c.get("k") == "mcall" and c.get("name") == "contains" for c in lib.hwalk(x["cond"])))]
    key = "emit_token|branch-out-of-range|keeps-its-bytes"
    if len(ifs) != 1:
        ctx.fail_closed(rid, "the range test of the branch distance was not found (%d candidates)" % len(ifs))
        return
    rejecting = ifs[0]["else"]
    has_ret = any(n.get("k") == "ret" for n in lib.hwalk(rejecting))
    emits = [x for x, _ in lib.hir_calls(rejecting, "CodegenContext::emit")]
    ctx.inst(rid, key, sample={"rejecting_path_returns": has_ret, "emit_calls_on_it": len(emits)})
    if has_ret and not emits:
        ctx.finding(rid, key, "the path that rejects an out-of-range branch emits nothing: the layout of that pass is two bytes short behind the branch, so a forward "
                    "branch that is barely too far alternates between in and out of range and is never reported at the branch", "%s:%s" % (et.file, ifs[0].get("ln")))


# stacks / depth counters of the code generator that live across passes: whatever is pushed must be popped on every way out, the error exits included
BALANCED = {"import_stack": ("push", "pop"), "current_scope": ("push", "pop"), "macro_depth": ("+=", "-=")}


def r48(ctx, fx):
    rid = ctx.rule("R4.8", "an error leaves no state behind for the next pass: in every function of the code generator that pushes onto `import_stack` / "
                   "`current_scope` or increments `macro_depth`, every path from the push to a return — the `?` and `return Err` exits too — passes the matching "
                   "pop / decrement (must-pass on the MIR CFG). A stack that keeps the file of a failed import makes the next pass report a `cyclic import` at "
                   "the import statement, and the pass loop, which reports what two consecutive passes agree on, shows only that")
    CC = "mos_core::codegen::CodegenContext"
    n = 0
    for f in sorted(fx.all_fns("mos_core"), key=lambda f: f.path):
        if "::tests::" in f.path or not f.path.lstrip("<").startswith("mos_core::codegen") or not f.blocks:
            continue
        for fld, (up, down) in sorted(BALANCED.items()):
            ups, downs = [], []
            if up == "push":
                # calls of push / pop whose receiver is `&mut self.<fld>`
                du = lib.DefUse(f)
                for bi, t in lib.calls(f):
                    cp = lib.norm(lib.callee(t)[0] or "")
                    if not cp.endswith(("::push", "::pop")) or not t.get("args"):
                        continue
                    r = lib.op_local(t["args"][0])
                    d = du.single_def(r) if r is not None else None
                    if not (d and d[2] == "assign" and d[3]["rv"]["k"] == "ref" and lib.place_fields(d[3]["rv"]["place"])[-1:] == [fld]):
                        continue
                    if cp.endswith("::push"):
                        ups.append((bi, t.get("line")))
                    else:
                        downs.append(bi)
            else:
                for bi, si, st in lib.stmts(f):
                    if st["k"] != "assign" or lib.place_fields(st["dst"])[-1:] != [fld]:
                        continue
                    rv = st["rv"]
                    op = str(rv.get("op", "")).replace("WithOverflow", "") if rv["k"] in ("binop", "checked_binop") else None
                    if op == "Add":
                        ups.append((bi, st.get("line")))
                    elif op == "Sub":
                        downs.append(bi)
                # overflow-checked arithmetic assigns the field from a temporary: find `tmp = self.fld + 1` followed by `self.fld = move tmp.0`
                if not ups and not downs:
                    for bi, si, st in lib.stmts(f):
                        if st["k"] == "assign" and st["rv"]["k"] in ("binop", "checked_binop"):
                            l = st["rv"].get("l")
                            pl = lib.op_place(l) if l is not None else None
                            if pl and lib.place_fields(pl)[-1:] == [fld]:
                                op = str(st["rv"].get("op", "")).replace("WithOverflow", "")
                                if op == "Add":
                                    ups.append((bi, st.get("line")))
                                elif op == "Sub":
                                    downs.append(bi)
            if not ups:
                continue
            rets = lib.return_blocks(f)
            for j, (bi, line) in enumerate(ups):
                n += 1
                key = "%s|%s|balanced#%d" % (f.path, fld, j + 1)
                after = [x for x in lib.succs(f)[bi] if not f.blocks[x]["cleanup"]] if up == "push" else [bi]
                esc = [r for r in rets if any(not lib.must_pass(f, downs, r, start=a) for a in after if a not in downs)]
                ctx.inst(rid, key, sample={"fn": f.path, "field": fld, "pushed_at_line": line, "pops": len(downs), "returns_reachable_without_pop": len(esc)})
                if esc:
                    ctx.finding(rid, key, "%s pushes onto `%s` (line %s) and can return without the matching pop: an error inside (`?`) leaves the entry behind, it is "
                                "still there in the next pass, and what that pass reports is a consequence of the leftover instead of the error itself" % (
                                    f.path.rsplit("::", 1)[-1], fld, line), "%s:%s" % (f.file, line))
    if n < 3:
        ctx.fail_closed(rid, "fewer than 3 pushes onto the code generator's stacks found (%d; import_stack, current_scope and macro_depth were counted)" % n)


def r49(ctx, fx):
    rid = ctx.rule("R4.9", "an error that was kept in a variable is not forgotten: no named local of type `Result<_, Diagnostics>` is dropped (MIR `drop`, not on an unwind "
                   "path, not the old value that an assignment replaces) on a path that reaches a return without going through an error exit (`?` / `Err(..)`) — "
                   "`let result = f(); if cond { return result; } …; Ok(())` swallows whatever f reported, the build goes on and writes its files")
    n = 0
    j = 0
    for f in sorted(fx.all_fns(), key=lambda f: f.path):
        if not f.blocks or "::tests::" in f.path or not f.path.lstrip("<").startswith(("mos_core::", "mos::commands::", "mos::main", "mos::run")):
            continue
        cands = [i for i, l in enumerate(f.locals) if l.get("name") and l["ty"].startswith("core::result::Result<") and "Diagnostics" in l["ty"]]
        if not cands:
            continue
        err = lib.MustCall.error_exit_blocks(f)
        live = lib.reachable(f, 0, removed=err)
        rets = set(lib.return_blocks(f))
        for bi, b in enumerate(f.blocks):
            t = b["term"]
            if t["k"] != "drop" or b["cleanup"] or t["place"].get("p") or t["place"]["l"] not in cands:
                continue
            n += 1
            l = t["place"]["l"]
            # the old value of a re-assignment: the successor writes the local first thing
            nb = f.blocks[t["target"]]
            first = nb["stmts"][0] if nb["stmts"] else None
            replaced = (first is not None and first["k"] == "assign" and first["dst"]["l"] == l and not first["dst"].get("p")) or \
                (not nb["stmts"] and nb["term"]["k"] == "call" and nb["term"]["dst"]["l"] == l and not nb["term"]["dst"].get("p"))
            on_success = bi in live and bool(rets & lib.reachable(f, bi, removed=err))
            key = "%s|%s#%d" % (f.path, f.locals[l]["name"], n)
            ctx.inst(rid, key, sample={"fn": f.path, "local": f.locals[l]["name"], "line": t.get("line"), "old_value_of_an_assignment": replaced, "on_a_success_path": on_success})
            if on_success and not replaced:
                j += 1
                ctx.finding(rid, "%s|%s|forgotten#%d" % (f.path, f.locals[l]["name"], j),
                            "%s keeps a result in `%s` and lets it go out of scope on a path that returns without an error: what went wrong there — an illegal addressing "
                            "mode, a branch out of range, a redefinition — is reported by nobody, the exit status is 0 and the output files are written" % (
                                f.path.rsplit("::", 1)[-1], f.locals[l]["name"]), "%s:%s" % (f.file, t.get("line")))
    if n < 3:
        ctx.fail_closed(rid, "fewer than 3 drops of named Result<_, Diagnostics> locals found (%d)" % n)


def run(ctx):
    fx = ctx.facts
    cg = lib.CallGraph(fx)
    r49(ctx, fx)
    r45(ctx, fx)
    r46(ctx, fx)
    r47(ctx, fx)
    r48(ctx, fx)
    r41(ctx, fx, cg)
    r42(ctx, fx)
    r43(ctx, fx)
    r44(ctx, fx)
    ctx.not_decided("whether the reported label is the *right* span for each fault class; the cross-pass bail-out logic on concrete programs; "
                    "I/O failures between writing the binary and the listing/symbol files")
