"""C05 — nothing in a source file is silently ignored (lossless parse).

 R5.1 printer coverage: Display of every AST node uses every text-carrying field of every variant
 R5.2 parser closures never drop captured text: a ws/mws-wrapped element (Located with trivia) is moved whole,
      mapped, or its trivia is read; an element bound to `_` consumes constant text or nothing
 R5.3 swallow-all (`rest`) only together with a diagnostic
 R5.4 the file parser is wrapped in all_consuming; error tokens keep the offending text and report it
 R5.5 case normalisation touches the keyword only, never its leading trivia
"""
from . import grammar, lib

AST = "mos_core::parser::ast::"
LOCATED = AST + "Located<"

# fields that carry no source text (confirmed by reading)
NONTEXT = {
    ("Token::Braces", "scope"): "generated anonymous scope name",
    ("Token::Import", "import_scope"): "generated anonymous scope name",
    ("Token::Import", "resolved_path"): "computed from filename",
    ("Token::Loop", "loop_scope"): "generated anonymous scope name",
    ("Expression::Factor", "flags"): "derived from tag_not / tag_neg, which are printed",
    ("Operand", "addressing_mode"): "selects the print layout; derived from the punctuation that is printed",
}

PRINTERS = [  # (type path, how to find its Display impl)
    AST + "Token", AST + "ExpressionFactor", AST + "Expression", AST + "Block", AST + "InterpolatedString",
    AST + "InterpolatedStringItem", AST + "ImportAs", AST + "SpecificImportArg",
]


def binds(p):
    return [q["name"] for q in lib.hwalk(p) if q.get("k") == "bind"]


def used_names(body):
    return {lib.hpath(x) for x in lib.hwalk(body) if x.get("k") == "path" and (x.get("res") or {}).get("dk") == "Local"}


def r51(ctx, fx):
    rid = ctx.rule("R5.1", "printer coverage: in `Display` of Token, Expression, ExpressionFactor, Block, InterpolatedString(Item), ImportAs, "
                   "SpecificImportArg every field of every variant is bound and used in its arm (except the tabled non-text fields); no `Located` is "
                   "printed through `.data` alone")
    for ty in PRINTERS:
        disp = fx.fn("<%s as core::fmt::Display>::fmt" % ty)
        adt = fx.adts.get(ty)
        short = ty[len(AST):]
        if disp is None or adt is None:
            ctx.fail_closed(rid, "Display impl / ADT of %s not found" % short)
            continue
        body = disp.hir["body"]
        if adt["kind"] == "Struct":
            fields = [f["name"] for f in adt["variants"][0]["fields"]]
            used = {x["name"] for x in lib.hwalk(body) if x.get("k") == "field" and lib.hpath(x["a"]) == "self"}
            for fl in fields:
                k = "%s|%s" % (short, fl)
                ctx.inst(rid, k)
                if fl not in used and (short, fl) not in NONTEXT:
                    ctx.finding(rid, k, "Display for %s never prints field `%s`: that part of the source text is lost on re-rendering" % (short, fl), disp.where)
            continue
        m = [n for n in lib.hwalk(body) if n.get("k") == "match" and lib.hpath(n["scrut"]) in ("self",)]
        if not m:
            m = [n for n in lib.hwalk(body) if n.get("k") == "match"]
        if not m:
            ctx.fail_closed(rid, "Display for %s is not a match on self" % short)
            continue
        m = m[0]
        covered = {}
        for a in m["arms"]:
            alts = a["pat"]["pats"] if a["pat"].get("k") == "or" else [a["pat"]]
            for p in alts:
                while p.get("k") == "ref":
                    p = p["sub"]
                vp = (p.get("res") or {}).get("path") if p.get("k") in ("struct", "tstruct", "path") else None
                if vp is None:
                    continue
                vname = vp.rsplit("::", 1)[1]
                used = used_names(a["body"])
                fb = {}
                if p.get("k") == "struct":
                    for f in p["fields"]:
                        bs = binds(f["pat"])
                        fb[f["name"]] = bs
                elif p.get("k") == "tstruct":
                    for i, q in enumerate(p["pats"]):
                        fb[str(i)] = binds(q)
                covered[vname] = (fb, used, a)
        for v in adt["variants"]:
            vname = v["name"]
            key = "%s::%s" % (short, vname)
            if vname not in covered:
                ctx.inst(rid, key)
                ctx.finding(rid, key, "Display for %s has no arm for variant %s" % (short, vname), disp.where)
                continue
            fb, used, arm = covered[vname]
            for f in v["fields"]:
                k = "%s|%s" % (key, f["name"])
                ctx.inst(rid, k, sample={"variant": key, "field": f["name"]} if vname in ("If", "Import") else None)
                if (key, f["name"]) in NONTEXT:
                    continue
                bs = fb.get(f["name"])
                if not bs or not any(b in used for b in bs):
                    ctx.finding(rid, k, "Display for %s does not print field `%s`: that text is lost on re-rendering" % (key, f["name"]),
                                "%s:%s" % (disp.file, arm.get("ln")))
        # `.data` of a Located binding printed alone
        for x in lib.hwalk(body):
            if x.get("k") == "field" and x["name"] == "data" and (lib.strip(x["a"]).get("ty") or "").lstrip("&").startswith(LOCATED):
                base = lib.strip(x["a"])
                # allowed: matching on the data to choose a layout (the Located itself is printed elsewhere in the arm)
                nm = lib.hpath(base)
                ctx.inst(rid, "%s|.data|%s@%s" % (short, nm, "x"), nontrivial=False)
    # Located<T>: trivia then data
    ld = [f for f in fx.all_fns("mos_core") if f.path.startswith("<mos_core::parser::ast::Located<T> as core::fmt::Display>::fmt")]
    ctx.inst(rid, "Located|trivia+data")
    if len(ld) != 1:
        ctx.fail_closed(rid, "Display for Located<T> not found")
    else:
        f = ld[0]
        fields = [x["name"] for x in lib.hwalk(f.hir["body"]) if x.get("k") == "field" and lib.hpath(x["a"]) == "self"]
        if fields[:2] != ["trivia", "data"]:
            ctx.finding(rid, "Located|trivia+data", "Display for Located must print the trivia followed by the data; prints %s" % fields, f.where)
    # Operand: Instruction arm prints lchar, expr, rchar, suffix (comma + register)
    tok = fx.fn("<%sToken as core::fmt::Display>::fmt" % AST)
    if tok is not None:
        want = {"mnemonic", "operand", "suffix", "comma", "register", "lchar", "rchar", "expr", "addressing_mode"}
        got = {x["name"] for x in lib.hwalk(tok.hir["body"]) if x.get("k") == "field"}
        for fl in sorted(want):
            ctx.inst(rid, "Token::Instruction|%s" % fl)
            if fl not in got:
                ctx.finding(rid, "Token::Instruction|%s" % fl, "the instruction printer never reads `%s`" % fl, tok.where)
    ctx.floor(rid, 90, "variant fields")


CONST_TEXT = ("char", "tag")


def consumes_nothing(g):
    g0 = g
    while isinstance(g0, tuple) and g0[0] in ("expect",):
        g0 = g0[1]
    return isinstance(g0, tuple) and g0[0] in ("not", "value")


def const_text(g):
    """consumes only fixed characters, no trivia: char / tag / sequences, options and alternatives of those"""
    g = grammar.unlook(g)
    if not isinstance(g, tuple):
        return False
    if g[0] in CONST_TEXT:
        return True
    if g[0] in ("seq", "alt"):
        return all(const_text(e) for e in g[1])
    if g[0] == "opt":
        return const_text(g[1])
    return False


def has_trivia(g):
    """the element yields a Located that carries leading trivia"""
    return isinstance(g, tuple) and g[0] in ("ws", "mws")


def inner_trivia(g):
    """opt(ws(..)) / expect(mws(..)) / map(ws(..), f) — an Option/mapped Located with trivia"""
    while isinstance(g, tuple) and g[0] in ("opt", "expect"):
        g = g[1]
    return has_trivia(g)


def classify_uses(body, name):
    """how a closure body uses binding `name`: set of {'whole','map','trivia','data','span','other-field'}"""
    uses = set()
    # walk with parent context
    def rec(n, parent, pkey):
        if isinstance(n, list):
            for x in n:
                rec(x, parent, pkey)
            return
        if not isinstance(n, dict):
            return
        if n.get("k") == "path" and (n.get("res") or {}).get("dk") == "Local" and n["res"].get("name") == name:
            if parent is not None and parent.get("k") == "field" and pkey == "a":
                fn_ = parent["name"]
                uses.add(fn_ if fn_ in ("data", "span", "trivia") else "other-field")
            elif parent is not None and parent.get("k") == "mcall" and pkey == "recv" and parent.get("name") in ("map", "map_into", "clone"):
                uses.add("map")
            elif parent is not None and parent.get("k") == "mcall" and pkey == "recv" and parent.get("name") in ("is_some", "is_none"):
                uses.add("test")
            elif parent is not None and parent.get("k") == "mcall" and (
                    (pkey == "args" and parent.get("name") in ("or", "xor", "and", "unwrap_or", "get_or_insert", "zip")) or
                    (pkey == "recv" and parent.get("name") in ("and", "xor", "filter", "and_then", "take_if"))):
                # Option combinators that can discard this value although it is present: a.or(b) forgets b when a is Some, a.and(b) forgets a, …
                uses.add("lossy:" + parent["name"])
            else:
                uses.add("whole")
            return
        for key, v in n.items():
            if isinstance(v, (dict, list)):
                if isinstance(v, dict) and v.get("k") in ("addrof",) :
                    rec(v, n, key)
                else:
                    rec(v, n, key)
    # look through addrof/derefs transparently: flatten by replacing
    def flat(n):
        if isinstance(n, dict):
            if n.get("k") == "addrof":
                return flat(n["a"])
            return {k: flat(v) for k, v in n.items()}
        if isinstance(n, list):
            return [flat(x) for x in n]
        return n
    rec(flat(body), None, None)
    return uses


# (function, element) of a dropped constant whose text is printed back by other means, read one by one
DROPPED_CONST_OK = {
}


def r52(ctx, fx):
    rid = ctx.rule("R5.2", "in every `map(sequence, closure)` of the parser: an element wrapped in ws/mws (a Located with leading trivia) that is bound by the "
                   "closure is moved whole into the AST, mapped (map/map_into/clone keep the trivia) or has its `.trivia` read — never used through "
                   "`.data`/`.span` only; an element bound to `_` consumes constant text without trivia, or nothing")
    n = n2 = 0
    for f in sorted(fx.all_fns("mos_core"), key=lambda f: f.path):
        if f.kind != "fn" or not f.path.startswith("mos_core::parser::") or "::tests::" in f.path or "::testing" in f.path:
            continue
        gs = [grammar.fn_grammar(f)] + grammar.applied_parsers(f)
        seen_maps = set()
        for g in gs:
            for t in grammar.walk(g):
                if t[0] != "map" or not isinstance(t[2], dict) or t[2].get("k") != "closure":
                    continue
                clo = t[2]
                cid = clo.get("id")
                if cid in seen_maps:
                    continue
                seen_maps.add(cid)
                inner = t[1]
                params = clo.get("params", [])
                if len(params) != 1:
                    continue
                if inner[0] == "seq" and params[0].get("k") == "tuple" and len(params[0]["pats"]) == len(inner[1]):
                    pairs = list(zip(inner[1], params[0]["pats"]))
                else:
                    pairs = [(inner, params[0])]
                for idx, (e, p) in enumerate(pairs):
                    k = "%s|%s|%d" % (f.path, cid.rsplit("::", 1)[-1] if cid else "?", idx)
                    if p.get("k") == "wild":
                        n += 1
                        e0 = e
                        ok = consumes_nothing(e0) or const_text(e0)
                        ctx.inst(rid, k, sample={"fn": f.path, "element": grammar.short(e)[:60], "bound": "_"})
                        # constant text that is dropped can only come back from the Display of a syntax-tree node that knows it is there: a closure that drops
                        # it and hands back plain text / a number has taken it out of the source for good
                        bty = str(lib.strip(clo["body"]).get("ty", ""))
                        if ok and const_text(e0) and not consumes_nothing(e0) and bty and "mos_core::" not in bty and "LocatedSpan" not in bty:
                            ctx.inst(rid, k + "|dropped-constant", sample={"fn": f.path, "element": grammar.short(e)[:60], "closure_yields": bty[:80]})
                            if (f.path, grammar.short(e)[:40]) not in DROPPED_CONST_OK:
                                ctx.finding(rid, k + "|dropped-constant", "%s drops the text matched by `%s` and hands back a `%s`, not a syntax-tree node: nothing that is "
                                            "printed later knows the text was there, the source is accepted without a diagnostic and not reproduced" % (
                                                f.path.rsplit("::", 1)[1], grammar.short(e)[:60], bty[:60]), "%s:%s" % (f.file, clo.get("ln")))
                        if not ok:
                            ctx.finding(rid, k, "the text matched by `%s` in %s is bound to `_` and dropped from the syntax tree" % (
                                grammar.short(e)[:60], f.path.rsplit("::", 1)[1]), "%s:%s" % (f.file, clo.get("ln")))
                        continue
                    if p.get("k") != "bind":
                        continue
                    if not (has_trivia(e) or inner_trivia(e)):
                        # an element without leading trivia of its own (a nonterminal, a token): it still stands for source text, which must reach the tree
                        if consumes_nothing(e):
                            continue
                        uses = classify_uses(clo["body"], p["name"])
                        lossy = sorted(u for u in uses if u.startswith("lossy:"))
                        n2 += 1
                        ctx.inst(rid, k, sample={"fn": f.path, "element": grammar.short(e)[:60], "bound": p["name"], "uses": sorted(uses)}, nontrivial=bool(lossy))
                        if not uses:
                            ctx.finding(rid, k, "`%s` (text matched by `%s`) is bound and never used in %s: the parser accepts that text and drops it" % (
                                p["name"], grammar.short(e)[:60], f.path.rsplit("::", 1)[1]), "%s:%s" % (f.file, clo.get("ln")))
                        elif lossy and not (uses & {"whole", "map", "data", "other-field"}):
                            ctx.finding(rid, k, "`%s` (text matched by `%s`) only reaches the syntax tree through `Option::%s`, which discards it when the other operand "
                                        "is present: the parser accepts that text and no token, trivia or diagnostic accounts for it" % (
                                            p["name"], grammar.short(e)[:60], lossy[0].split(":")[1]), "%s:%s" % (f.file, clo.get("ln")))
                        continue
                    n += 1
                    uses = classify_uses(clo["body"], p["name"])
                    ctx.inst(rid, k, sample={"fn": f.path, "element": grammar.short(e)[:60], "bound": p["name"], "uses": sorted(uses)})
                    lossy = sorted(u for u in uses if u.startswith("lossy:"))
                    if not uses:
                        ctx.finding(rid, k, "`%s` (text and trivia matched by `%s`) is never used in %s" % (p["name"], grammar.short(e)[:60], f.path.rsplit("::", 1)[1]),
                                    "%s:%s" % (f.file, clo.get("ln")))
                    elif lossy and not (uses & {"whole", "map"}):
                        ctx.finding(rid, k, "`%s` (text matched by `%s`) only reaches the syntax tree through `Option::%s`, which discards it when the other operand is "
                                    "present: the parser accepts that text and no token, trivia or diagnostic accounts for it" % (
                                        p["name"], grammar.short(e)[:60], lossy[0].split(":")[1]), "%s:%s" % (f.file, clo.get("ln")))
                    elif not (uses & {"whole", "map", "trivia"}):
                        ctx.finding(rid, k, "`%s` carries leading trivia (`%s`) but only its %s is used in %s: whitespace/comments in front of it vanish from the tree" % (
                            p["name"], grammar.short(e)[:60], "/".join(sorted(uses)), f.path.rsplit("::", 1)[1]), "%s:%s" % (f.file, clo.get("ln")))
    ctx.floor(rid, 60, "closure parameters bound to trivia-carrying elements")


def r53(ctx, fx, cg):
    rid = ctx.rule("R5.3", "every function that uses nom's `rest` (swallow everything up to the end of input) also reports a diagnostic "
                   "(State::report_error directly, or through `expect` with a non-empty message)")
    users = []
    for f in fx.all_fns("mos_core"):
        if "::tests::" in f.path or "::testing" in f.path:
            continue
        uses = any(lib.pm(r.get("path"), "nom::combinator::rest") for r in f.refs) or \
            any(lib.pm(lib.callee(t)[0], "nom::combinator::rest") for _, t in lib.calls(f))
        if uses:
            users.append(f)
    for f in users:
        owner = f
        while owner.kind == "closure" and owner.d.get("parent") in fx.fns:
            owner = fx.fns[owner.d["parent"]]
        k = "%s" % owner.path
        reports = False
        for o in lib.owned(fx, owner):
            for _, t in lib.calls(o):
                p = lib.callee(t)[0]
                if lib.pm(p, "State::report_error"):
                    reports = True
                if lib.pm(p, "parser::expect"):
                    reports = True
        if owner.d.get("hir"):
            for x, p in lib.hir_calls(owner.hir["body"], "parser::expect"):
                msg = lib.hlit(x["args"][1])
                reports = reports and bool(msg) if msg is not None else reports
        ctx.inst(rid, k, sample={"fn": owner.path, "reports": reports})
        if not reports:
            ctx.finding(rid, k, "%s swallows the rest of the input without reporting anything: whatever the statement parsers could not read "
                        "(e.g. after a stray `)`) is silently ignored and the build succeeds on a prefix of the file" % owner.path.rsplit("::", 1)[1], owner.where)
    if len(users) < 1:
        ctx.fail_closed(rid, "no user of nom::combinator::rest found (anchor moved)")


def r54(ctx, fx):
    rid = ctx.rule("R5.4", "parse_with_instance applies all_consuming(source_file); the recovery parser stores the matched fragment in Token::Error and "
                   "reports it with a label")
    pw = fx.fn("mos_core::parser::parse_with_instance")
    ctx.inst(rid, "parse_with_instance|all_consuming")
    if pw is None:
        ctx.fail_closed(rid, "parse_with_instance not found")
    else:
        ap = grammar.applied_parsers(pw)
        ok = any(g[0] == "all_consuming" and g[1][0] == "nt" and g[1][1] == "mos_core::parser::source_file" for g in ap)
        if not ok:
            ctx.finding(rid, "parse_with_instance|all_consuming", "the file parser is not all_consuming(source_file): trailing input could be left unread", pw.where)
    sf = fx.fn("mos_core::parser::source_file")
    ctx.inst(rid, "source_file|shape")
    if sf is None:
        ctx.fail_closed(rid, "source_file not found")
    else:
        g = grammar.fn_grammar(sf)
        s = grammar.short(g)
        if s != "map(seq(many0(alt(statement, error)), eof))":
            ctx.finding(rid, "source_file|shape", "source_file must be many0(alt(statement, error)) followed by eof; it is %s" % s, sf.where)
    ei = fx.fn("mos_core::parser::error_impl")
    ctx.inst(rid, "error_impl|keeps-text")
    if ei is None:
        ctx.fail_closed(rid, "error_impl not found")
    else:
        has_report = any(True for _ in lib.hir_calls(ei.hir["body"], "State::report_error"))
        has_label = any(x.get("k") == "mcall" and x.get("name") == "with_labels" for x in lib.hwalk(ei.hir["body"]))
        keeps = False
        for x in lib.hwalk(ei.hir["body"]):
            if x.get("k") == "call" and lib.pm(lib.hcallee(x), "Token::Error"):
                # argument derives from map_into(|i| i.fragment().to_string())
                keeps = True
        # the token's text is the matched fragment: input.map_into(|i| i.fragment().to_string())
        frag = False
        for x in lib.hwalk(ei.hir["body"]):
            if x.get("k") == "mcall" and x.get("name") in ("map_into", "map") and x.get("args"):
                clo = lib.strip(x["args"][0])
                if clo.get("k") == "closure" and any(y.get("k") == "mcall" and y.get("name") == "fragment" for y in lib.hwalk(clo.get("body", {}))):
                    frag = True
        if not (has_report and has_label and keeps and frag):
            ctx.finding(rid, "error_impl|keeps-text", "the recovery parser must keep the unparsed text in Token::Error and report it with a label "
                        "(report=%s label=%s token=%s fragment=%s)" % (has_report, has_label, keeps, frag), ei.where)


def r55(ctx, fx):
    rid = ctx.rule("R5.5", "case normalisation in the printer applies to the keyword only: the receiver of to_uppercase is never the rendering of a whole "
                   "`Located` (trivia + data) — otherwise a comment in front of a directive is upper-cased too")
    n = 0
    for ty in PRINTERS:
        disp = fx.fn("<%s as core::fmt::Display>::fmt" % ty)
        if disp is None:
            continue
        seen = 0
        for x in lib.hwalk(disp.hir["body"]):
            if x.get("k") == "mcall" and x.get("name") == "to_uppercase":
                recv = lib.strip(x["recv"])
                # what is being rendered? find Located-typed expressions inside the receiver that are formatted whole
                whole = None
                if recv.get("k") == "mcall" and recv.get("name") == "to_string":
                    t = (lib.strip(recv["recv"]).get("ty") or "").lstrip("&")
                    if t.startswith(LOCATED):
                        whole = lib.hdesc(recv["recv"])
                else:
                    for y in lib.hwalk(recv):
                        if y.get("k") == "call" and lib.pm(lib.hcallee(y), "Argument::new_display"):
                            # the formatted argument: args tuple built from &tag
                            pass
                    # format!("{}", tag): the `args` tuple holds &tag
                    for y in lib.hwalk(recv):
                        if y.get("k") == "tup" and y.get("exp"):
                            for e in y["es"]:
                                t = (lib.strip(e).get("ty") or "").lstrip("&")
                                if t.startswith(LOCATED):
                                    whole = lib.hdesc(e)
                if whole is None and recv.get("k") not in ("path",):
                    # closure parameter |t| t.to_uppercase() inside .map — fine
                    pass
                seen += 1
                n += 1
                k = "%s|to_uppercase#%d" % (ty[len(AST):], seen)
                ctx.inst(rid, k, sample={"printer": ty[len(AST):], "line": x.get("ln"), "receiver_is_whole_located": whole is not None})
                if whole is not None:
                    ctx.finding(rid, k, "to_uppercase is applied to the rendering of a whole Located (%s): its leading trivia (comments) is upper-cased as well" % (whole,),
                                "%s:%s" % (disp.file, x.get("ln")))
    ctx.floor(rid, 10, "to_uppercase sites in the printer")


def r56(ctx, fx):
    rid = ctx.rule("R5.6", "text taken from the source is kept as it was written: no function of the parser (syntax tree constructors and combinator closures; the code "
                   "map and the Display impls, whose case normalisation R5.5 covers, aside) removes or replaces characters of a string — str::replace / replacen / "
                   "trim* / strip_prefix / strip_suffix, String::retain / truncate / remove, a `filter` over its characters. What such a call drops from the spelling "
                   "of a literal (digit separators, padding) is missing from the re-rendered file although the file parsed without diagnostics")
    ALTER = ("replace", "replacen", "trim", "trim_start", "trim_end", "trim_matches", "trim_start_matches", "trim_end_matches", "strip_prefix", "strip_suffix",
             "retain", "truncate", "remove", "filter", "drain")
    n = 0
    seen = {}
    for f in sorted(fx.all_fns("mos_core"), key=lambda f: f.path):
        if "::tests::" in f.path or "::testing" in f.path or "mos_core::parser" not in f.path or not f.d.get("hir") or f.kind == "closure":
            continue
        if "::code_map::" in f.path or f.path.endswith("::fmt") or "::source::" in f.path:
            continue
        n += 1
        hits = []
        from .c11 import _anc_walk
        PRED = ("starts_with", "ends_with", "is_empty", "eq", "ne", "contains", "len", "eq_ignore_ascii_case", "is_char_boundary")
        for x, anc in _anc_walk(f.hir["body"]):
            if x.get("k") == "mcall" and x.get("name") in ALTER:
                rt = str(lib.strip(x["recv"]).get("ty", ""))
                if not ("str" in rt or "String" in rt or "Chars" in rt or "LocatedSpan" in rt or "CharIndices" in rt):
                    continue
                # a question put to the shortened text (`t.trim_start().starts_with(..)`, `== ..`) keeps nothing of it: that is R8.6's business, not this rule's
                par = anc[-1][0] if anc else {}
                if (par.get("k") == "mcall" and anc[-1][1] == "recv" and par.get("name") in PRED) or (par.get("k") == "binary" and par.get("op") in ("Eq", "Ne")):
                    continue
                hits.append((x["name"], x.get("ln")))
        if not hits:
            ctx.inst(rid, f.path, nontrivial=False)
        for name, ln in hits:
            seen[f.path] = seen.get(f.path, 0) + 1
            k = "%s|alters-source-text#%d" % (f.path, seen[f.path])
            ctx.inst(rid, k, sample={"fn": f.path, "call": name, "line": ln})
            ctx.finding(rid, k, "%s changes text taken from the source (`%s`): what it removes is accepted by the grammar, reported by no diagnostic and absent from the "
                        "re-rendered file" % (f.path.rsplit("::", 2)[-2] + "::" + f.path.rsplit("::", 1)[-1], name), "%s:%s" % (f.file, ln))
    ctx.floor(rid, 100, "parser bodies scanned")


def _irrefutable(p):
    k = p.get("k")
    if k == "wild":
        return True
    if k == "bind":
        return not p.get("sub") or _irrefutable(p["sub"])
    if k == "tuple":
        return all(_irrefutable(q) for q in p["pats"])
    if k == "ref":
        return _irrefutable(p["sub"])
    return False


def _covers_all_some(p):
    """the pattern matches every `Some(..)` (alternatives of an or-pattern count one by one)"""
    k = p.get("k")
    if k == "or":
        return any(_covers_all_some(q) for q in p["pats"])
    if k == "ref":
        return _covers_all_some(p["sub"])
    if k == "bind":
        return True if not p.get("sub") else _covers_all_some(p["sub"])
    if k == "tstruct" and str((p.get("res") or {}).get("path", "")).endswith("Option::Some"):
        return all(_irrefutable(q) for q in p.get("pats", []))
    return False


def r57(ctx, fx):
    rid = ctx.rule("R5.7", "an optional group the grammar matched (`opt(tuple((lparen, …, rparen)))`: an `Option` that holds Located elements) is taken apart completely: "
                   "where a parser function matches on such a value and has a catch-all `_` arm, an earlier arm without guard matches every `Some(..)` — otherwise the "
                   "`_` arm, written for `None`, also takes the cases the refutable arms leave over (the parentheses are there, the list between them is not), and the "
                   "text of those elements is in no token and in no diagnostic")
    n = 0
    j = 0
    for f in sorted(fx.all_fns("mos_core"), key=lambda f: f.path):
        if f.kind != "fn" or not f.path.startswith("mos_core::parser::") or "::tests::" in f.path or "::testing" in f.path or not f.d.get("hir"):
            continue
        if "::code_map::" in f.path or "::source::" in f.path:
            continue
        for m in lib.hwalk(f.hir["body"]):
            if m.get("k") != "match" or m.get("src") != "Normal":
                continue
            ty = str(lib.strip(m["scrut"]).get("ty", ""))
            if not (ty.startswith(("core::option::Option<", "std::option::Option<", "Option<")) and "Located<" in ty):
                continue
            n += 1
            wild = [a for a in m["arms"] if a["pat"].get("k") == "wild" and not a.get("guard")]
            covered = any(_covers_all_some(a["pat"]) and not a.get("guard") for a in m["arms"])
            key = "%s|match-on-optional-group#%d" % (f.path, n)
            ctx.inst(rid, key, sample={"fn": f.path, "line": m.get("ln"), "scrutinee": ty[:90], "catch_all": bool(wild), "some_covered": covered})
            if wild and not covered:
                j += 1
                ctx.finding(rid, "%s|catch-all-takes-some#%d" % (f.path, j),
                            "%s matches on an optional group of parsed elements with a catch-all `_` arm, and no arm matches every `Some(..)`: when the group is there "
                            "but an inner part is not (`.trace()` — parentheses without a list), the `_` arm drops the elements of the group; their text and the "
                            "comments attached to them are accepted without a diagnostic and printed back by nothing" % f.path.rsplit("::", 1)[-1],
                            "%s:%s" % (f.file, m.get("ln")))
    ctx.inst(rid, "scan", sample={"matches_on_optional_groups": n})


def run(ctx):
    fx = ctx.facts
    cg = lib.CallGraph(fx)
    r57(ctx, fx)
    r51(ctx, fx)
    r52(ctx, fx)
    r53(ctx, fx, cg)
    r54(ctx, fx)
    r55(ctx, fx)
    r56(ctx, fx)
    ctx.not_decided("that the trivia parsers partition arbitrary text correctly; byte-for-byte equality of re-rendered text on concrete files")
