"""C06 — every input terminates cleanly (structural clauses).

 R6.1 no user-controlled integer reaches a panicking arithmetic primitive (MIR Assert: overflow, division/remainder,
      negation, shift, bounds) without a recognised dominating guard               [taint USERINT → Assert]
 R6.2 … nor an allocation size, a slice/str index, or the trip count of a loop       [taint USERINT → call sinks]
 R6.3 no unwrap/expect on the result of converting literal text to a number
 R6.4 no user-controlled string reaches an asserting constructor (Identifier::new)  [taint USERSTR]
 R6.5 the pass loop has a finite bound (shipped configuration) and leaving through it reports a diagnostic
 R6.7 no unwrap/expect on a Result<_, Diagnostics> in the assembler core (a user error turned into a panic)
"""
from . import lib, taint

USERINT_SOURCES = ["Number::value", "CodegenContext::evaluate_expression_as_i64", "ConfigExtractor::try_get_i64",
                   "ConfigExtractor::get_i64"]
USERINT_FIELDS = [("SymbolData::Number", "0")]

USERSTR_SOURCES = ["ConfigExtractor::get_string", "ConfigExtractor::try_get_string", "CodegenContext::evaluate_expression_as_string",
                   "Evaluator::interpolate"]

ARITH = ("Overflow(", "OverflowNeg", "DivisionByZero", "RemainderByZero", "BoundsCheck")

# Assert sinks whose operands carry the label but are bounded, each confirmed by reading.  key: (fn path, assert kind) -> (count, reason)
SAFE_ASSERTS = {
    ("mos_core::io::binary_writer::Bank::merge", "Overflow(Sub)"):
        (4, "operands are ranges of *non-empty* segments (merge_segments filters out segments nothing was emitted to — checked by C09 R9.6 — and every "
            "emission passed Segment::emit's ≤ $10000 check); the subtrahend is the min()/the smaller one by the enclosing comparison"),
    ("mos_core::io::binary_writer::Bank::prg_header", "Overflow(Shr)"):
        (1, "shift by the constant 8"),
    ("mos_core::io::binary_writer::BinaryWriter::merge_segments", "Overflow(Sub)"):
        (2, "`size - data.len()` only in the Ordering::Less arm (size > len)"),
    ("mos_core::io::listing::to_listing", "Overflow(Sub)"):
        (3, "`offset.pc.end - offset.pc.start` of a source-map entry (end = start + len by construction) and `stored_at - range.start` under the enclosing "
            "`range.start <= stored_at` test"),
    ("mos_core::io::listing::to_listing", "Overflow(Add)"):
        (3, "addresses ≤ $10000 plus lengths ≤ $10000"),
    ("mos_core::io::listing::to_listing", "BoundsCheck"):
        (1, "index computed from a range contained in the segment range"),
    ("<mos::debugger::adapters::vice::ViceAdapter as mos::debugger::adapters::MachineAdapter>::set_breakpoints", "Overflow(Sub)"):
        (1, "debugger (VICE) breakpoint range: end address of a source-map entry minus one, entries are non-empty"),
}


def own_path(fx, f):
    o = f
    while o.kind == "closure" and o.d.get("parent") in fx.fns:
        o = fx.fns[o.d["parent"]]
    return o.path


def r61(ctx, fx, T, scope):
    rid = ctx.rule("R6.1", "label USERINT (sources: literal values, evaluated expressions, config integers, SymbolData::Number) must not reach an operand of a "
                   "MIR Assert (overflow of + - * / % neg << >>, division/remainder by zero, bounds) unless a dominating guard on the same value is recognised "
                   "(switch excluding 0 for division) or the site is tabled as bounded")
    seen = {}
    n_all = 0
    bounds = {}
    for f in sorted(fx.all_fns(), key=lambda f: f.path):
        if "::tests::" in f.path or "::testing" in f.path or f.id not in scope:
            continue
        for bi, b in enumerate(f.blocks):
            t = b["term"]
            if t["k"] != "assert" or b["cleanup"]:
                continue
            n_all += 1
            if not t["kind"].startswith(ARITH):
                continue
            tops = [o for o in t["ops"] if T.op_tainted(f.id, o)]
            if not tops:
                continue
            kind = t["kind"]
            kk = (f.path, kind)
            seen[kk] = seen.get(kk, 0) + 1
            key = "%s|%s#%d" % (f.path, kind, seen[kk])
            guarded = False
            bd = bounds.get(f.id)
            if bd is None:
                bd = bounds[f.id] = taint.Bounds(fx, f)
            rs = [bd.range_of(o, bi) for o in t["ops"]]
            if kind.startswith("Overflow(") and kind[9:-1] in ("Add", "Sub", "Mul") and all(r is not None for r in rs):
                guarded = True      # both operands lie in small constant ranges
            if kind in ("DivisionByZero", "RemainderByZero", "Overflow(Div)", "Overflow(Rem)"):
                # divisor = the right operand of the Div/Rem in the target block / the x of `Eq(x, 0)`
                div = None
                for s_ in b["stmts"]:
                    if s_["k"] == "assign" and s_["rv"]["k"] == "binop" and s_["rv"]["op"] == "Eq" and lib.const_int(s_["rv"]["r"]) in (0, -1):
                        div = s_["rv"]["l"]
                if div is not None:
                    r = bd.range_of(div, bi)
                    if r is not None and r[0] >= 1:
                        guarded = True
            if kind in ("DivisionByZero", "RemainderByZero"):
                # the Assert's operand is the dividend; the divisor is the x in `cond = Eq(x, 0)`
                cl = lib.op_local(t["cond"])
                for s_ in b["stmts"]:
                    if s_["k"] == "assign" and s_["dst"]["l"] == cl and s_["rv"]["k"] == "binop" and s_["rv"]["op"] == "Eq" and \
                            lib.const_int(s_["rv"]["r"]) == 0:
                        guarded = guarded or taint.guarded_nonzero(f, bi, s_["rv"]["l"])
            why = [T.explain(f.id, lib.op_place(o)["l"]) for o in tops]
            ctx.inst(rid, key, sample={"fn": f.path, "assert": kind, "line": t.get("line"), "guarded": guarded, "flow": why[:2]})
            if guarded:
                continue
            safe = SAFE_ASSERTS.get(kk)
            if safe and seen[kk] <= safe[0]:
                continue
            ctx.finding(rid, key, "a value the program text controls reaches `%s` in %s: the assembler panics instead of reporting a diagnostic" % (
                kind, f.path.rsplit("::", 1)[-1] if not f.path.startswith("<") else f.path), "%s:%s" % (f.file, t.get("line")), flow=why[:3])
    ctx.extra["asserts_scanned"] = n_all
    # with overflow checks compiled out (the release-like profile of the thorough tier) only division / remainder / bounds asserts remain
    ctx.floor(rid, 15 if fx.profile != "rel" else 2, "labelled Assert sinks")


ALLOC_SINKS = {  # callee suffix -> index of the size argument
    "alloc::vec::from_elem": 1, "Vec::resize": 1, "Vec::with_capacity": 0, "Vec::reserve": 1, "str::repeat": 1,
}
INDEX_SINKS = ("core::ops::index::Index::index", "core::ops::index::IndexMut::index_mut", "str::split_at", "slice::split_at",
               "Vec::remove", "Vec::insert", "Vec::swap_remove", "Vec::drain", "Vec::splice")

SAFE_CALLS = {
    ("mos_core::codegen::segment::Segment::emit", "Vec::splice"):
        (1, "dominated by the `start > 0xffff || end > 0x10000 → return false` guard in the same function"),
    ("mos_core::io::binary_writer::Bank::merge", "alloc::vec::from_elem"):
        (3, "sizes are differences of ranges of non-empty segments (see above), bounded by $10000"),
    ("mos_core::io::binary_writer::Bank::merge", "core::ops::index::IndexMut::index_mut"):
        (1, "range relative to the merged bank range that was just grown to contain it"),
    ("mos_core::codegen::segment::Segment::range_data", "core::ops::index::Index::index"):
        (1, "the segment's own range inside its 64 KiB buffer"),
}


def r62(ctx, fx, T, scope):
    rid = ctx.rule("R6.2", "label USERINT must not reach an allocation size (vec![x; n], Vec::resize/with_capacity, str::repeat), a slice/str/Vec index "
                   "(Index::index, split_at, remove, splice, …) or the end of a Range that drives a `for` loop, unless tabled as bounded")
    seen = {}
    bounds = {}
    for f in sorted(fx.all_fns(), key=lambda f: f.path):
        if "::tests::" in f.path or "::testing" in f.path or f.id not in scope:
            continue
        ranges = set()
        for _, _, s in lib.stmts(f):
            if s["k"] == "assign" and s["rv"]["k"] == "agg" and s["rv"].get("adt") in ("core::ops::range::Range", "core::ops::range::RangeInclusive"):
                if any(T.op_tainted(f.id, o) for o in s["rv"]["ops"]):
                    ranges.add(s["dst"]["l"])
        for bi, t in lib.calls(f):
            pn = lib.norm(lib.callee(t)[0] or "")
            what = None
            for sfx, idx in ALLOC_SINKS.items():
                if lib.pm(pn, sfx) and idx < len(t["args"]) and T.op_tainted(f.id, t["args"][idx]):
                    what = ("alloc", sfx)
            for sfx in INDEX_SINKS:
                if lib.pm(pn, sfx) and len(t["args"]) > 1 and any(T.op_tainted(f.id, a) for a in t["args"][1:]):
                    what = ("index", sfx)
            if lib.pm(pn, "IntoIterator::into_iter") and t["args"]:
                l = lib.op_local(t["args"][0])
                if l in ranges and "core::ops::range::Range" in f.locals[l]["ty"]:
                    what = ("loop", "for-range")
            if what is None:
                continue
            kk = (f.path, what[1])
            seen[kk] = seen.get(kk, 0) + 1
            key = "%s|%s#%d" % (f.path, what[1], seen[kk])
            ctx.inst(rid, key, sample={"fn": f.path, "sink": what[1], "line": t.get("line")})
            safe = SAFE_CALLS.get(kk)
            if safe and seen[kk] <= safe[0]:
                continue
            if what[0] == "alloc":
                bd = bounds.get(f.id)
                if bd is None:
                    bd = bounds[f.id] = taint.Bounds(fx, f)
                if bd.range_of(t["args"][ALLOC_SINKS[what[1]]], bi) is not None:
                    continue      # the size lies in a small constant range (dominating range check)
            msg = {"alloc": "the size of an allocation (%s) is controlled by the program text: a huge value aborts the process",
                   "index": "an index/range handed to %s is controlled by the program text: out of range panics",
                   "loop": "the trip count of a `for` over a range (%s) is controlled by the program text with no upper bound: assembly does not terminate in practice"}[what[0]]
            ctx.finding(rid, key, (msg % what[1]) + " (in %s)" % f.path, "%s:%s" % (f.file, t.get("line")))
    ctx.floor(rid, 4, "labelled call sinks")


STR_SLICE_OK = {
    "mos_core::parser::code_map::File::find_line_col": (1, "byte column inside a line span; spans are parser positions, i.e. token boundaries, hence char boundaries"),
    "mos_core::parser::code_map::File::source_slice": (1, "spans are parser positions (token boundaries); asserted to lie inside the file"),
}


def r68(ctx, fx, scope):
    rid = ctx.rule("R6.8", "text of the program is never sliced at a computed byte offset (str::split_at, str/String range indexing) unless the offset is "
                   "known to be a char boundary: dominated by `is_char_boundary` on the same offset, or tabled (offsets that are parser positions)")
    from .c04 import dst_switch_true_succ
    seen = {}
    n = 0
    for f in sorted(fx.all_fns(), key=lambda f: f.path):
        if "::tests::" in f.path or f.id not in scope:
            continue
        du = None
        for bi, t in lib.calls(f):
            p, fr = lib.callee(t)
            pn = lib.norm(p or "")
            full = fr.get("full", "")
            is_split = pn.endswith("str::split_at") or pn.endswith("str::split_at_mut")
            is_index = ("Index" in pn and pn.endswith("index") and ("Range" in full) and
                        ("<str as" in full or "<alloc::string::String as" in full or " for str>" in full))
            if not (is_split or is_index):
                continue
            n += 1
            seen[f.path] = seen.get(f.path, 0) + 1
            key = "%s|str-slice#%d" % (f.path, seen[f.path])
            if du is None:
                du = lib.DefUse(f)
            # the offset operand(s)
            guarded = False
            if is_split:
                idx = t["args"][1]
                for bj, t2 in lib.calls(f):
                    if lib.norm(lib.callee(t2)[0] or "").endswith("str::is_char_boundary"):
                        ts = dst_switch_true_succ(f, bj)
                        same = lib.const_int(idx) is not None and lib.const_int(idx) == lib.const_int(t2["args"][1])
                        if not same:
                            a, b = lib.op_local(idx), lib.op_local(t2["args"][1])
                            if a is not None and b is not None:
                                oa, ob = du.single_def(a), du.single_def(b)
                                same = a == b or (oa and ob and oa[2] == "assign" and ob[2] == "assign" and oa[3]["rv"] == ob[3]["rv"])
                        if ts is not None and same and lib.dominates(f, ts, bi):
                            guarded = True
            ctx.inst(rid, key, sample={"fn": f.path, "call": pn.rsplit("::", 2)[-2] + "::" + pn.rsplit("::", 1)[-1], "line": t.get("line"), "guarded": guarded})
            if guarded:
                continue
            ok = STR_SLICE_OK.get(f.path)
            if ok and seen[f.path] <= ok[0]:
                continue
            ctx.finding(rid, key, "%s slices text at a computed byte offset (line %s): when the offset falls inside a multi-byte character the process panics "
                        "(`not a char boundary`)" % (f.path, t.get("line")), "%s:%s" % (f.file, t.get("line")))
    if n < 3:
        ctx.fail_closed(rid, "fewer than 3 string-slicing sites found in scope (%d)" % n)


def r69(ctx, fx):
    rid = ctx.rule("R6.9", "recursion that follows the import graph is guarded: in the Import arm of emit_token the emission of the imported file's tokens is preceded, "
                   "on every path, by a membership test of the resolved path on a stack of files being imported (whose hit returns an error), and the push is "
                   "paired with a pop that an error of the body cannot skip")
    et = fx.fn("mos_core::codegen::CodegenContext::emit_token")
    if et is None:
        ctx.fail_closed(rid, "emit_token not found")
        return
    arm = None
    for n in lib.hwalk(et.hir["body"]):
        if n.get("k") == "match":
            for a in n["arms"]:
                pk = lib.pat_key(a["pat"])
                if isinstance(pk, str) and pk.split("(")[0] == "mos_core::parser::ast::Token::Import":
                    arm = a
            break
    key = "emit_token|Import|cycle-guard"
    ctx.inst(rid, key)
    if arm is None:
        ctx.fail_closed(rid, "Token::Import arm not found")
        return
    guard = None
    for n in lib.hwalk(arm["body"]):
        if n.get("k") == "if":
            d = repr(lib.hdesc(n["cond"]))
            if "contains" in d and "resolved_path" in d and any(r.get("k") == "ret" and lib.pm(lib.hcallee(lib.strip(r.get("a", {}))), "Result::Err") for r in lib.hwalk(n["then"])):
                guard = n
    emits = [x for x, p in lib.hir_calls(arm["body"], "CodegenContext::emit_tokens") if "imported_file_tokens" in repr(lib.hdesc(lib.hargs(x)[1])) or "tokens" in repr(lib.hdesc(lib.hargs(x)[1]))]
    if guard is None:
        ctx.finding(rid, key, "the Import arm expands the imported file without checking whether that file is already being imported: a file that imports itself "
                    "(directly or through others) recurses until the stack overflows", "%s:%s" % (et.file, arm.get("ln")))
    elif not emits or any(e.get("ln", 0) < guard.get("ln", 0) for e in emits):
        ctx.finding(rid, key, "imported tokens are emitted before the cycle check", "%s:%s" % (et.file, arm.get("ln")))
    # what is looked for on the stack is what is put there: the membership test and the push name the same value
    key3 = "emit_token|Import|same-path"
    ctx.inst(rid, key3)
    if guard is not None:
        tested = set()
        for x in lib.hwalk(guard["cond"]):
            if x.get("k") == "mcall" and x.get("name") == "contains" and "import_stack" in repr(lib.hdesc(x["recv"])):
                tested |= {lib.hpath(y) for y in lib.hwalk(x["args"][0]) if y.get("k") == "path" and (y.get("res") or {}).get("dk") == "Local"}
        pushed = set()
        for x in lib.hwalk(arm["body"]):
            if x.get("k") == "mcall" and x.get("name") == "push" and lib.hdesc(x["recv"])[:2] == ("f", "import_stack"):
                pushed |= {lib.hpath(y) for y in lib.hwalk(x["args"][0]) if y.get("k") == "path" and (y.get("res") or {}).get("dk") == "Local"}
        if tested and pushed and not (tested & pushed):
            ctx.finding(rid, key3, "the cycle check looks for `%s` on the import stack, but what is pushed there is `%s`: when the two differ (a path spelled with `..` "
                        "against its normalised form) a cycle is never found and the expansion recurses until the stack overflows" % (
                            "/".join(sorted(t for t in tested if t)), "/".join(sorted(t for t in pushed if t))), "%s:%s" % (et.file, guard.get("ln")))
    # push / pop pairing around the with_scope call: result bound, pop, then `?`
    key2 = "emit_token|Import|stack-balanced"
    ctx.inst(rid, key2)
    seq = []
    for n in lib.hwalk(arm["body"]):
        if n.get("k") == "mcall" and lib.hdesc(n["recv"])[:2] == ("f", "import_stack") and n.get("name") in ("push", "pop"):
            seq.append((n.get("ln"), n["name"]))
        if n.get("k") in ("mcall", "call") and lib.pm(lib.hcallee(n), "CodegenContext::with_scope"):
            seq.append((n.get("ln"), "scope"))
    names = [x[1] for x in sorted(seq)]
    if guard is not None and names != ["push", "scope", "pop"]:
        ctx.finding(rid, key2, "the import stack is not pushed before and popped after the import's emission (%s)" % names, "%s:%s" % (et.file, arm.get("ln")))
    # no exit between the push and the pop: outside the closure handed to with_scope, no `?` and no `return` lies between them
    if guard is not None and names == ["push", "scope", "pop"]:
        pos = dict((nm, ln) for ln, nm in seq)

        def outside_closures(n):
            stack = [n]
            while stack:
                x = stack.pop()
                if isinstance(x, dict):
                    if x.get("k") == "closure":
                        continue
                    yield x
                    stack.extend(v for v in x.values() if isinstance(v, (dict, list)))
                elif isinstance(x, list):
                    stack.extend(v for v in x if isinstance(v, (dict, list)))
        exits = [x for x in outside_closures(arm["body"])
                 if ((x.get("k") == "match" and str(x.get("src", "")).startswith("TryDesugar")) or x.get("k") == "ret")
                 and x.get("ln") is not None and pos["push"] < x["ln"] < pos["pop"] or
                 (x.get("k") == "match" and str(x.get("src", "")).startswith("TryDesugar") and x.get("ln") == pos["scope"])]
        if exits:
            ctx.finding(rid, key2 + "|early-return", "an error of the imported file's emission leaves the function before the import stack is popped: the file stays "
                        "on the stack and every later import of it is reported as cyclic", "%s:%s" % (et.file, exits[0].get("ln")))


def r611(ctx, fx):
    rid = ctx.rule("R6.11", "recursion that follows macro invocations is bounded: the MacroInvocation arm of emit_token compares a depth counter of the context with a "
                   "constant (≤ 256) and returns an error beyond it, before it expands the body; the counter is incremented before and decremented after the "
                   "expansion with no `?`/`return` in between")
    et = fx.fn("mos_core::codegen::CodegenContext::emit_token")
    if et is None:
        ctx.fail_closed(rid, "emit_token not found")
        return
    arm = None
    for n in lib.hwalk(et.hir["body"]):
        if n.get("k") == "match":
            for a in n["arms"]:
                pk = lib.pat_key(a["pat"])
                if isinstance(pk, str) and pk.split("(")[0] == "mos_core::parser::ast::Token::MacroInvocation":
                    arm = a
            if arm:
                break
    key = "emit_token|MacroInvocation|depth-guard"
    ctx.inst(rid, key)
    if arm is None:
        ctx.fail_closed(rid, "Token::MacroInvocation arm not found")
        return
    guard = None
    for n in lib.hwalk(arm["body"]):
        if n.get("k") == "if":
            d = repr(lib.hdesc(n["cond"]))
            if "macro_depth" in d and any(r.get("k") == "ret" and lib.pm(lib.hcallee(lib.strip(r.get("a", {}))), "Result::Err") for r in lib.hwalk(n["then"])):
                guard = n
    scopes = [x for x in lib.hwalk(arm["body"]) if x.get("k") in ("mcall", "call") and lib.pm(lib.hcallee(x), "CodegenContext::with_scope")]
    if guard is None:
        ctx.finding(rid, key, "a macro invocation is expanded without a bound on the nesting depth: a macro that (directly or through others) invokes itself recurses "
                    "until the stack overflows", "%s:%s" % (et.file, arm.get("ln")))
        return
    if not scopes or any((x.get("ln") or 0) < (guard.get("ln") or 0) for x in scopes):
        ctx.finding(rid, key, "the macro body is expanded before the depth check", "%s:%s" % (et.file, arm.get("ln")))
    key2 = "emit_token|MacroInvocation|depth-balanced"
    ctx.inst(rid, key2)
    incs = [x for x in lib.hwalk(arm["body"]) if x.get("k") == "assignop" and lib.hdesc(x["l"])[:2] == ("f", "macro_depth")]
    ops = sorted((x.get("ln") or 0, x.get("op")) for x in incs)
    sc_ln = min((x.get("ln") or 0) for x in scopes) if scopes else 0
    names = [o for _, o in ops]
    if names != ["AddAssign", "SubAssign"] or not (ops[0][0] <= sc_ln <= ops[1][0]):
        ctx.finding(rid, key2, "the macro depth counter is not incremented before and decremented after the expansion (%s)" % names, "%s:%s" % (et.file, arm.get("ln")))
        return
    # no exit between the increment and the decrement outside the closure
    def outside_closures(n):
        stack = [n]
        while stack:
            x = stack.pop()
            if isinstance(x, dict):
                if x.get("k") == "closure":
                    continue
                yield x
                stack.extend(v for v in x.values() if isinstance(v, (dict, list)))
            elif isinstance(x, list):
                stack.extend(v for v in x if isinstance(v, (dict, list)))
    exits = [x for x in outside_closures(arm["body"])
             if ((x.get("k") == "match" and str(x.get("src", "")).startswith("TryDesugar")) or x.get("k") == "ret") and x.get("ln") is not None and
             (ops[0][0] < x["ln"] < ops[1][0] or (x.get("k") == "match" and x["ln"] == sc_ln))]
    if exits:
        ctx.finding(rid, key2 + "|early-return", "an error inside a macro body leaves the function before the depth counter is decremented: every later invocation "
                    "starts one level deeper", "%s:%s" % (et.file, exits[0].get("ln")))


def r63(ctx, fx):
    rid = ctx.rule("R6.3", "no unwrap/expect on the result of from_str_radix / str::parse applied to text captured by the parser")
    n = 0
    for f in sorted(fx.all_fns("mos_core"), key=lambda f: f.path):
        if not f.d.get("hir") or "::tests::" in f.path or "::testing" in f.path:
            continue
        k0 = 0
        for x in lib.hwalk(f.hir["body"]):
            if x.get("k") == "mcall" and x.get("name") in ("unwrap", "expect"):
                inner = [lib.norm(p) for _, p in lib.hir_calls(x["recv"]) if p]
                conv = [p for p in inner if p.endswith("::from_str_radix") or p.endswith("str::parse") or p.endswith("FromStr::from_str")]
                if not conv:
                    continue
                k0 += 1
                n += 1
                key = "%s|unwrap-conv#%d" % (f.path, k0)
                ctx.inst(rid, key, sample={"fn": f.path, "conversion": conv[0], "line": x.get("ln")})
                ctx.finding(rid, key, "%s unwraps the result of %s: a literal that does not fit (or is not a number at all) panics the assembler" % (
                    f.path.rsplit("::", 1)[-1], conv[0].rsplit("::", 1)[-1]), "%s:%s" % (f.file, x.get("ln")))
    # canary-style floor: the conversion call itself must exist somewhere, otherwise the anchor moved
    convs = 0
    for f in fx.all_fns("mos_core"):
        for _, t in lib.calls(f):
            if lib.pm(lib.callee(t)[0], "from_str_radix"):
                convs += 1
                ctx.inst(rid, "%s|from_str_radix" % f.path, nontrivial=False)
    if convs == 0:
        ctx.fail_closed(rid, "no call of from_str_radix found in mos_core (literal conversion moved?)")


STR_CARRIER = taint.make_carrier({"alloc::string::String", "str"}, extra_wrappers=("alloc::borrow::Cow",))


def r64(ctx, fx):
    rid = ctx.rule("R6.4", "label USERSTR (config strings, evaluated string expressions, interpolation results) must not reach the asserting constructor "
                   "Identifier::new (panics on a `.`)")
    T = taint.Taint(fx, "USERSTR", source_calls=USERSTR_SOURCES, carrier=STR_CARRIER)
    seen = {}
    total = 0
    for f in sorted(fx.all_fns(), key=lambda f: f.path):
        if "::tests::" in f.path or "::testing" in f.path:
            continue
        for bi, t in lib.calls(f):
            pn = lib.norm(lib.callee(t)[0] or "")
            if not lib.pm(pn, "Identifier::new"):
                continue
            total += 1
            if not (t["args"] and T.op_tainted(f.id, t["args"][0])):
                ctx.inst(rid, "%s|Identifier::new|clean#%d" % (f.path, total), nontrivial=False)
                continue
            seen[f.path] = seen.get(f.path, 0) + 1
            key = "%s|Identifier::new#%d" % (own_path(fx, f), seen[f.path])
            ctx.inst(rid, key, sample={"fn": f.path, "line": t.get("line"), "flow": T.explain(f.id, lib.op_place(t["args"][0])["l"])})
            ctx.finding(rid, key, "a string from the program text reaches Identifier::new (asserts `no period`) in %s: e.g. a segment or bank named `a.b` "
                        "panics the assembler" % f.path, "%s:%s" % (f.file, t.get("line")))
        # Option<String>::map(Identifier::new): the fn item passed as a value
        for bi, t in lib.calls(f):
            pn = lib.norm(lib.callee(t)[0] or "")
            if pn.endswith("Option::map") and len(t["args"]) == 2:
                c = lib.op_const(t["args"][1])
                if c and "fn" in c and lib.pm(c["fn"]["path"], "Identifier::new") and T.op_tainted(f.id, t["args"][0]):
                    seen[f.path] = seen.get(f.path, 0) + 1
                    key = "%s|Identifier::new#%d" % (own_path(fx, f), seen[f.path])
                    ctx.inst(rid, key, sample={"fn": f.path, "line": t.get("line"), "via": "Option::map(Identifier::new)"})
                    ctx.finding(rid, key, "a string from the program text reaches Identifier::new through Option::map in %s" % f.path,
                                "%s:%s" % (f.file, t.get("line")))
    if total < 5:
        ctx.fail_closed(rid, "fewer than 5 calls of Identifier::new found (%d): anchor moved" % total)


def r65(ctx, fx):
    rid = ctx.rule("R6.5", "in the shipped configuration the pass loop's iteration bound is a constant ≤ 100000 and the path leaving the loop through the bound "
                   "reports a diagnostic")
    loops = [f for f in fx.all_fns("mos_core") if f.kind == "fn" and any(lib.pm(lib.callee(t)[0], "CodegenContext::next_pass") for _, t in lib.calls(f))]
    if len(loops) != 1:
        ctx.fail_closed(rid, "pass loop (caller of next_pass) not found uniquely")
        return
    f = loops[0]
    du = lib.DefUse(f)
    # comparison of ctx.pass_idx with a constant
    bound = None
    where = None
    for bi, si, s in lib.stmts(f):
        if s["k"] == "assign" and s["rv"]["k"] == "binop" and s["rv"]["op"] in ("Ne", "Lt", "Le", "Eq", "Ge", "Gt"):
            for a, b in ((s["rv"]["l"], s["rv"]["r"]), (s["rv"]["r"], s["rv"]["l"])):
                pa = lib.op_place(a)
                if pa and not pa.get("p"):
                    d = du.single_def(pa["l"])
                    if d and d[2] == "assign" and d[3]["rv"]["k"] == "use":
                        pa = lib.op_place(d[3]["rv"]["op"]) or pa
                if pa and "pass_idx" in lib.place_fields(pa) and lib.const_int(b) is not None:
                    bound = lib.const_int(b)
                    where = (bi, s)
    key = "%s|bound" % f.path
    ctx.inst(rid, key, sample={"bound": bound, "profile": fx.profile})
    if bound is None:
        ctx.finding(rid, key, "the pass loop compares pass_idx with no constant: no bound on the number of passes", f.where)
        return
    if bound > 100000:
        ctx.finding(rid, key, "the pass loop is bounded by %d passes in the shipped configuration (the bound of 50 exists only under cfg(test)): a program whose "
                    "layout oscillates never terminates" % bound, "%s:%s" % (f.file, where[1].get("line")))
    # the exit through the bound must push a diagnostic: HIR — after the loop, before finalize, an `errors.push`/return with Diagnostic::error
    key2 = "%s|bound-diagnostic" % f.path
    ctx.inst(rid, key2)
    body = f.hir["body"]
    ok = False

    def outside_loops(n):
        """`if` nodes that are not nested inside a loop (the `while` itself desugars to loop { if cond {…} else { break } })"""
        if isinstance(n, list):
            for x in n:
                yield from outside_loops(x)
            return
        if not isinstance(n, dict) or n.get("k") in ("loop", "closure"):
            return
        if n.get("k") == "if":
            yield n
        for v in n.values():
            if isinstance(v, (dict, list)):
                yield from outside_loops(v)
    for n in outside_loops(body):
        c = lib.hdesc(n["cond"])
        flat = repr(c)
        if "pass_idx" in flat and ("MAX_ITERATIONS" in flat or str(bound) in flat):
            if any(lib.pm(p, "Diagnostic::error") for _, p in lib.hir_calls(n["then"])):
                ok = True
    if not ok:
        ctx.finding(rid, key2, "leaving the pass loop because the bound was reached reports no diagnostic (the build would succeed with an unsettled layout)", f.where)


DIAG = "mos_core::errors::Diagnostics"


def r67(ctx, fx):
    rid = ctx.rule("R6.7", "no unwrap/expect on a Result<_, Diagnostics> in non-test code of the assembler core: an error of the program would become a panic")
    n = 0
    for f in sorted(fx.all_fns("mos_core"), key=lambda f: f.path):
        if not f.d.get("hir") or "::tests::" in f.path or "::testing" in f.path:
            continue
        k0 = 0
        for x in lib.hwalk(f.hir["body"]):
            if x.get("k") == "mcall" and x.get("name") in ("unwrap", "expect"):
                ty = lib.strip(x["recv"]).get("ty") or ""
                if ty.startswith("core::result::Result<") and DIAG in ty:
                    k0 += 1
                    n += 1
                    key = "%s|%s#%d" % (f.path, x["name"], k0)
                    ctx.inst(rid, key, sample={"fn": f.path, "line": x.get("ln")})
                    ctx.finding(rid, key, "%s() on a Result<_, Diagnostics> in %s: a diagnosable error (e.g. a symbol clashing with the generated "
                                "`segments.*` symbols) panics instead of being reported" % (x["name"], f.path), "%s:%s" % (f.file, x.get("ln")))
        if k0 == 0:
            ctx.inst(rid, f.path, nontrivial=False)
    ctx.floor(rid, 200, "core functions scanned")


IO_UNWRAP_OK = {
    # fn path suffix -> (count, reason)
    "mos_core::parser::ast::ParseTree::try_get_file": (1, "Path::absolutize() fails only when the process's working directory cannot be determined; `run` has resolved "
                                                          "it before anything is parsed (mos_toml_path canonicalizes `.` and propagates the error: instance of this rule)"),
    "mos_core::parser::code_map::CodeMap::new": (1, "same"),
    "mos_core::parser::parse": (1, "same"),
}
IO_ERRORS = ("std::io::error::Error", "alloc::string::FromUtf8Error", "core::str::error::Utf8Error", "toml::de::Error", "fs_err::")


def r610(ctx, fx, scope):
    rid = ctx.rule("R6.10", "no unwrap/expect on a Result whose error is an I/O, UTF-8 or configuration-syntax error in code reachable from the command line entry "
                   "(`run`, build, format, parse, codegen, listing): missing or unreadable files, invalid UTF-8 and a vanished directory are diagnosed, not panics")
    extra = []
    for sfx in ("mos::run", "mos::mos_toml_path", "mos::main"):
        f_ = fx.fn(sfx)
        if f_ is None:
            ctx.fail_closed(rid, "%s not found" % sfx)
        else:
            extra.append(f_.id)
    ids = set(scope) | set(extra)
    seen = {}
    nfn = 0
    for i in sorted(ids, key=lambda i: fx.fns[i].path):
        f = fx.fns[i]
        if not f.d.get("hir") or "::tests::" in f.path or "::testing" in f.path or f.crate not in ("mos", "mos_core"):
            continue
        nfn += 1
        k0 = 0
        for x in lib.hwalk(f.hir["body"]):
            if x.get("k") == "mcall" and x.get("name") in ("unwrap", "expect", "unwrap_unchecked"):
                ty = lib.strip(x["recv"]).get("ty") or ""
                if ty.startswith("core::result::Result<") and any(e in ty.rsplit(", ", 1)[-1] for e in IO_ERRORS):
                    k0 += 1
                    key = "%s|%s#%d" % (f.path, x["name"], k0)
                    ctx.inst(rid, key, sample={"fn": f.path, "line": x.get("ln"), "type": ty[:100]})
                    ok = IO_UNWRAP_OK.get(f.path)
                    seen[f.path] = seen.get(f.path, 0) + 1
                    if ok and seen[f.path] <= ok[0] and "Path" in ty:
                        continue
                    ctx.finding(rid, key, "%s() on %s in %s: an error of the environment (missing/unreadable file, vanished directory, invalid UTF-8) panics instead of "
                                "being reported" % (x["name"], ty[:90], f.path), "%s:%s" % (f.file, x.get("ln")))
        if k0 == 0:
            ctx.inst(rid, f.path, nontrivial=False)
    for pth, (cnt, why) in IO_UNWRAP_OK.items():
        if seen.get(pth, 0) != cnt:
            ctx.fail_closed(rid, "tabled exception %s expected %d site(s), found %d" % (pth, cnt, seen.get(pth, 0)))
    ctx.floor(rid, 300, "functions scanned")


def r612(ctx, fx):
    from . import grammar
    rid = ctx.rule("R6.12", "nom's tag_no_case compares character by character (through to_lowercase) and then cuts the input at the byte length of the tag: a "
                   "character that is longer than the ASCII letter it lowercases to — U+212A KELVIN SIGN and `k` — is cut in two and the parser panics on a file "
                   "that merely contains it. Every parser function whose grammar has a case-insensitive tag with a `k` tests `is_char_boundary` first")
    n = 0
    sites = 0
    for f in sorted(fx.all_fns("mos_core"), key=lambda f: f.path):
        if "::tests::" in f.path or not f.path.startswith("mos_core::parser::") or f.kind == "closure" or not f.d.get("hir"):
            continue
        n += 1
        gs = [grammar.fn_grammar(f)] + grammar.applied_parsers(f)
        ks = sorted({str(t[1]) for g in gs for t in grammar.walk(g) if t[0] == "tag" and len(t) > 2 and t[2] is True and "k" in str(t[1]).lower()})
        if not ks:
            continue
        sites += 1
        guarded = any(x.get("k") == "mcall" and x.get("name") == "is_char_boundary" for x in lib.hwalk(f.hir["body"]))
        key = "%s|kelvin" % f.path
        ctx.inst(rid, key, sample={"fn": f.path, "tags_with_k": ks, "boundary_test": guarded})
        if not guarded:
            ctx.finding(rid, key, "%s matches %s case-insensitively without a char-boundary test: the text `%s` followed by U+212A (K) instead of `k` makes nom slice "
                        "inside that character — parsing panics instead of reporting a diagnostic" % (f.path.rsplit("::", 1)[-1], "/".join("`%s`" % k for k in ks),
                                                                                                   ks[0][:-1] if ks[0].lower().endswith("k") else ks[0]), f.where)
    ctx.inst(rid, "scan", sample={"parser_functions": n, "with_a_k_tag": sites})
    if n < 60 or sites < 1:
        ctx.fail_closed(rid, "parser functions scanned: %d, with a `k` tag: %d (the mnemonic `brk` was counted)" % (n, sites))


def r613(ctx, fx):
    rid = ctx.rule("R6.13", "spans index the text they were made from: every diagnostic, `.file` and listing slices `File::source()` at offsets the parser counted, "
                   "so the text the parser runs over (the first argument of LocatedSpan::new_extra) is that stored text itself — copied or borrowed, never shortened, "
                   "trimmed or replaced. A prefix taken off (a byte order mark) moves every span three bytes to the left, and the first span edge that falls inside "
                   "a multi-byte character panics in File::find_line_col")
    sites = []
    for f in sorted(fx.all_fns("mos_core"), key=lambda f: f.path):
        if f.kind == "closure" or not f.d.get("hir") or "::tests::" in f.path or "::test::" in f.path or not f.path.startswith("mos_core::parser::"):
            continue
        for x, p in lib.hir_calls(f.hir["body"]):
            if p and p.endswith(("LocatedSpan::<T, X>::new_extra", "::new_extra")) and x.get("k") == "call":
                sites.append((f, x))
    if not sites:
        ctx.fail_closed(rid, "no construction of the parser's input (LocatedSpan::new_extra) found in the parser")
        return
    OK = ("::deref", "::as_str", "::as_ref", "::borrow", "::to_string", "::to_owned", "::clone", "::into", "::from")
    n_src = 0
    for f, x in sites:
        lets = {}
        for n in lib.hwalk(f.hir["body"]):
            if n.get("k") in ("let", "letx") and "init" in n and n["pat"].get("k") == "bind":
                lets.setdefault(n["pat"]["name"], []).append(n["init"])
        chain = []
        todo = [lib.strip(lib.hargs(x)[0])]
        seen = set()
        while todo and len(chain) < 12:
            e = todo.pop()
            chain.append(e)
            for y in lib.hwalk(e):
                nm = lib.hpath(y) if y.get("k") == "path" else None
                if nm in lets and nm not in seen:
                    seen.add(nm)
                    todo.extend(lib.strip(i) for i in lets[nm])
        callees = [p for c in chain for _, p in lib.hir_calls(c) if p]
        from_source = any(lib.pm(p, "File::source") for p in callees)
        others = [p for p in callees if not lib.pm(p, "File::source") and not p.endswith(OK)]
        sliced = any(y.get("k") == "index" for c in chain for y in lib.hwalk(c))
        key = "%s|parser-input" % f.path
        ctx.inst(rid, key, sample={"fn": f.path, "line": x.get("ln"), "from_File_source": from_source, "through": sorted({p.rsplit("::", 1)[-1] for p in callees})})
        if not from_source:
            # a parser for text that is in no file (an expression typed into the debugger): its spans index nothing that is stored
            continue
        n_src += 1
        if others or sliced:
            ctx.finding(rid, key, "%s hands the parser another text than the one the code map stores for the file (%s): every span is an offset into the text that was "
                        "parsed, and is used as an offset into the text that is stored — locations are off, and an edge that lands inside a character of several "
                        "bytes panics where a diagnostic or a listing looks it up" % (
                            f.path.rsplit("::", 1)[-1], ", ".join(sorted({p.rsplit("::", 1)[-1] for p in others})) or "a slice"), "%s:%s" % (f.file, x.get("ln")))
    if n_src < 1:
        ctx.fail_closed(rid, "no parser input that comes from File::source() found")


def r614(ctx, fx):
    rid = ctx.rule("R6.14", "a function of the expression language gets the evaluator and evaluates its own arguments with it, and an argument may call the same function "
                   "(`ram(ram($fb))`, `defined(defined(x))`): the call of FunctionCallback::apply is not made on a lock guard — std's Mutex is not re-entrant, the inner "
                   "call would wait for the outer one on the same thread, and the assembler or the test runner never ends")
    n = 0
    for f in sorted(list(fx.all_fns("mos_core")) + list(fx.all_fns("mos")), key=lambda f: f.path):
        if f.kind == "closure" or not f.d.get("hir") or "::tests::" in f.path:
            continue
        lets = {}
        for y in lib.hwalk(f.hir["body"]):
            if y.get("k") in ("let", "letx") and "init" in y and y["pat"].get("k") == "bind":
                lets.setdefault(y["pat"]["name"], []).append(y["init"])
        for x in lib.hwalk(f.hir["body"]):
            if not (x.get("k") == "mcall" and x.get("name") == "apply" and str(x.get("path", "")).endswith("FunctionCallback::apply")):
                continue
            n += 1
            chain, todo, seen = [], [lib.strip(x["recv"])], set()
            while todo and len(chain) < 10:
                e = todo.pop()
                chain.append(e)
                for y in lib.hwalk(e):
                    nm = lib.hpath(y) if y.get("k") == "path" else None
                    if nm in lets and nm not in seen:
                        seen.add(nm)
                        todo.extend(lib.strip(i) for i in lets[nm])
            locked = any(y.get("k") == "mcall" and y.get("name") in ("lock", "try_lock", "write") for c in chain for y in lib.hwalk(c)) or \
                "MutexGuard" in str(lib.strip(x["recv"]).get("ty", "")) + str(lib.strip(x["recv"]).get("aty", ""))
            key = "%s|apply#%d" % (f.path, n)
            ctx.inst(rid, key, sample={"fn": f.path, "line": x.get("ln"), "receiver_is_a_lock_guard": locked})
            if locked:
                ctx.finding(rid, key, "%s calls a function of the expression language while holding the lock it is kept behind: an argument that calls the same function "
                            "(`ram(ram($fb))` in an assertion, `defined(defined(x))`) locks it again on the same thread and waits for ever" % f.path.rsplit("::", 1)[-1],
                            "%s:%s" % (f.file, x.get("ln")))
    if n < 1:
        ctx.fail_closed(rid, "no call of FunctionCallback::apply found")


def r615(ctx, fx, scope):
    rid = ctx.rule("R6.15", "a size that must not be zero is not left to the configuration: every `chunks` / `chunks_exact` / `rchunks` / `windows` / `step_by` call in code "
                   "reachable from parse / build / format / listing has an argument that is a positive literal, or went through `.max(k)` with k ≥ 1 in the same function, "
                   "or is tested against 0 there — `slice::chunks(0)` panics, and `listing.num-bytes-per-line = 0` is a line of mos.toml")
    NAMES = ("::chunks", "::chunks_exact", "::rchunks", "::windows", "::step_by", "::chunks_mut", "::chunks_exact_mut")
    n = 0
    for i in sorted(scope, key=lambda i: fx.fns[i].path):
        f = fx.fns[i]
        if not f.d.get("hir") or "::tests::" in f.path or f.kind == "closure":
            continue
        lets = {}
        for y in lib.hwalk(f.hir["body"]):
            if y.get("k") in ("let", "letx") and "init" in y and y["pat"].get("k") == "bind":
                lets.setdefault(y["pat"]["name"], []).append(y["init"])
        for x in lib.hwalk(f.hir["body"]):
            if not (x.get("k") == "mcall" and ("::" + str(x.get("name"))) in NAMES and x.get("args")):
                continue
            if not ("slice" in str(x.get("path", "")) or "Iterator" in str(x.get("path", "")) or "[" in str(lib.strip(x["recv"]).get("ty", "")) + str(lib.strip(x["recv"]).get("aty", ""))):
                continue
            n += 1
            a = lib.strip(x["args"][0])
            chain, todo, seen = [], [a], set()
            while todo and len(chain) < 8:
                e = todo.pop()
                chain.append(e)
                for y in lib.hwalk(e):
                    nm = lib.hpath(y) if y.get("k") == "path" else None
                    if nm in lets and nm not in seen:
                        seen.add(nm)
                        todo.extend(lets[nm])
            lit = lib.hlit(a)
            positive = isinstance(lit, int) and lit > 0
            clamped = any(y.get("k") in ("mcall", "call") and (y.get("name") == "max" or str(lib.hcallee(y) or "").endswith("::max")) and
                          any(isinstance(lib.hlit(lib.strip(z)), int) and lib.hlit(lib.strip(z)) >= 1 for z in (y.get("args") or []) + ([y["recv"]] if y.get("recv") else []))
                          for c in chain for y in lib.hwalk(c))
            names = {lib.hpath(y) for c in chain for y in lib.hwalk(c) if y.get("k") == "path"}
            tested = any(y.get("k") == "binary" and y.get("op") in ("Eq", "Ne", "Gt", "Lt", "Ge", "Le") and
                         (lib.hlit(lib.strip(y["l"])) in (0, 1) or lib.hlit(lib.strip(y["r"])) in (0, 1)) and
                         ({lib.hpath(z) for z in lib.hwalk(y) if z.get("k") == "path"} & names)
                         for y in lib.hwalk(f.hir["body"]))
            key = "%s|%s#%d" % (f.path, x.get("name"), n)
            ctx.inst(rid, key, sample={"fn": f.path, "line": x.get("ln"), "literal": positive, "clamped_by_max": clamped, "tested_against_zero": bool(tested)})
            if not (positive or clamped or tested):
                ctx.finding(rid, key, "%s hands `%s` a size that nothing keeps away from zero: with a 0 from the configuration (`listing.num-bytes-per-line = 0`) or "
                            "the program the call panics instead of producing a diagnostic" % (f.path.rsplit("::", 1)[-1], x.get("name")), "%s:%s" % (f.file, x.get("ln")))
    ctx.inst(rid, "scan", sample={"calls_with_a_size_argument": n})


def run(ctx):
    fx = ctx.facts
    r613(ctx, fx)
    r614(ctx, fx)
    T = taint.Taint(fx, "USERINT", source_calls=USERINT_SOURCES, source_fields=USERINT_FIELDS, carrier=taint.INT_CARRIER)
    ctx.extra["taint_userint"] = {"functions_with_labelled_locals": sum(1 for v in T.t.values() if v), "labelled_fields": sorted("%s.%s" % k for k in T.fields)}
    # scope of C06: parsing, assembling (build and the language server's analysis mode), formatting, listing generation, output
    cg = lib.CallGraph(fx)
    roots = []
    for sfx in ("mos_core::parser::parse", "mos_core::parser::parse_expression", "mos_core::codegen::codegen", "mos_core::formatting::format",
                "mos_core::io::listing::to_listing", "mos_core::io::vice::to_vice_symbols", "mos_core::io::binary_writer::BinaryWriter::merge_segments",
                "mos_core::io::binary_writer::BinaryWriter::write_banks", "mos::commands::build::build_command", "mos::commands::format::format_command"):
        f_ = fx.fn(sfx)
        if f_ is None:
            ctx.fail_closed("R6.1", "entry point %s not found" % sfx)
        else:
            roots.append(f_.id)
    scope = cg.reach(roots)
    # the test runner, the debugger and the language-server request handlers have their own properties (C18, C19, C14); they are only reachable
    # here through `dyn FunctionCallback` (ram()/ram16() are not registered by `mos build`)
    scope = {i for i in scope if not fx.fns[i].path.lstrip("<").startswith(("mos::debugger", "mos::test_runner", "mos::memory_accessor", "mos::lsp"))}
    ctx.extra["scope_functions"] = len(scope)
    r615(ctx, fx, scope)
    r61(ctx, fx, T, scope)
    r62(ctx, fx, T, scope)
    r68(ctx, fx, scope)
    r612(ctx, fx)
    r69(ctx, fx)
    r611(ctx, fx)
    r610(ctx, fx, scope)
    r63(ctx, fx)
    r64(ctx, fx)
    r65(ctx, fx)
    r67(ctx, fx)
    ctx.not_decided("absence of *all* panics (internal-invariant unwraps are not dischargeable statically); stack depth on deeply nested (non-cyclic) constructs; "
                    "that diagnostic locations lie inside existing files; invalid UTF-8 / unreadable files")
    ctx.assume("label propagation is field-based and context-insensitive; flows through external trait objects, unsafe code and interior mutability of external "
               "types are not tracked (rules/taint.py)")
