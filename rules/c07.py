"""C07 — loops, conditionals, macros, scopes mean their expansion (structural clauses only).

 R7.1 `.if`: the selected block is really emitted under `value != 0`, the `else` block under `value == 0`; the other one is only
      ever emitted inside with_dummy_segment (analysis mode)
 R7.2 `.loop`: iterates 0..count; `index` is bound to the iteration variable inside the per-iteration scope and removed afterwards
 R7.3 macro: arity check precedes binding; parameter i is bound to argument i; fresh scope name from a counter that is incremented
 R7.4 scope push/pop and dummy-segment insert/remove are balanced on every path (callback errors cannot skip the restore)
 R7.5 per-iteration / per-block symbols: an insertion whose failure is discarded lets a construct differ from its expansion
"""
from . import lib
from .c04 import discard_sites

CC = "mos_core::codegen::CodegenContext"


def token_arm(fn, variant):
    """the arm of emit_token's top-level match for Token::<variant>"""
    for n in lib.hwalk(fn.hir["body"]):
        if n.get("k") == "match":
            for a in n["arms"]:
                pk = lib.pat_key(a["pat"])
                if isinstance(pk, str) and pk.split("(")[0] == "mos_core::parser::ast::Token::" + variant:
                    return a
    return None


def arm_binds(arm):
    """field name -> bound local name of a struct pattern arm"""
    p = arm["pat"]
    while p.get("k") == "ref":
        p = p["sub"]
    out = {}
    if p.get("k") == "struct":
        for f in p["fields"]:
            bs = [q["name"] for q in lib.hwalk(f["pat"]) if q.get("k") == "bind"]
            if bs:
                out[f["name"]] = bs[0]
    return out


def emissions(node, fx=None):
    """(call node, block variable name, cond stack, inside_dummy) for every emit_tokens(&X.inner) under node; with `fx`, a call of a CodegenContext
    helper whose body emits the `inner` of its block parameter only inside with_dummy_segment counts as such an emission of the argument"""
    out = []

    def rec(n, conds, dummy):
        if isinstance(n, list):
            for x in n:
                rec(x, conds, dummy)
            return
        if not isinstance(n, dict):
            return
        k = n.get("k")
        if k in ("mcall", "call") and lib.pm(lib.hcallee(n), "CodegenContext::emit_tokens"):
            arg = lib.hargs(n)[1]
            d = lib.hdesc(arg)
            var = None
            if d[0] == "f" and d[1] == "inner":
                var = d[2][1] if d[2][0] == "v" else None
            out.append((n, var, list(conds), dummy))
        if k in ("mcall", "call") and lib.pm(lib.hcallee(n), "CodegenContext::with_dummy_segment"):
            for v in n.values():
                if isinstance(v, (dict, list)):
                    rec(v, conds, True)
            return
        if fx is not None and k in ("mcall", "call") and str(lib.hcallee(n) or "").startswith("mos_core::codegen::CodegenContext::") and \
                not lib.pm(lib.hcallee(n), "CodegenContext::emit_tokens") and not lib.pm(lib.hcallee(n), "CodegenContext::with_scope"):
            g = fx.fn(lib.hcallee(n))
            if g is not None and g.d.get("hir"):
                inner = emissions(g.hir["body"])
                params = [q.get("name") for q in (g.hir.get("params") or []) if q.get("k") == "bind"]
                if inner and all(d_ for _, _, _, d_ in inner) and all(v_ in params for _, v_, _, _ in inner):
                    for _, v_, _, _ in inner:
                        a = lib.hargs(n)[params.index(v_)] if params.index(v_) < len(lib.hargs(n)) else None
                        d = lib.hdesc(a) if a is not None else ("?",)
                        out.append((n, d[1] if d[0] == "v" else None, list(conds), True))
        if k == "if":
            rec(n["cond"], conds, dummy)
            rec(n["then"], conds + [("then", n["cond"])], dummy)
            if "else" in n:
                rec(n["else"], conds + [("else", n["cond"])], dummy)
            return
        for v in n.values():
            if isinstance(v, (dict, list)):
                rec(v, conds, dummy)
    rec(node, [], False)
    return out


def r71(ctx, fx, et):
    rid = ctx.rule("R7.1", "`.if`: real emission of the `if` block is control-dependent on `value != 0`, of the `else` block on `value == 0`; the "
                   "non-selected block is only emitted inside with_dummy_segment")
    arm = token_arm(et, "If")
    if arm is None:
        ctx.fail_closed(rid, "Token::If arm not found in emit_token")
        return
    b = arm_binds(arm)
    if_var, else_var = b.get("if_"), b.get("else_")
    # the polarity variable: let emit_if = value != 0
    pol = {}
    for n in lib.hwalk(arm["body"]):
        if n.get("k") == "let" and n["pat"].get("k") == "bind" and "init" in n:
            d = lib.hdesc(n["init"])
            if d[0] == "Ne" and ("c", 0) in d:
                pol[n["pat"]["name"]] = True
            if d[0] == "Eq" and ("c", 0) in d:
                pol[n["pat"]["name"]] = False
    # `if let Some(e) = else_` rebinding
    alias = {}
    for n in lib.hwalk(arm["body"]):
        if n.get("k") == "letx" and lib.hpath(n["init"]) == else_var:
            for q in lib.hwalk(n["pat"]):
                if q.get("k") == "bind":
                    alias[q["name"]] = else_var

    def polarity(conds):
        """True: known nonzero, False: known zero, None: unknown"""
        res = None
        for side, c in conds:
            d = lib.hdesc(c)
            v = None
            if d[0] == "v" and d[1] in pol:
                v = pol[d[1]]
            elif d[0] == "Not" and d[1][0] == "v" and d[1][1] in pol:
                v = not pol[d[1][1]]
            elif d[0] in ("Ne", "Eq") and ("c", 0) in d:
                v = d[0] == "Ne"
            else:
                continue
            if side == "else":
                v = not v
            res = v
        return res
    # the truth of the condition: every comparison of the evaluated condition is `!= 0` / `== 0` (any non-zero value selects the `if` block, negative ones too)
    cond_vals = set()
    for n in lib.hwalk(arm["body"]):
        if n.get("k") in ("letx", "let") and "init" in n and any(x.get("k") == "mcall" and str(x.get("name", "")).startswith("evaluate_expression")
                                                              for x in lib.hwalk(n["init"])):
            cond_vals |= {q["name"] for q in lib.hwalk(n["pat"]) if q.get("k") == "bind"}
    # … also where the value is looked at inside a closure handed to a method of the Option (`value.map_or(false, |v| v != 0)`)
    for n in lib.hwalk(arm["body"]):
        if n.get("k") == "mcall" and lib.hpath(lib.strip(n["recv"])) in cond_vals:
            for a in n.get("args") or []:
                a = lib.strip(a)
                if a.get("k") == "closure":
                    for prm in a.get("params", []):
                        cond_vals |= {q["name"] for q in lib.hwalk(prm) if q.get("k") == "bind"}
    key = "%s|If|truth-is-nonzero" % et.path
    cmps = [n for n in lib.hwalk(arm["body"]) if n.get("k") == "binary" and n.get("op") in ("Lt", "Le", "Gt", "Ge", "Eq", "Ne") and
            any(lib.hpath(lib.strip(n[side])) in cond_vals for side in ("l", "r"))]
    ctx.inst(rid, key, sample={"condition_value": sorted(cond_vals), "comparisons": len(cmps)})
    if not cond_vals or not cmps:
        ctx.fail_closed(rid, "the comparison of the `.if` condition's value was not found")
    for n in cmps:
        d = lib.hdesc(n)
        if not (d[0] in ("Ne", "Eq") and ("c", 0) in d[1:]):
            ctx.finding(rid, key, "the condition of `.if` is tested with `%s` instead of `!= 0`: a condition that evaluates to another value than that test expects — a "
                        "negative difference used as `not equal`, say — selects the `else` block although it is not zero" % n.get("op"),
                        "%s:%s" % (et.file, n.get("ln")))
    ems = emissions(arm["body"], fx)
    seen = {"if": 0, "else": 0}
    for call, var, conds, dummy in ems:
        var = alias.get(var, var)
        which = "if" if var == if_var else "else" if var == else_var else None
        if which is None:
            ctx.fail_closed(rid, "emission of an unknown block `%s` in the `.if` arm" % var)
            continue
        p = polarity(conds)
        seen[which] += 1
        key = "%s|If|%s|%s" % (et.path, which, "dummy" if dummy else "real")
        ctx.inst(rid, key, sample={"block": which, "in_dummy_segment": dummy, "value_nonzero": p, "line": call.get("ln")})
        if dummy:
            want = (which == "else")   # if-block analysed when value == 0 → polarity False; else-block when value != 0 → True
            if p is None or p != want:
                ctx.finding(rid, key, "the %s block is analysed in a dummy segment under the wrong condition" % which, "%s:%s" % (et.file, call.get("ln")))
        else:
            want = (which == "if")
            if p is None or p != want:
                ctx.finding(rid, key, "the `%s` block of `.if` is really emitted %s: the selected branch is not the one the condition selects" % (
                    which, "when the condition is zero" if which == "if" else "when the condition is non-zero" if p else "unconditionally"),
                    "%s:%s" % (et.file, call.get("ln")))
    # what the branch that is not taken defines must not be seen by the rest of the program (regression guard): its analysis runs inside a with_scope
    for call, var, conds, dummy in ems:
        if not dummy:
            continue
        var = alias.get(var, var)
        which = "if" if var == if_var else "else"
        key = "%s|If|%s|dummy-scope" % (et.path, which)
        g = fx.fn(lib.hcallee(call)) if not lib.pm(lib.hcallee(call), "CodegenContext::emit_tokens") else None
        body = g.hir["body"] if g is not None and g.d.get("hir") else arm["body"]
        scoped = False
        for w in lib.hwalk(body):
            if w.get("k") in ("mcall", "call") and lib.pm(lib.hcallee(w), "CodegenContext::with_scope") and \
                    any(True for _ in lib.hir_calls(w, "CodegenContext::emit_tokens")):
                scoped = True
        ctx.inst(rid, key, sample={"block": which, "analysed_in_a_scope_of_its_own": scoped})
        if not scoped:
            ctx.finding(rid, key, "the %s block that is not taken is analysed in the scope of the `.if` itself: what it defines shadows the definitions the build uses "
                        "(go-to-definition leads into the branch that is not assembled) and collides with the other branch (`cannot redefine symbol` in the "
                        "editor for a program that builds)" % which, "%s:%s" % (et.file, call.get("ln")))
    for which in ("if", "else"):
        if not any(True for c, v, cs, d in ems if (alias.get(v, v) == (if_var if which == "if" else else_var)) and not d):
            ctx.finding(rid, "%s|If|%s|missing" % (et.path, which), "the `%s` block of `.if` is never emitted" % which, et.where)


def r72(ctx, fx, et):
    rid = ctx.rule("R7.2", "`.loop`: a `for` over Range{start: 0, end: count}; inside the per-iteration with_scope the constant `index` is bound to the "
                   "iteration variable before the body is emitted and removed afterwards")
    arm = token_arm(et, "Loop")
    if arm is None:
        ctx.fail_closed(rid, "Token::Loop arm not found")
        return
    b = arm_binds(arm)
    key = "%s|Loop" % et.path
    # for index in 0..loop_count
    fl = [n for n in lib.hwalk(arm["body"]) if n.get("k") == "match" and n.get("src") == "ForLoopDesugar" and
          lib.pm(lib.hcallee(lib.strip(n["scrut"])), "IntoIterator::into_iter")]
    ctx.inst(rid, key + "|range")
    itervar = None
    if len(fl) != 1:
        ctx.fail_closed(rid, "`.loop` is not a single for-loop")
        return
    rng = lib.strip(lib.strip(fl[0]["scrut"])["args"][0])
    ok_rng = rng.get("k") == "struct" and lib.pm(rng["res"].get("path"), "ops::range::Range")
    start = end = None
    if ok_rng:
        fl_ = {f["name"]: f["e"] for f in rng["fields"]}
        start, end = lib.hlit(fl_.get("start", {})), lib.hpath(fl_.get("end", {}))
    # the count: bound from evaluate_expression_as_i64(expr)
    cnt_ok = False
    for n in lib.hwalk(arm["body"]):
        if n.get("k") == "letx" and any(q.get("name") == end for q in lib.hwalk(n["pat"]) if q.get("k") == "bind"):
            cs = [x for x, p in lib.hir_calls(n["init"], "CodegenContext::evaluate_expression_as_i64")]
            if cs and lib.hpath(lib.hargs(cs[0])[1]) == b.get("expr"):
                cnt_ok = True
    if not ok_rng or start != 0 or not cnt_ok:
        ctx.finding(rid, key + "|range", "`.loop n` must iterate the range 0..n over the evaluated count (start=%s, end=%s, count from expr: %s)" % (start, end, cnt_ok),
                    "%s:%s" % (et.file, arm.get("ln")))
    # iteration variable
    for n in lib.hwalk(fl[0]):
        if n.get("k") == "tstruct" and lib.pm(n["res"].get("path"), "Option::Some") if False else False:
            pass
    for a in lib.hwalk(fl[0]):
        if a.get("k") == "struct" and lib.pm((a.get("res") or {}).get("path"), "Option::Some") and "fields" in a and a["fields"] and "pat" in a["fields"][0]:
            bs = [q["name"] for q in lib.hwalk(a["fields"][0]["pat"]) if q.get("k") == "bind"]
            if bs:
                itervar = bs[0]
    # with_scope(loop_scope, Some(block), closure)
    ws = [x for x, p in lib.hir_calls(fl[0], "CodegenContext::with_scope")]
    ctx.inst(rid, key + "|scope")
    # the scope is the loop's own (anonymous, unique per `.loop`) scope or a name derived from it (per iteration: R7.9)
    scope_ok = False
    if len(ws) == 1:
        arg = lib.hargs(ws[0])[1]
        lets_ = {n["pat"]["name"]: n["init"] for n in lib.hwalk(fl[0]) if n.get("k") == "let" and n["pat"].get("k") == "bind" and "init" in n}
        src = lets_.get(lib.hpath(lib.strip(arg)), arg)
        scope_ok = any(y.get("k") == "path" and lib.hpath(y) == b.get("loop_scope") for y in lib.hwalk(src))
    if not scope_ok:
        ctx.finding(rid, key + "|scope", "each iteration must run in (a scope derived from) the loop's own scope (with_scope(loop_scope…, …))", "%s:%s" % (et.file, arm.get("ln")))
        return
    clo = lib.strip(lib.hargs(ws[0])[3])
    seq = []
    for n in lib.hwalk(clo.get("body", {})):
        if n.get("k") in ("mcall", "call"):
            p = lib.hcallee(n)
            if lib.pm(p, "CodegenContext::add_symbol") and lib.hlit(lib.hargs(n)[1]) == "index":
                sym = lib.strip(lib.hargs(n)[2])
                val = lib.hpath(lib.hargs(sym)[2]) if sym.get("k") == "mcall" else None
                ty = (lib.hpath(lib.hargs(sym)[3]) or "").rsplit("::", 1)[-1] if sym.get("k") == "mcall" else None
                seq.append(("add", val, ty))
            elif lib.pm(p, "CodegenContext::emit_tokens"):
                seq.append(("emit", lib.hdesc(lib.hargs(n)[1])))
            elif lib.pm(p, "CodegenContext::remove_symbol") and lib.hlit(lib.hargs(n)[1]) == "index":
                seq.append(("remove",))
    ctx.inst(rid, key + "|index", sample={"sequence": [s[0] for s in seq], "iteration_variable": itervar})
    kinds = [s[0] for s in seq]
    # (`index` lives in the iteration's own scope; whether it is taken out again afterwards is nothing the expansion depends on — and C16 R16.7 wants it to stay)
    if kinds[:2] != ["add", "emit"] or any(k_ != "remove" for k_ in kinds[2:]):
        ctx.finding(rid, key + "|index", "per iteration the body must run behind add_symbol(\"index\") in the iteration's scope; sequence is %s" % kinds,
                    "%s:%s" % (et.file, arm.get("ln")))
    else:
        if seq[0][1] != itervar or seq[0][2] != "Constant":
            ctx.finding(rid, key + "|index", "`index` must be the constant value of the iteration variable `%s`; it is bound to `%s` as %s" % (itervar, seq[0][1], seq[0][2]),
                        "%s:%s" % (et.file, arm.get("ln")))
        if seq[1][1] != ("f", "inner", ("v", b.get("block"))):
            ctx.finding(rid, key + "|body", "the loop emits something other than its own block", "%s:%s" % (et.file, arm.get("ln")))


def r73(ctx, fx, et):
    rid = ctx.rule("R7.3", "macro invocation: the arity check (expect_args(len(args), len(def.args))) precedes the binding; parameter i is bound to argument i "
                   "(the enumerate index selects the argument) as MacroArgument inside a scope of its own that is named after the place of the invocation (its span: the same in "
                   "every pass, unlike a running number) and carries the `-` / `+` of the definition's block; the body emitted is the definition's block")
    arm = token_arm(et, "MacroInvocation")
    if arm is None:
        ctx.fail_closed(rid, "Token::MacroInvocation arm not found")
        return
    b = arm_binds(arm)
    args_var = b.get("args")
    key = "%s|Macro" % et.path
    body = arm["body"]
    order = []
    for n in lib.hwalk(body):
        if n.get("k") in ("mcall", "call"):
            p = lib.hcallee(n)
            if lib.pm(p, "Evaluator::expect_args"):
                order.append(("arity", n))
            elif lib.pm(p, "CodegenContext::with_scope"):
                order.append(("scope", n))
    ctx.inst(rid, key + "|arity")
    names = [o[0] for o in order]
    if names[:2] != ["arity", "scope"]:
        ctx.finding(rid, key + "|arity", "the argument-count check does not precede the macro expansion (order: %s)" % names, "%s:%s" % (et.file, arm.get("ln")))
        return
    ar = order[0][1]
    a = [lib.hdesc(x) for x in lib.hargs(ar)[2:]]
    ok = len(a) == 2 and a[0][:2] == ("m", "alloc::vec::Vec::len") and a[0][2] == ("v", args_var) and a[1][:2] == ("m", "alloc::vec::Vec::len") and \
        a[1][2][:2] == ("f", "args")
    if not ok:
        ctx.finding(rid, key + "|arity", "expect_args must compare the number of passed arguments with the number of declared parameters; compares %s" % (a,),
                    "%s:%s" % (et.file, ar.get("ln")))
    # `?` on the arity result: the call is inside a Try desugar whose residual returns
    sc = order[1][1]
    clo = lib.strip(lib.hargs(sc)[3])
    # the body is a block like any other: its scope gets the `-` / `+` of the definition's braces (regression guard)
    ctx.inst(rid, key + "|block-labels")
    blk = lib.hdesc(lib.hargs(sc)[2])
    if "block" not in repr(blk):
        ctx.finding(rid, key + "|block-labels", "the scope of a macro expansion is entered without the macro's block (%s): `-` and `+` in the body are undefined or, inside "
                    "a brace scope, silently refer to the start / end of that enclosing scope, where the expansion written out by hand refers to its own" % (blk,),
                    "%s:%s" % (et.file, sc.get("ln")))
    # scope name
    ctx.inst(rid, key + "|fresh-scope")
    scope_arg = lib.hpath(lib.hargs(sc)[1])
    fresh = counter = False
    id_var = b.get("id")
    for n in lib.hwalk(body):
        if n.get("k") == "let" and n["pat"].get("name") == scope_arg and "init" in n:
            d = repr(lib.hdesc(n["init"]))
            fresh = any(x.get("k") == "field" and x["name"] == "span" and lib.hpath(x["e"] if "e" in x else x.get("a", {})) == id_var for x in lib.hwalk(n["init"])) or \
                ("'span'" in d and repr(("v", id_var)) in d)
            counter = any(x.get("k") == "field" and lib.hpath(x.get("e", x.get("a", {}))) == "self" for x in lib.hwalk(n["init"]))
    if counter:
        ctx.finding(rid, key + "|fresh-scope", "the scope of a macro expansion is named after a running number of the code generator: an invocation that is reached only "
                    "once a forward referenced `.if` condition is known shifts the numbers of all later invocations, which inherit the symbols an earlier pass left "
                    "in the scope of another macro (`cannot redefine symbol: $macro_0.x`, or silently the wrong `x`)", "%s:%s" % (et.file, sc.get("ln")))
    elif not fresh:
        ctx.finding(rid, key + "|fresh-scope", "every macro invocation must expand in a scope of its own, named the same in every pass (after the place of the "
                    "invocation: its span)", "%s:%s" % (et.file, sc.get("ln")))
    # binding loop
    ctx.inst(rid, key + "|binding")
    fl = [n for n in lib.hwalk(clo.get("body", {})) if n.get("k") == "match" and n.get("src") == "ForLoopDesugar"]
    good = False
    detail = None
    if fl:
        it = lib.hdesc(lib.strip(lib.strip(fl[0]["scrut"])["args"][0]))
        enum_ok = it[:2] == ("m", "core::iter::traits::iterator::Iterator::enumerate")
        idx = argn = None
        for a_ in lib.hwalk(fl[0]):
            if a_.get("k") == "tuple" and len(a_.get("pats", [])) == 2 and all(q.get("k") == "bind" for q in a_["pats"]):
                idx, argn = a_["pats"][0]["name"], a_["pats"][1]["name"]
                break
        get_ok = False
        val_from = None
        # the vector indexed by the enumerate index is `args` itself or a vector built before the macro scope is entered by pushing, in order,
        # one evaluation per element of `args` (see R7.7)
        positional = {args_var} | set(values_vectors(body, args_var))
        for x, p in lib.hir_calls(fl[0]):
            if x.get("k") == "mcall" and x.get("name") == "get" and lib.hpath(x["recv"]) in positional and lib.hpath(x["args"][0]) == idx:
                get_ok = True
        add_ok = False
        for x, p in lib.hir_calls(fl[0], "CodegenContext::add_symbol"):
            nm = lib.hdesc(lib.hargs(x)[1])
            sym = lib.strip(lib.hargs(x)[2])
            ty = (lib.hpath(lib.hargs(sym)[3]) or "").rsplit("::", 1)[-1] if sym.get("k") == "mcall" else None
            if nm == ("f", "data", ("v", argn)) and ty == "MacroArgument":
                add_ok = True
        good = enum_ok and get_ok and add_ok
        detail = (enum_ok, get_ok, add_ok)
    if not good:
        ctx.finding(rid, key + "|binding", "macro parameters are not bound positionally to the arguments (enumerate, args.get(idx), add_symbol(param, MacroArgument)): %s" % (detail,),
                    "%s:%s" % (et.file, sc.get("ln")))
    ctx.inst(rid, key + "|body")
    em = [lib.hdesc(lib.hargs(x)[1]) for x, p in lib.hir_calls(clo.get("body", {}), "CodegenContext::emit_tokens")]
    if not (len(em) == 1 and (em[0][:2] == ("f", "block") or (em[0][:2] == ("f", "inner") and em[0][2][:2] == ("f", "block")))):
        ctx.finding(rid, key + "|body", "the expansion does not emit exactly the macro definition's block: %s" % em, "%s:%s" % (et.file, sc.get("ln")))


def values_vectors(body, args_var):
    """names of vectors filled by `for (expr, _) in args.iter() { v.push(<evaluation of expr>) }` outside any closure"""
    out = []
    for n in lib.hwalk(body):
        if n.get("k") == "match" and n.get("src") == "ForLoopDesugar":
            it = lib.hdesc(lib.strip(lib.strip(n["scrut"])["args"][0]))
            if args_var not in repr(it) or "enumerate" in repr(it) or "rev" in repr(it) or "skip" in repr(it):
                continue
            for x in lib.hwalk(n):
                if x.get("k") == "mcall" and x.get("name") == "push" and any(True for _ in lib.hir_calls(x["args"][0], "CodegenContext::evaluate_expression")):
                    v = lib.hpath(x["recv"])
                    if v:
                        out.append(v)
    return out


def r76_77(ctx, fx, et):
    rid6 = ctx.rule("R7.6", "the macro a MacroInvocation expands is found, on every path, by the scoped lookup from the current scope (Evaluator::get_symbol_filtered("
                    "current_scope_nx, name, is-a-macro)): directly in the arm or through a helper all of whose success returns pass that lookup — a result "
                    "remembered under the bare name (a cache) is not the innermost definition")
    rid7 = ctx.rule("R7.7", "macro arguments are evaluated in the scope of the invocation: no evaluation of an argument expression happens inside the closure that runs "
                    "in the macro's own scope (where parameter names shadow the names the arguments use)")
    arm = token_arm(et, "MacroInvocation")
    if arm is None:
        ctx.fail_closed(rid6, "Token::MacroInvocation arm not found")
        return
    body = arm["body"]
    key = "%s|Macro|lookup" % et.path
    ctx.inst(rid6, key)
    init = None
    for n in lib.hwalk(body):
        if n.get("k") == "let" and n["pat"].get("k") == "bind" and n["pat"].get("name") == "def" and "init" in n:
            init = n["init"]
            break
    if init is None:
        # the first let of the arm whose value is matched by `if let Some((macro_nx, def))`
        for n in lib.hwalk(body):
            if n.get("k") == "let" and "init" in n:
                init = n["init"]
                break
    if init is None:
        ctx.fail_closed(rid6, "the definition lookup of the MacroInvocation arm was not found")
    else:
        def is_lookup(p):
            return lib.pm(p, "Evaluator::get_symbol_filtered")
        direct = [x for x, p in lib.hir_calls(init, "Evaluator::get_symbol_filtered")]
        ok = False
        why = None
        if direct:
            a1 = lib.hdesc(lib.hargs(direct[0])[1])
            ok = a1[:2] == ("f", "current_scope_nx")
            why = None if ok else "the lookup does not start at current_scope_nx (%s)" % (a1,)
        else:
            mc = lib.MustCall(fx, is_lookup)
            helpers = []
            for x, p in lib.hir_calls(init):
                g = (fx.fn(p) or fx.fn(lib.norm(p))) if p else None
                if g is not None and g.crate == "mos_core" and g.blocks and g.kind != "closure":
                    helpers.append(g)
            good = [g for g in helpers if mc.holds(g)]
            ok = bool(good)
            if not ok:
                why = "the definition comes from %s, which can return a symbol without performing the scoped lookup" % (
                    ", ".join(g.path.rsplit("::", 1)[-1] for g in helpers) or "no recognisable lookup")
        if not ok:
            ctx.finding(rid6, key, "macro invocation: %s; a macro of the same name in a nearer scope is then ignored and the invocation expands the wrong body" % why,
                        "%s:%s" % (et.file, arm.get("ln")))
    key = "%s|Macro|argument-scope" % et.path
    ctx.inst(rid7, key)
    sc = [n for n in lib.hwalk(body) if n.get("k") in ("mcall", "call") and lib.pm(lib.hcallee(n), "CodegenContext::with_scope")]
    if not sc:
        ctx.fail_closed(rid7, "with_scope call of the MacroInvocation arm not found")
        return
    clo = lib.strip(lib.hargs(sc[0])[3])
    inside = [x for x, p in lib.hir_calls(clo.get("body", {})) if p and (lib.pm(p, "CodegenContext::evaluate_expression") or lib.pm(p, "CodegenContext::evaluate_expression_as_i64")
                                                                          or lib.pm(p, "CodegenContext::evaluate_expression_as_string") or lib.pm(p, "Evaluator::evaluate_expression"))]
    if inside:
        ctx.finding(rid7, key, "an argument expression is evaluated inside the macro's own scope: a name in the argument that equals a parameter name (of this or of "
                    "the previous pass) refers to the parameter — `m(1, a)` with parameters (a, b) binds b to 1", "%s:%s" % (et.file, inside[0].get("ln")))
    elif not values_vectors(body, arm_binds(arm).get("args")):
        ctx.finding(rid7, key, "the arguments of a macro invocation are not evaluated (one evaluation per argument, in order) before the macro scope is entered",
                    "%s:%s" % (et.file, arm.get("ln")))


def r78(ctx, fx):
    rid = ctx.rule("R7.8", "SymbolTable::parent answers the scope a symbol was defined in: an exported (imported) symbol has several incoming edges and the graph lists "
                   "the newest first, so the parent is the last element of the incoming-edge iterator, not the first")
    f = fx.fn("mos_core::codegen::symbols::SymbolTable::<S>::parent")
    if f is None:
        ctx.fail_closed(rid, "SymbolTable::parent not found")
        return
    key = "SymbolTable::parent|defining-edge"
    ctx.inst(rid, key)
    incoming = [x for x, p in lib.hir_calls(f.hir["body"]) if p and p.endswith("edges_directed")]
    if not incoming:
        ctx.not_decided("SymbolTable::parent no longer walks the incoming edges of the graph: which scope it answers for an imported symbol is not decided")
        return
    consumers = [x.get("name") for x in lib.hwalk(f.hir["body"]) if x.get("k") == "mcall" and x.get("name") in ("next", "last", "nth", "find", "min_by_key", "max_by_key", "next_back")]
    if "next" in consumers or "nth" in consumers:
        ctx.finding(rid, key, "SymbolTable::parent takes the first incoming edge: for a scope that was imported into another file this is the importing scope, so "
                    "lookups from inside the imported scope continue in the importer (`lda bar` inside an imported block resolves to the importer's `bar`)", f.where)


def r74(ctx, fx):
    rid = ctx.rule("R7.4", "with_scope: every non-unwinding path from `current_scope.push` to the return passes `current_scope.pop` and the restore of "
                   "current_scope_nx; with_dummy_segment: every path from the insert of `$dummy` passes its removal and the restore of current_segment")
    for nm, opener, closer, restored in ((CC + "::with_scope", "IdentifierPath::push", "IdentifierPath::pop", "current_scope_nx"),
                                        (CC + "::with_dummy_segment", "IndexMap::insert", "IndexMap::remove", "current_segment")):
        f = fx.fn(nm)
        if f is None:
            ctx.fail_closed(rid, "%s not found" % nm)
            continue
        opens = [bi for bi, t in lib.calls(f) if lib.pm(lib.callee(t)[0], opener)]
        closes = [bi for bi, t in lib.calls(f) if lib.pm(lib.callee(t)[0], closer) or lib.pm(lib.callee(t)[0], closer.replace("remove", "shift_remove")) or
                  lib.pm(lib.callee(t)[0], closer.replace("remove", "swap_remove"))]
        rets = lib.return_blocks(f)
        if nm.endswith("with_dummy_segment"):
            # the segment that the insert replaced (dummy segments nest: a branch that is not taken inside a macro that is not invoked) is put back
            # after the callback — a second insert, which closes like the removal does
            cb0 = [bi for bi, t in lib.calls(f) if lib.pm(lib.callee(t)[0], "FnOnce::call_once")]
            after0 = lib.reachable(f, f.blocks[cb0[0]]["term"]["target"]) if len(cb0) == 1 else set()
            reinserts = [bi for bi in opens if bi in after0]
            opens = [bi for bi in opens if bi not in after0]
            closes += reinserts
            kn = "%s|nests" % nm
            ctx.inst(rid, kn, sample={"puts_back_the_replaced_segment": bool(reinserts)})
            if not reinserts:
                ctx.finding(rid, kn, "with_dummy_segment removes `$dummy` when it is done, whether or not there was one before: inside an enclosing dummy segment (an "
                            "`.if 0 { }` in the body of a macro that is not invoked, in a `.test`, in another untaken branch) the rest of the enclosing analysis has "
                            "no current segment and the language server panics on a valid program", f.where)
        key = "%s|balanced" % nm
        ctx.inst(rid, key, sample={"open_sites": len(opens), "close_sites": len(closes)})
        if len(opens) != 1 or not closes:
            ctx.finding(rid, key, "%s: expected one %s and at least one %s (found %d / %d)" % (nm.rsplit("::", 1)[1], opener, closer, len(opens), len(closes)), f.where)
            continue
        t_open = f.blocks[opens[0]]["term"]["target"]
        bad = [r for r in rets if not lib.must_pass(f, closes, r, start=t_open)]
        if bad:
            ctx.finding(rid, key, "%s can return without undoing %s (a path skips %s): every later statement is assembled in the wrong scope/segment" % (
                nm.rsplit("::", 1)[1], opener, closer), f.where)
        # restore of the saved field after the callback
        key2 = "%s|restore-%s" % (nm, restored)
        ctx.inst(rid, key2)
        restores = []
        for bi, si, s in lib.stmts(f):
            if s["k"] == "assign" and restored in lib.place_fields(s["dst"]):
                restores.append(bi)
        for bi, t in lib.calls(f):
            if restored in lib.place_fields(t["dst"]):
                restores.append(bi)
        # the callback call
        cbs = [bi for bi, t in lib.calls(f) if lib.pm(lib.callee(t)[0], "FnOnce::call_once")]
        if len(cbs) != 1:
            ctx.fail_closed(rid, "callback invocation not found in %s" % nm)
            continue
        after = f.blocks[cbs[0]]["term"]["target"]
        after_restores = [b for b in restores if b in lib.reachable(f, after)]
        bad = [r for r in rets if not after_restores or not lib.must_pass(f, after_restores, r, start=after)]
        if bad:
            ctx.finding(rid, key2, "%s does not restore `%s` on every path after the callback" % (nm.rsplit("::", 1)[1], restored), f.where)


def r79(ctx, fx, et):
    rid = ctx.rule("R7.9", "every iteration of a `.loop` runs in a scope of its own: the scope handed to with_scope inside the iteration is built from the iteration "
                   "variable — with one scope for all iterations the block symbols `-`/`+` and every label of the body exist once, so later iterations silently "
                   "keep (or clash with) the first iteration's")
    arm = token_arm(et, "Loop")
    if arm is None:
        ctx.fail_closed(rid, "Token::Loop arm not found")
        return
    key = "%s|Loop|scope-per-iteration" % et.path
    ctx.inst(rid, key)
    fl = [n for n in lib.hwalk(arm["body"]) if n.get("k") == "match" and n.get("src") == "ForLoopDesugar" and lib.strip(n["scrut"]).get("k") == "call"]
    if not fl:
        ctx.fail_closed(rid, "the iteration loop of the Loop arm was not found")
        return
    itervar = None
    for a_ in lib.hwalk(fl[0]):
        if a_.get("k") == "struct" and lib.pm((a_.get("res") or {}).get("path"), "Option::Some") and a_.get("fields"):
            q = a_["fields"][0].get("pat")
            if q and q.get("k") == "bind":
                itervar = q["name"]
                break
    sc = [x for x, p in lib.hir_calls(fl[0], "CodegenContext::with_scope")]
    lets = {n["pat"]["name"]: n["init"] for n in lib.hwalk(fl[0]) if n.get("k") == "let" and n["pat"].get("k") == "bind" and "init" in n}
    ok = False
    if sc and itervar:
        arg = lib.hargs(sc[0])[1]
        nm = lib.hpath(lib.strip(arg))
        src = lets.get(nm, arg)
        ok = any(y.get("k") == "path" and lib.hpath(y) == itervar for y in lib.hwalk(src))
    if not ok:
        ctx.finding(rid, key, "all iterations of a `.loop` share one scope (the scope given to with_scope does not depend on the iteration): `bne -` in the second iteration "
                    "branches to the first iteration's block start — `.loop 2 { dex / bne - }` assembles to `… D0 FA` instead of `… D0 FD`",
                    "%s:%s" % (et.file, arm.get("ln")))


def r75(ctx, fx):
    rid = ctx.rule("R7.5", "symbols that a construct inserts once per block / per iteration (`-`, `+`): the result of the insertion must not be discarded — a "
                   "`cannot redefine` failure thrown away means later iterations silently keep the first iteration's value (= R4.4 applied to with_scope)")
    f = fx.fn(CC + "::with_scope")
    if f is None:
        ctx.fail_closed(rid, "with_scope not found")
        return
    n = 0
    seen = {}
    for kind, ln, what in discard_sites(f):
        seen[kind] = seen.get(kind, 0) + 1
        n += 1
        key = "%s|%s#%d" % (f.path, kind, seen[kind])
        ctx.inst(rid, key, sample={"line": ln, "what": what})
        ctx.finding(rid, key, "the result of inserting a block symbol (`-`/`+`) is discarded in with_scope: inside `.loop` every iteration shares one scope, the second "
                    "insertion fails with `cannot redefine`, and `-`/`+` keep the first iteration's address — the loop is not its expansion", "%s:%s" % (f.file, ln))
    # the insertions themselves must exist (anchor)
    adds = [x for x, p in lib.hir_calls(f.hir["body"], "CodegenContext::add_symbol")]
    names = sorted(str(lib.hlit(lib.hargs(x)[1])) for x in adds)
    ctx.inst(rid, "%s|block-symbols" % f.path, sample={"symbols": names})
    if names != ["+", "-"]:
        ctx.fail_closed(rid, "with_scope no longer inserts exactly the block symbols `-` and `+` (%s)" % names)


def r710(ctx, fx, et):
    rid = ctx.rule("R7.10", "`.import *` makes every name of the imported scope visible, the names the imported file got from its own imports too (the file's text, placed "
                   "at the import site, would have them): in the `*` branch of the import arm the loop over the children of the import scope exports each child under "
                   "no other condition than `is_special()`")
    from .c11 import _anc_walk
    arm = token_arm(et, "Import")
    if arm is None:
        ctx.fail_closed(rid, "Token::Import arm not found in emit_token")
        return
    loops = [n for n in lib.hwalk(arm["body"]) if n.get("k") == "match" and n.get("src") == "ForLoopDesugar" and
             any(y.get("k") == "mcall" and y.get("name") == "children" for y in lib.hwalk(n["scrut"]))]
    if len(loops) != 1:
        ctx.fail_closed(rid, "the loop over the children of the import scope was not found uniquely (%d)" % len(loops))
        return
    loop = loops[0]
    pushes = 0
    bad = []
    for x in lib.hwalk(loop["arms"]):
        if x.get("k") == "mcall" and x.get("name") == "push":
            pushes += 1
    for n in lib.hwalk(loop["arms"]):
        if n.get("src") in ("ForLoopDesugar", "WhileDesugar") or (n.get("k") == "match" and any(str(v).endswith(("Option::None", "Option::Some(_)")) for a in n["arms"] for v in lib.pat_variants(a["pat"])) and "next" in repr(lib.hdesc(n["scrut"]))):
            continue
        conds = []
        if n.get("k") == "if":
            conds.append(n["cond"])
        if n.get("k") == "match" and n.get("src") == "Normal":
            conds.append(n["scrut"])
            conds += [a["guard"] for a in n["arms"] if a.get("guard") is not None]
        for c in conds:
            calls = {y.get("name") for y in lib.hwalk(c) if y.get("k") == "mcall"} | {str(lib.hcallee(y) or "").rsplit("::", 1)[-1] for y in lib.hwalk(c) if y.get("k") == "call"}
            calls.discard("")
            if calls - {"is_special"} or not calls:
                bad.append((n.get("ln"), sorted(calls)))
    # adaptors on the iterated collection that drop elements
    filt = []
    for y in lib.hwalk(loop["scrut"]):
        if y.get("k") == "mcall" and y.get("name") in ("filter", "filter_map", "take", "skip", "take_while", "skip_while", "retain"):
            # leaving out the special identifiers is the one condition there is
            clo = lib.strip(y["args"][0]) if y.get("args") else {}
            calls = {z.get("name") for z in lib.hwalk(clo.get("body", {})) if z.get("k") == "mcall"} if clo.get("k") == "closure" else {"?"}
            if y.get("name") == "filter" and calls and calls <= {"is_special"}:
                continue
            filt.append(y.get("name"))
    key = "%s|Import|all-children-exported" % et.path
    ctx.inst(rid, key, sample={"pushes_in_the_loop": pushes, "other_conditions": bad, "filters_on_the_children": filt})
    if pushes < 1:
        ctx.fail_closed(rid, "the loop over the children exports nothing (no push)")
    elif bad or filt:
        ctx.finding(rid, key, "`.import *` leaves out some of the imported scope's names (%s): a name the imported file itself imported is not visible to the importer, a use "
                    "of it binds to a symbol of the same name further out — other bytes, no diagnostic — or is `unknown`, while the hand expansion assembles" % (
                        ", ".join("condition on %s" % "/".join(c) for _, c in bad) or "filtered with %s" % "/".join(filt)), "%s:%s" % (et.file, loop.get("ln")))


def run(ctx):
    fx = ctx.facts
    et = fx.fn(CC + "::emit_token")
    if et is None:
        ctx.fail_closed("R7", "emit_token not found")
        return
    r71(ctx, fx, et)
    r72(ctx, fx, et)
    r73(ctx, fx, et)
    r74(ctx, fx)
    r75(ctx, fx)
    r79(ctx, fx, et)
    r76_77(ctx, fx, et)
    r78(ctx, fx)
    r710(ctx, fx, et)
    ctx.not_decided("byte equality of (P, expand(P)) on concrete programs; `.const` substitution; import scoping beyond R7.10; nesting depth")
