"""C08 — layout and letter case of the source do not change its meaning (structural clauses).

 R8.1 every terminal of the grammar whose literal contains an ASCII letter is matched case-insensitively
 R8.2 where the text matched by a case-insensitive terminal is *retained* (not replaced by a constant), every consumer that
      compares it does so case-insensitively
 R8.3 every statement keyword is preceded by the multi-line trivia wrapper, every operand-level terminal by the single-line
      one (a terminal without any trivia wrapper would make layout significant) — whitelist of bare terminals
"""
from . import grammar, lib

# bare terminals (no ws/mws around them), each confirmed by reading
BARE_OK = {
    ("mos_core::parser::cpp_comment", "//"): "inside trivia",
    ("mos_core::parser::c_comment", "/*"): "inside trivia",
    ("mos_core::parser::multiline_trivia", "\r"): "inside trivia",
    ("mos_core::parser::multiline_trivia", "\n"): "inside trivia",
    ("mos_core::parser::identifier_name", "_"): "inside an identifier",
    ("mos_core::parser::identifier_char", "_"): "a character inside an identifier; used as a negative lookahead after `true` / `false`",
    ("mos_core::parser::identifier_scope", "-"): "the whole path is wrapped by its callers",
    ("mos_core::parser::identifier_scope", "+"): "the whole path is wrapped by its callers",
    ("mos_core::parser::identifier_path", "."): "no blanks inside a dotted path (by design)",
    ("mos_core::parser::label", ":"): "the colon must follow the label name directly (by design: `a :` is not a label)",
    ("mos_core::parser::interpolated_string", "{"): "inside a string literal",
    ("mos_core::parser::interpolated_string", "}"): "inside a string literal",
    ("mos_core::parser::interpolated_string", "\""): "closing quote: the string body precedes it",
    ("mos_core::parser::quoted_string", "\""): "closing quote: the string body precedes it",
    ("mos_core::parser::config_map::config_key", "-"): "inside a key",
}


def parser_fns(fx):
    for f in sorted(fx.all_fns("mos_core"), key=lambda f: f.path):
        if f.kind == "fn" and f.path.startswith("mos_core::parser::") and "::tests::" not in f.path and "::testing" not in f.path and \
                "::code_map::" not in f.path and "::source::" not in f.path and "::identifier::" not in f.path:
            yield f


def terminals(g, wrapped=False, mapped_const=False, out=None):
    """(term, wrapped-in-trivia?, replaced-by-constant?) for every char/tag/tagvar under g"""
    if out is None:
        out = []
    if not isinstance(g, tuple):
        return out
    h = g[0]
    if h in ("char", "tag", "tagvar"):
        out.append((g, wrapped, mapped_const))
        return out
    if h in ("ws", "mws"):
        terminals(g[1], True, mapped_const, out)
        return out
    if h == "not":
        # a negative lookahead consumes nothing: what it looks for directly after the previous terminal needs no trivia in front
        terminals(g[1], True, mapped_const, out)
        return out
    if h == "map":
        clo = g[2]
        const = False
        if isinstance(clo, dict) and clo.get("k") == "closure":
            ps = clo.get("params", [])
            if len(ps) == 1 and ps[0].get("k") == "wild":
                const = True
        terminals(g[1], wrapped, mapped_const or const, out)
        return out
    for c in g[1:]:
        if isinstance(c, tuple):
            terminals(c, wrapped, mapped_const, out)
        elif isinstance(c, list):
            for e in c:
                terminals(e, wrapped, mapped_const, out)
    return out


def r81_83(ctx, fx):
    rid1 = ctx.rule("R8.1", "every char/tag terminal of the grammar whose literal contains an ASCII letter uses tag_no_case")
    rid3 = ctx.rule("R8.3", "every terminal is wrapped (itself or through an enclosing combinator) in the single-/multi-line trivia parser, except the tabled bare "
                    "terminals inside trivia, identifiers, paths and string bodies")
    n_tags = 0
    keywords = []  # (fn, literal) of no-case tags
    for f in parser_fns(fx):
        gs = [grammar.fn_grammar(f)] + grammar.applied_parsers(f)
        seen = set()
        for g in gs:
            for t, wrapped, const in terminals(g):
                lit = t[1]
                ident = (t[0], lit, t[-1].get("ln") if isinstance(t[-1], dict) else None)
                if ident in seen:
                    continue
                seen.add(ident)
                if lit is None:
                    continue
                n_tags += 1
                k = "%s|%s|%r" % (f.path, t[0], lit)
                alpha = any(c.isalpha() and c.isascii() for c in str(lit))
                if t[0] == "tagvar":
                    ctx.inst(rid1, k, sample={"fn": f.path, "terminal": "tag(<%s>)" % lit, "no_case": t[2]})
                    if not t[2]:
                        ctx.finding(rid1, k, "the keyword passed as `%s` is matched case-sensitively in %s" % (lit, f.path.rsplit("::", 1)[1]), f.where)
                    continue
                ctx.inst(rid1, k, nontrivial=alpha, sample={"fn": f.path, "terminal": lit, "no_case": t[2] if t[0] == "tag" else None} if alpha and n_tags % 9 == 0 else None)
                if alpha:
                    nocase = t[0] == "tag" and t[2]
                    if not nocase:
                        ctx.finding(rid1, k, "terminal %r in %s is matched case-sensitively: changing its letter case changes what the program means" % (
                            lit, f.path.rsplit("::", 1)[1]), "%s:%s" % (f.file, ident[2]))
                    else:
                        keywords.append((f, str(lit), const))
                # R8.3
                k3 = "%s|%r" % (f.path, lit)
                bare_ok = (f.path, str(lit)) in BARE_OK
                ctx.inst(rid3, k3, nontrivial=not wrapped)
                if not wrapped and not bare_ok and not alpha_operator_in_ws_alt(f, t):
                    ctx.finding(rid3, k3, "terminal %r in %s is not preceded by the trivia parser: blanks or comments before it are not accepted" % (
                        lit, f.path.rsplit("::", 1)[1]), "%s:%s" % (f.file, ident[2]))
    ctx.floor(rid1, 120, "terminals")
    return keywords


def alpha_operator_in_ws_alt(f, t):
    """operator tags and mnemonic/encoding tags sit inside ws(alt(map(tag…)))/mws(mnemonic): `wrapped` already covers ws(alt(..));
    mnemonic tags are wrapped at their use site (mws(mnemonic))"""
    return f.path.startswith("mos_core::parser::mnemonic::")


def r82(ctx, fx, keywords):
    rid = ctx.rule("R8.2", "text matched by a case-insensitive keyword that is kept in the syntax tree is only compared case-insensitively: no `match`/`==` "
                   "against the lowercase literal on a non-normalised string in the workspace")
    retained = sorted({lit.lower() for f, lit, const in keywords if not const and len(lit) > 1 and lit.isalpha()})
    # directive tags are replaced through tag.map_into(|_| ".x".into()) in the enclosing closure: find which literals are re-created as constants
    # → conservative: check consumers for *every* alphabetic no-case keyword
    allkw = sorted({lit.lower() for f, lit, const in keywords if lit.replace(".", "").isalpha() and len(lit) > 1})
    n = 0
    for f in sorted(fx.all_fns(), key=lambda f: f.path):
        if not f.d.get("hir") or "::tests::" in f.path or "::testing" in f.path or f.d.get("exp"):
            continue   # (functions generated by derive macros — e.g. strum's FromStr for Mnemonic, unused — are not user code)
        cnt = 0
        for m in lib.hwalk(f.hir["body"]):
            if m.get("k") == "match":
                sty = (lib.strip(m["scrut"]).get("ty") or "")
                if sty not in ("&str", "&'static str"):
                    continue
                lits = [a["pat"].get("v") for a in m["arms"] if a["pat"].get("k") == "lit" and a["pat"].get("lk") == "str"]
                hit = [l for l in lits if isinstance(l, str) and l.lower() in allkw]
                if not hit:
                    continue
                cnt += 1
                n += 1
                d = repr(lib.hdesc(m["scrut"]))
                normalised = "to_lowercase" in d or "to_ascii_lowercase" in d
                key = "%s|match-str#%d" % (f.path, cnt)
                ctx.inst(rid, key, sample={"fn": f.path, "keywords": hit, "normalised": normalised, "line": m.get("ln")})
                if not normalised:
                    ctx.finding(rid, key, "%s compares text the parser accepted case-insensitively (%s) with a case-sensitive `match`: `%s` is accepted by the "
                                "grammar but not understood here" % (f.path, ", ".join(hit), hit[0].upper()), "%s:%s" % (f.file, m.get("ln")))
        # `text == "keyword"` / `"keyword" == text` / text.eq("keyword")
        for x in lib.hwalk(f.hir["body"]):
            lit = other = None
            if x.get("k") == "binary" and x["op"] in ("Eq", "Ne"):
                for a, b in ((x["l"], x["r"]), (x["r"], x["l"])):
                    if isinstance(lib.hlit(a), str):
                        lit, other = lib.hlit(a), b
            elif x.get("k") == "mcall" and x.get("name") in ("eq", "ne") and x.get("args") and isinstance(lib.hlit(x["args"][0]), str):
                lit, other = lib.hlit(x["args"][0]), x["recv"]
            if lit is None or lit.lower() not in allkw or not lit.replace(".", "").isalpha():
                continue
            oty = (lib.strip(other).get("ty") or "")
            if "str" not in oty and "String" not in oty:
                continue
            d = repr(lib.hdesc(other))
            normalised = "to_lowercase" in d or "to_ascii_lowercase" in d
            cnt += 1
            n += 1
            key = "%s|eq-str#%d" % (f.path, cnt)
            ctx.inst(rid, key, sample={"fn": f.path, "keyword": lit, "normalised": normalised, "line": x.get("ln")})
            if not normalised:
                ctx.finding(rid, key, "%s compares text with the keyword %r case-sensitively (`==`) although the grammar accepts it in any letter case" % (f.path, lit),
                            "%s:%s" % (f.file, x.get("ln")))
    ctx.extra["case_insensitive_keywords"] = allkw
    if len(allkw) < 20:
        ctx.fail_closed(rid, "fewer than 20 case-insensitive keywords found in the grammar (%d)" % len(allkw))
    ctx.inst(rid, "keywords", sample={"retained_candidates": retained[:12]})


def r84(ctx, fx):
    from . import grammar
    rid = ctx.rule("R8.4", "a line comment may be empty: the text parser that follows the `//` tag accepts the empty string (opt / many0 / take_while), "
                   "otherwise a line that ends right after `//` is rejected although the same line with `// x` or without the comment assembles")
    f = fx.fn("mos_core::parser::cpp_comment")
    if f is None:
        ctx.fail_closed(rid, "parser::cpp_comment not found")
        return
    g = grammar.fn_grammar(f)
    seqs = [t for t in grammar.walk(g) if t[0] == "seq" and t[1] and t[1][0][0] == "tag" and t[1][0][1] == "//"]
    ctx.inst(rid, "cpp_comment|empty", sample={"grammar": grammar.short(g)[:80]})
    if not seqs:
        ctx.fail_closed(rid, "cpp_comment is not `//` followed by a text parser: %s" % grammar.short(g)[:80])
        return
    NULLABLE = ("opt", "many0", "takewhile", "take_while", "rest", "many0_count")
    for body in seqs[0][1][1:]:
        if body[0] not in NULLABLE:
            ctx.finding(rid, "cpp_comment|empty", "the text of a `//` comment is parsed with `%s`, which needs at least one character: `lda #1 //` followed by a "
                        "line break is a syntax error" % grammar.short(body)[:40], f.where)


def run(ctx):
    fx = ctx.facts
    kws = r81_83(ctx, fx)
    r82(ctx, fx, kws)
    r84(ctx, fx)
    ctx.not_decided("equality of bytes/symbols/diagnostics for concrete trivia placements; nested block comment scanning on arbitrary text; CRLF handling beyond "
                    "the newline trivia rule")
