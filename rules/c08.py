"""C08 — layout and letter case of the source do not change its meaning (structural clauses).

 R8.1 every terminal of the grammar whose literal contains an ASCII letter is matched case-insensitively
 R8.2 where the text matched by a case-insensitive terminal is *retained* (not replaced by a constant), every consumer that
      compares it does so case-insensitively
 R8.3 every statement keyword is preceded by the multi-line trivia wrapper, every operand-level terminal by the single-line
      one (a terminal without any trivia wrapper would make layout significant) — whitelist of bare terminals
"""
from . import grammar, lib

# bare terminals (no ws/mws around them), each confirmed by reading
BARE_OK = {
    ("mos_core::parser::cpp_comment", "//"): "inside trivia",
    ("mos_core::parser::c_comment", "/*"): "inside trivia",
    ("mos_core::parser::multiline_trivia", "\r"): "inside trivia",
    ("mos_core::parser::multiline_trivia", "\n"): "inside trivia",
    ("mos_core::parser::identifier_name", "_"): "inside an identifier",
    ("mos_core::parser::identifier_char", "_"): "a character inside an identifier; used as a negative lookahead after `true` / `false`",
    ("mos_core::parser::identifier_scope", "-"): "the whole path is wrapped by its callers",
    ("mos_core::parser::identifier_scope", "+"): "the whole path is wrapped by its callers",
    ("mos_core::parser::identifier_path", "."): "no blanks inside a dotted path (by design)",
    ("mos_core::parser::label", ":"): "the colon must follow the label name directly (by design: `a :` is not a label)",
    ("mos_core::parser::interpolated_string", "{"): "inside a string literal",
    ("mos_core::parser::interpolated_string", "}"): "inside a string literal",
    ("mos_core::parser::interpolated_string", "\""): "closing quote: the string body precedes it",
    ("mos_core::parser::quoted_string", "\""): "closing quote: the string body precedes it",
    ("mos_core::parser::config_map::config_key", "-"): "inside a key",
}


def parser_fns(fx):
    for f in sorted(fx.all_fns("mos_core"), key=lambda f: f.path):
        if f.kind == "fn" and f.path.startswith("mos_core::parser::") and "::tests::" not in f.path and "::testing" not in f.path and \
                "::code_map::" not in f.path and "::source::" not in f.path and "::identifier::" not in f.path:
            yield f


def terminals(g, wrapped=False, mapped_const=False, out=None):
    """(term, wrapped-in-trivia?, replaced-by-constant?) for every char/tag/tagvar under g"""
    if out is None:
        out = []
    if not isinstance(g, tuple):
        return out
    h = g[0]
    if h in ("char", "tag", "tagvar"):
        out.append((g, wrapped, mapped_const))
        return out
    if h in ("ws", "mws"):
        terminals(g[1], True, mapped_const, out)
        return out
    if h == "not":
        # a negative lookahead consumes nothing: what it looks for directly after the previous terminal needs no trivia in front
        terminals(g[1], True, mapped_const, out)
        return out
    if h == "map":
        clo = g[2]
        const = False
        if isinstance(clo, dict) and clo.get("k") == "closure":
            ps = clo.get("params", [])
            if len(ps) == 1 and ps[0].get("k") == "wild":
                const = True
        terminals(g[1], wrapped, mapped_const or const, out)
        return out
    for c in g[1:]:
        if isinstance(c, tuple):
            terminals(c, wrapped, mapped_const, out)
        elif isinstance(c, list):
            for e in c:
                terminals(e, wrapped, mapped_const, out)
    return out


def r81_83(ctx, fx):
    rid1 = ctx.rule("R8.1", "every char/tag terminal of the grammar whose literal contains an ASCII letter uses tag_no_case")
    rid3 = ctx.rule("R8.3", "every terminal is wrapped (itself or through an enclosing combinator) in the single-/multi-line trivia parser, except the tabled bare "
                    "terminals inside trivia, identifiers, paths and string bodies")
    n_tags = 0
    keywords = []  # (fn, literal) of no-case tags
    for f in parser_fns(fx):
        gs = [grammar.fn_grammar(f)] + grammar.applied_parsers(f)
        seen = set()
        for g in gs:
            for t, wrapped, const in terminals(g):
                lit = t[1]
                ident = (t[0], lit, t[-1].get("ln") if isinstance(t[-1], dict) else None)
                if ident in seen:
                    continue
                seen.add(ident)
                if lit is None:
                    continue
                n_tags += 1
                k = "%s|%s|%r" % (f.path, t[0], lit)
                alpha = any(c.isalpha() and c.isascii() for c in str(lit))
                if t[0] == "tagvar":
                    ctx.inst(rid1, k, sample={"fn": f.path, "terminal": "tag(<%s>)" % lit, "no_case": t[2]})
                    if not t[2]:
                        ctx.finding(rid1, k, "the keyword passed as `%s` is matched case-sensitively in %s" % (lit, f.path.rsplit("::", 1)[1]), f.where)
                    continue
                ctx.inst(rid1, k, nontrivial=alpha, sample={"fn": f.path, "terminal": lit, "no_case": t[2] if t[0] == "tag" else None} if alpha and n_tags % 9 == 0 else None)
                if alpha:
                    nocase = t[0] == "tag" and t[2]
                    if not nocase:
                        ctx.finding(rid1, k, "terminal %r in %s is matched case-sensitively: changing its letter case changes what the program means" % (
                            lit, f.path.rsplit("::", 1)[1]), "%s:%s" % (f.file, ident[2]))
                    else:
                        keywords.append((f, str(lit), const))
                # R8.3
                k3 = "%s|%r" % (f.path, lit)
                bare_ok = (f.path, str(lit)) in BARE_OK
                ctx.inst(rid3, k3, nontrivial=not wrapped)
                if not wrapped and not bare_ok and not alpha_operator_in_ws_alt(f, t):
                    ctx.finding(rid3, k3, "terminal %r in %s is not preceded by the trivia parser: blanks or comments before it are not accepted" % (
                        lit, f.path.rsplit("::", 1)[1]), "%s:%s" % (f.file, ident[2]))
    ctx.floor(rid1, 120, "terminals")
    return keywords


def alpha_operator_in_ws_alt(f, t):
    """operator tags and mnemonic/encoding tags sit inside ws(alt(map(tag…)))/mws(mnemonic): `wrapped` already covers ws(alt(..));
    mnemonic tags are wrapped at their use site (mws(mnemonic))"""
    return f.path.startswith("mos_core::parser::mnemonic::")


def r82(ctx, fx, keywords):
    rid = ctx.rule("R8.2", "text matched by a case-insensitive keyword that is kept in the syntax tree is only compared case-insensitively: no `match`/`==` "
                   "against the lowercase literal on a non-normalised string in the workspace")
    retained = sorted({lit.lower() for f, lit, const in keywords if not const and len(lit) > 1 and lit.isalpha()})
    # directive tags are replaced through tag.map_into(|_| ".x".into()) in the enclosing closure: find which literals are re-created as constants
    # → conservative: check consumers for *every* alphabetic no-case keyword
    allkw = sorted({lit.lower() for f, lit, const in keywords if lit.replace(".", "").isalpha() and len(lit) > 1})
    n = 0
    for f in sorted(fx.all_fns(), key=lambda f: f.path):
        if not f.d.get("hir") or "::tests::" in f.path or "::testing" in f.path or f.d.get("exp"):
            continue   # (functions generated by derive macros — e.g. strum's FromStr for Mnemonic, unused — are not user code)
        cnt = 0
        for m in lib.hwalk(f.hir["body"]):
            if m.get("k") == "match":
                sty = (lib.strip(m["scrut"]).get("ty") or "")
                if sty not in ("&str", "&'static str"):
                    continue
                lits = [a["pat"].get("v") for a in m["arms"] if a["pat"].get("k") == "lit" and a["pat"].get("lk") == "str"]
                hit = [l for l in lits if isinstance(l, str) and l.lower() in allkw]
                if not hit:
                    continue
                cnt += 1
                n += 1
                d = repr(lib.hdesc(m["scrut"]))
                normalised = "to_lowercase" in d or "to_ascii_lowercase" in d
                key = "%s|match-str#%d" % (f.path, cnt)
                ctx.inst(rid, key, sample={"fn": f.path, "keywords": hit, "normalised": normalised, "line": m.get("ln")})
                if not normalised:
                    ctx.finding(rid, key, "%s compares text the parser accepted case-insensitively (%s) with a case-sensitive `match`: `%s` is accepted by the "
                                "grammar but not understood here" % (f.path, ", ".join(hit), hit[0].upper()), "%s:%s" % (f.file, m.get("ln")))
        # `text == "keyword"` / `"keyword" == text` / text.eq("keyword")
        for x in lib.hwalk(f.hir["body"]):
            lit = other = None
            if x.get("k") == "binary" and x["op"] in ("Eq", "Ne"):
                for a, b in ((x["l"], x["r"]), (x["r"], x["l"])):
                    if isinstance(lib.hlit(a), str):
                        lit, other = lib.hlit(a), b
            elif x.get("k") == "mcall" and x.get("name") in ("eq", "ne") and x.get("args") and isinstance(lib.hlit(x["args"][0]), str):
                lit, other = lib.hlit(x["args"][0]), x["recv"]
            if lit is None or lit.lower() not in allkw or not lit.replace(".", "").isalpha():
                continue
            oty = (lib.strip(other).get("ty") or "")
            if "str" not in oty and "String" not in oty:
                continue
            d = repr(lib.hdesc(other))
            normalised = "to_lowercase" in d or "to_ascii_lowercase" in d
            cnt += 1
            n += 1
            key = "%s|eq-str#%d" % (f.path, cnt)
            ctx.inst(rid, key, sample={"fn": f.path, "keyword": lit, "normalised": normalised, "line": x.get("ln")})
            if not normalised:
                ctx.finding(rid, key, "%s compares text with the keyword %r case-sensitively (`==`) although the grammar accepts it in any letter case" % (f.path, lit),
                            "%s:%s" % (f.file, x.get("ln")))
    ctx.extra["case_insensitive_keywords"] = allkw
    if len(allkw) < 20:
        ctx.fail_closed(rid, "fewer than 20 case-insensitive keywords found in the grammar (%d)" % len(allkw))
    ctx.inst(rid, "keywords", sample={"retained_candidates": retained[:12]})


_NORMALISERS = ("to_lowercase", "to_ascii_lowercase", "to_uppercase", "to_ascii_uppercase", "eq_ignore_ascii_case")


def _case_sensitive_uses(body, names):
    """comparisons of a string derived from one of `names` that distinguish letter case: (line, what)"""
    out = []

    def mentions(e):
        return any(x.get("k") == "path" and (x.get("res") or {}).get("dk") == "Local" and x["res"].get("name") in names for x in lib.hwalk(e))

    def stringy(e):
        t = str(lib.strip(e).get("ty") or "")
        return "str" in t or "String" in t or "LocatedSpan" in t or "Cow" in t

    def normalised(e):
        d = repr(lib.hdesc(e))
        return any(n in d for n in _NORMALISERS)
    for x in lib.hwalk(body):
        k = x.get("k")
        if k == "binary" and x.get("op") in ("Eq", "Ne"):
            for a in (x["l"], x["r"]):
                if mentions(a) and stringy(a) and not normalised(a):
                    out.append((x.get("ln"), "`==`"))
                    break
        elif k == "mcall" and x.get("name") in ("eq", "ne", "starts_with", "ends_with", "contains", "cmp", "partial_cmp", "get", "contains_key") and \
                ((mentions(x["recv"]) and stringy(x["recv"]) and not normalised(x["recv"]) and x.get("name") not in ("get", "contains_key")) or
                 any(mentions(a) and stringy(a) and not normalised(a) for a in x.get("args", []))):
            out.append((x.get("ln"), "`%s`" % x["name"]))
        elif k == "match" and x.get("src") not in ("ForLoopDesugar", "TryDesugar", "QuestionMark") and mentions(x["scrut"]) and stringy(x["scrut"]) and \
                not normalised(x["scrut"]) and any(a["pat"].get("k") == "lit" for a in x["arms"]):
            out.append((x.get("ln"), "`match`"))
    return out


def r85(ctx, fx):
    rid = ctx.rule("R8.5", "text that a case-insensitive terminal matched and the parser keeps (the closure of the enclosing `map` uses it instead of replacing it by a "
                   "constant) is never compared case-sensitively: neither in the closure itself nor in the workspace function it is handed to (`==`, `eq`, "
                   "`match` on literals, map lookups — unless the text went through to_lowercase / eq_ignore_ascii_case first). The grammar accepts `PETSCII`; a "
                   "lookup that only knows `petscii` silently takes another meaning")
    n = 0
    seen = {}
    for f in parser_fns(fx):
        gs = [grammar.fn_grammar(f)] + grammar.applied_parsers(f)
        done = set()
        for g in gs:
            for t in grammar.walk(g):
                if t[0] != "map" or not isinstance(t[2], dict) or t[2].get("k") != "closure" or id(t[2]) in done:
                    continue
                done.add(id(t[2]))
                clo = t[2]
                nocase = [x for x in grammar.walk(t[1]) if (x[0] == "tag" and len(x) > 2 and x[2] is True) or (x[0] == "tagvar" and len(x) > 2 and x[2]) or
                          (x[0] == "call" and str(x[1]).endswith("tag_no_case"))]
                if not nocase:
                    continue
                names = {q["name"] for p_ in clo.get("params", []) for q in lib.hwalk(p_) if q.get("k") == "bind"}
                if not names:
                    continue
                n += 1
                seen[f.path] = seen.get(f.path, 0) + 1
                key = "%s|kept-text#%d" % (f.path, seen[f.path])
                uses = [(ln, what, f) for ln, what in _case_sensitive_uses(clo.get("body", {}), names)]
                handed = []
                for x, p in lib.hir_calls(clo.get("body", {})):
                    if not p or not (p.startswith("mos_core::") or p.startswith("mos::")):
                        continue
                    callee = fx.fn(p) or next((h for h in fx.all_fns() if lib.norm(h.path) == lib.norm(p) and h.d.get("hir")), None)
                    if callee is None or not callee.d.get("hir"):
                        continue
                    for i, a in enumerate(lib.hargs(x)):
                        if any(y.get("k") == "path" and (y.get("res") or {}).get("dk") == "Local" and y["res"].get("name") in names for y in lib.hwalk(a)) and \
                                not any(nm in repr(lib.hdesc(a)) for nm in _NORMALISERS):
                            ps = callee.hir.get("params") or []
                            if i < len(ps):
                                pn = {q["name"] for q in lib.hwalk(ps[i]) if q.get("k") == "bind"}
                                handed.append(callee.path)
                                uses += [(ln, what, callee) for ln, what in _case_sensitive_uses(callee.hir["body"], pn)]
                ctx.inst(rid, key, nontrivial=bool(handed or uses), sample={"parser": f.path, "kept": sorted(names), "handed_to": sorted(set(handed)),
                                                                             "case_sensitive_uses": len(uses)} if (handed or uses) else None)
                for j, (ln, what, where) in enumerate(uses):
                    ctx.finding(rid, "%s|%s#%d" % (key, where.path.rsplit("::", 1)[-1], j + 1),
                                "%s keeps the text a case-insensitive keyword matched and %s compares it with %s, which tells upper from lower case: the spelling "
                                "the grammar accepts in any letter case means something else (or nothing) when it is not written in lower case" % (
                                    f.path.rsplit("::", 1)[-1], where.path.rsplit("::", 2)[-1] if where is not f else "its closure", what),
                                "%s:%s" % (where.file, ln))
    if n < 5:
        ctx.fail_closed(rid, "fewer than 5 `map`s over case-insensitive terminals found (%d)" % n)


# decisions taken on the raw text of the input, each confirmed by reading
RAW_TEXT_OK = {
    ("mos_core::parser::c_comment", "starts_with"): (2, "inside a block comment: tells a nested opener from the closer"),
}


def r86(ctx, fx):
    rid = ctx.rule("R8.6", "what may stand in front of a token is decided by the trivia combinators alone: no parser function looks at the raw text of the input "
                   "(`input.fragment()`) with starts_with / ends_with / contains / find / trim* / strip_* / chars / bytes / split* to decide how to go on — a hand-written "
                   "peek has its own idea of what blanks and comments are (one that skips blanks but not comments makes `head /* c */ {` mean something else than "
                   "`head {`). Copying the text (to_string, to_owned) and length / boundary tests are not decisions of that kind")
    DECIDE = ("starts_with", "ends_with", "contains", "find", "rfind", "trim", "trim_start", "trim_end", "trim_matches", "trim_start_matches", "trim_end_matches",
              "strip_prefix", "strip_suffix", "chars", "bytes", "char_indices", "split", "split_whitespace", "splitn", "lines", "get", "as_bytes", "matches")
    n = 0
    seen = {}
    for f in sorted(fx.all_fns("mos_core"), key=lambda f: f.path):
        if "::tests::" in f.path or not f.path.startswith("mos_core::parser::") or not f.d.get("hir") or f.kind == "closure":
            continue
        if "::code_map::" in f.path or "::source::" in f.path:
            continue
        n += 1
        hits = []
        from .c11 import _anc_walk
        # names that a condition of the function reads
        cond_names = set()
        for x, anc in _anc_walk(f.hir["body"]):
            if x.get("k") == "path" and any(key in ("cond", "guard") or (key == "scrut" and p.get("src") != "TryDesugar") or
                                            (key == "init" and p.get("k") == "letx") for p, key in anc):
                cond_names.add((x.get("res") or {}).get("name") or x.get("name"))
        for x, anc in _anc_walk(f.hir["body"]):
            if x.get("k") == "mcall" and x.get("name") in DECIDE and \
                    any(y.get("k") == "mcall" and y.get("name") == "fragment" for y in lib.hwalk(x["recv"])):
                # a decision: the answer stands in a condition (if / while / match / guard / if-let), or in a `let` of a bool / Option that a condition reads;
                # text that is only copied into a message or a token is not one
                decides = any(key in ("cond", "guard") or (key == "scrut" and p.get("src") != "TryDesugar") or (key == "init" and p.get("k") == "letx")
                              for p, key in anc)
                if not decides:
                    for p, key in anc:
                        ty = str((p.get("init") or {}).get("ty", "")) if isinstance(p.get("init"), dict) else ""
                        if p.get("k") == "let" and key == "init" and (ty == "bool" or "Option<" in ty[:40]):
                            bound = {q["name"] for q in lib.hwalk(p.get("pat")) if q.get("k") == "bind"}
                            decides = bool(bound & cond_names)
                if decides:
                    hits.append((x["name"], x.get("ln")))
        if not hits:
            ctx.inst(rid, f.path, nontrivial=False)
        for name, ln in hits:
            kk = (f.path, name)
            seen[kk] = seen.get(kk, 0) + 1
            k = "%s|raw-text|%s#%d" % (f.path, name, seen[kk])
            ok = RAW_TEXT_OK.get(kk)
            ctx.inst(rid, k, sample={"fn": f.path, "method": name, "line": ln, "tabled": bool(ok and seen[kk] <= ok[0])})
            if ok and seen[kk] <= ok[0]:
                continue
            ctx.finding(rid, k, "%s decides on the raw text of the input (`fragment().%s…`) instead of through the trivia combinators: what it takes for layout is not "
                        "what the grammar takes for layout, so moving a comment or a line break changes which alternative is parsed" % (f.path.rsplit("::", 1)[-1], name),
                        "%s:%s" % (f.file, ln))
    ctx.floor(rid, 60, "parser bodies scanned")


def r84(ctx, fx):
    from . import grammar
    rid = ctx.rule("R8.4", "a line comment may be empty: the text parser that follows the `//` tag accepts the empty string (opt / many0 / take_while), "
                   "otherwise a line that ends right after `//` is rejected although the same line with `// x` or without the comment assembles")
    f = fx.fn("mos_core::parser::cpp_comment")
    if f is None:
        ctx.fail_closed(rid, "parser::cpp_comment not found")
        return
    g = grammar.fn_grammar(f)
    seqs = [t for t in grammar.walk(g) if t[0] == "seq" and t[1] and t[1][0][0] == "tag" and t[1][0][1] == "//"]
    ctx.inst(rid, "cpp_comment|empty", sample={"grammar": grammar.short(g)[:80]})
    if not seqs:
        ctx.fail_closed(rid, "cpp_comment is not `//` followed by a text parser: %s" % grammar.short(g)[:80])
        return
    NULLABLE = ("opt", "many0", "takewhile", "take_while", "rest", "many0_count")
    for body in seqs[0][1][1:]:
        if body[0] not in NULLABLE:
            ctx.finding(rid, "cpp_comment|empty", "the text of a `//` comment is parsed with `%s`, which needs at least one character: `lda #1 //` followed by a "
                        "line break is a syntax error" % grammar.short(body)[:40], f.where)


def r87(ctx, fx):
    from . import grammar
    rid = ctx.rule("R8.7", "a look-ahead (`not(..)`, `peek(..)`) looks at what follows *directly*: it does not wrap a trivia parser (`ws`, `mws`). A look-ahead that skips "
                   "blanks and comments looks at the next token, and the next token after a `-` / `+` label or at the end of an operand may be the first token of the "
                   "next statement on the same line — then a blank in place of the line break between two statements changes which alternative is parsed")
    n = 0
    j = 0
    for f in sorted(fx.all_fns("mos_core"), key=lambda f: f.path):
        if f.kind != "fn" or not f.path.startswith("mos_core::parser::") or "::tests::" in f.path or "::testing" in f.path:
            continue
        gs = [grammar.fn_grammar(f)] + grammar.applied_parsers(f)
        seen = set()
        for g in gs:
            for t in grammar.walk(g):
                if not (isinstance(t, tuple) and t and t[0] in ("not", "peek")):
                    continue
                sig = grammar.short(t)
                if sig in seen:
                    continue
                seen.add(sig)
                n += 1
                inner = [u for u in grammar.walk(t[1]) if isinstance(u, tuple) and u and u[0] in ("ws", "mws")]
                key = "%s|lookahead#%d" % (f.path, len(seen))
                ctx.inst(rid, key, sample={"fn": f.path, "lookahead": sig[:80], "skips_trivia": bool(inner)})
                if inner:
                    j += 1
                    ctx.finding(rid, "%s|lookahead-skips-trivia#%d" % (f.path, j),
                                "%s decides by a look-ahead that skips blanks and comments (`%s`): what it sees behind them may belong to the next statement on the line, "
                                "so `bne - rts` on one line and on two lines are parsed differently" % (f.path.rsplit("::", 1)[-1], sig[:70]), f.where)
    if n < 3:
        ctx.fail_closed(rid, "fewer than 3 look-aheads found in the parser (%d)" % n)


# keywords that continue a statement and may stand on a line of their own: what has to be in front of them is multi-line trivia
CONTINUATION_KEYWORDS = {
    "else": "the formatter itself writes `}` / `else` / `{` on three lines with `braces.position = new-line`",
    "from": "an import list may be broken before `from`",
}


def r88(ctx, fx):
    rid = ctx.rule("R8.8", "a keyword that continues a statement (`else` behind the block of an `.if`, `from` behind an import list) is matched behind the multi-line "
                   "trivia wrapper `mws`, not the single-line `ws` — directly or through a helper that is given the keyword: with `ws` a line break in front of it "
                   "(the layout the project's own formatter produces for `else`) is a syntax error while a blank is not")
    from .c11 import _anc_walk

    def wrapper(anc):
        for p_, key in reversed(anc):
            if p_.get("k") == "call":
                c = str(lib.hcallee(p_) or "")
                if c.endswith(("parser::ws", "parser::mws")):
                    return c.rsplit("::", 1)[-1]
        return None
    fns = [f for f in fx.all_fns("mos_core") if f.kind == "fn" and f.d.get("hir") and f.path.startswith("mos_core::parser::") and "::tests::" not in f.path]
    helpers = {}
    for f in fns:
        params = {q["name"] for prm in f.hir.get("params", []) for q in lib.hwalk(prm) if q.get("k") == "bind"}
        for x, anc in _anc_walk(f.hir["body"]):
            if x.get("k") == "call" and str(lib.hcallee(x) or "").endswith("tag_no_case") and x.get("args") and lib.hpath(lib.strip(x["args"][0])) in params:
                helpers[f.path] = wrapper(anc)
    found = {}
    for f in fns:
        for x, anc in _anc_walk(f.hir["body"]):
            if x.get("k") != "call" or not x.get("args"):
                continue
            c = str(lib.hcallee(x) or "")
            lit = lib.hlit(lib.strip(x["args"][0]))
            if not (isinstance(lit, str) and lit.lower() in CONTINUATION_KEYWORDS):
                continue
            if c.endswith(("tag_no_case", "::tag")):
                # (a case-sensitive `tag` is R8.1's finding; where the keyword sits is asked all the same)
                found.setdefault(lit.lower(), []).append((f, x.get("ln"), wrapper(anc)))
            elif lib.norm(c) in {lib.norm(h) for h in helpers}:
                w = helpers[[h for h in helpers if lib.norm(h) == lib.norm(c)][0]] or wrapper(anc)
                found.setdefault(lit.lower(), []).append((f, x.get("ln"), w))
    for kw in sorted(CONTINUATION_KEYWORDS):
        sites = found.get(kw, [])
        key = "keyword|%s" % kw
        ctx.inst(rid, key, sample={"keyword": kw, "sites": [(f.path.rsplit("::", 1)[-1], ln, w) for f, ln, w in sites]})
        if not sites:
            ctx.fail_closed(rid, "the keyword `%s` was not found in the parser" % kw)
        for f, ln, w in sites:
            if w != "mws":
                ctx.finding(rid, key, "`%s` is matched behind %s in %s: a line break in front of it is a syntax error, a blank is not — %s" % (
                    kw, "`ws`, which stops at the line end," if w == "ws" else "no trivia wrapper", f.path.rsplit("::", 1)[-1], CONTINUATION_KEYWORDS[kw]), "%s:%s" % (f.file, ln))


def run(ctx):
    fx = ctx.facts
    r87(ctx, fx)
    r88(ctx, fx)
    kws = r81_83(ctx, fx)
    r82(ctx, fx, kws)
    r84(ctx, fx)
    r85(ctx, fx)
    r86(ctx, fx)
    ctx.not_decided("equality of bytes/symbols/diagnostics for concrete trivia placements; nested block comment scanning on arbitrary text; CRLF handling beyond "
                    "the newline trivia rule")
