"""C09 — output files lay out banks and segments exactly as configured (structural clauses).

 R9.1 config keys: validator ≡ extractor ≡ reference, for `.define bank` and `.define segment`
 R9.2 definition order: banks/segments are kept in insertion-ordered containers; write_banks iterates the Vec, its HashMap is lookup-only
 R9.3 prg header = [lo, hi] of the first bank's start, prepended; output format default (None ∧ one bank → prg else bin)
 R9.4 every documented error condition has a diagnostic site and merge_segments returns Ok only when no error was collected
 R9.5 a configured option is never overwritten: every later assignment to an options field is guarded by an absence test of that field
 R9.6 bank merge: range = min/max over segments, segment bytes copied at (segment start − bank start), write=false segments filtered out,
      segments selected by their bank (or the default bank), padding with the fill value up to `size`
"""
import json
import os

from . import lib

HERE = os.path.dirname(os.path.abspath(__file__))
CC = "mos_core::codegen::CodegenContext"
BW = "mos_core::io::binary_writer::"


def r91(ctx, fx, et):
    rid = ctx.rule("R9.1", "for `.define bank` and `.define segment`: the keys declared to ConfigValidator (required/allowed) = the keys read through "
                   "ConfigExtractor = the reference table (user guide + property statement)")
    with open(os.path.join(os.path.dirname(HERE), "ref", "config_keys.json")) as f:
        ref = json.load(f)
    found = {}
    for m in lib.hwalk(et.hir["body"]):
        if m.get("k") != "match":
            continue
        for a in m["arms"]:
            if a["pat"].get("k") == "lit" and a["pat"].get("v") in ("bank", "segment"):
                kind = a["pat"]["v"]
                req, allowed, read = [], [], []
                for x, p in lib.hir_calls(a["body"]):
                    if lib.pm(p, "ConfigValidator::required"):
                        req.append(lib.hlit(x["args"][0]))
                    elif lib.pm(p, "ConfigValidator::allowed"):
                        allowed.append(lib.hlit(x["args"][0]))
                    elif p and "ConfigExtractor" in p and x.get("k") == "mcall" and x.get("name") in ("get_string", "try_get_string", "try_get_i64", "get_i64", "try_get_expression"):
                        read.append(lib.hlit(x["args"][1]))
                found[kind] = (req, allowed, read, a.get("ln"))
    for kind in ("bank", "segment"):
        k = "%s|define-%s" % (et.path, kind)
        if kind not in found:
            ctx.inst(rid, k)
            ctx.fail_closed(rid, "`.define %s` arm not found" % kind)
            continue
        req, allowed, read, ln = found[kind]
        w = ref[kind]
        ctx.inst(rid, k, sample={"kind": kind, "required": req, "allowed": allowed, "read": sorted(set(read))})
        if sorted(req) != sorted(w["required"]) or sorted(allowed) != sorted(w["allowed"]):
            ctx.finding(rid, k + "|validator", "`.define %s` validates keys required=%s allowed=%s; documented: required=%s allowed=%s" % (
                kind, sorted(req), sorted(allowed), w["required"], sorted(w["allowed"])), "%s:%s" % (et.file, ln))
        if sorted(set(read)) != sorted(set(req) | set(allowed)):
            ctx.finding(rid, k + "|extractor", "`.define %s` accepts %s but reads %s: an accepted option is ignored or an unvalidated one is read" % (
                kind, sorted(set(req) | set(allowed)), sorted(set(read))), "%s:%s" % (et.file, ln))


def r92(ctx, fx):
    rid = ctx.rule("R9.2", "CodegenContext.banks / .segments and merge_segments' bank map are insertion-ordered (IndexMap); write_banks walks the Vec<Bank> it is "
                   "given and uses its HashMap only for lookup (entry)")
    adt = fx.adts.get(CC)
    for fld in ("banks", "segments"):
        k = "%s|%s" % (CC, fld)
        ty = None
        if adt:
            for f in adt["variants"][0]["fields"]:
                if f["name"] == fld:
                    ty = f["ty"]
        ctx.inst(rid, k, sample={"field": fld, "type": (ty or "")[:60]})
        if not ty or not ty.startswith("indexmap::map::IndexMap<"):
            ctx.finding(rid, k, "CodegenContext.%s is a %s: definition order of %s is not preserved, so the order of banks in the output file is arbitrary" % (
                fld, ty, fld), None)
    ms = fx.fn(BW + "BinaryWriter::merge_segments")
    wb = fx.fn(BW + "BinaryWriter::write_banks")
    if not (ms and wb):
        ctx.fail_closed(rid, "merge_segments / write_banks not found")
        return
    k = ms.path + "|bank-map"
    tys = [l["ty"] for l in ms.locals if l.get("name") == "banks"]
    ctx.inst(rid, k, sample={"type": (tys or [""])[0][:60]})
    if not tys or not tys[0].startswith("indexmap::map::IndexMap<"):
        ctx.finding(rid, k, "merge_segments collects the banks in %s (must be insertion-ordered)" % tys, ms.where)
    # the result vector is built by iterating that map in order
    k = ms.path + "|result-order"
    ctx.inst(rid, k)
    ok = any(lib.pm(lib.callee(t)[0], "IntoIterator::into_iter") and "indexmap::map::IndexMap<" in ms.locals[lib.op_place(t["args"][0])["l"]]["ty"]
             for _, t in lib.calls(ms) if t["args"] and lib.op_place(t["args"][0]))
    if not ok:
        ctx.finding(rid, k, "the bank vector is not produced by iterating the ordered bank map", ms.where)
    # and the outer loop walks ctx.banks() (definition order)
    k = wb.path + "|iteration"
    ctx.inst(rid, k)
    hash_iters = []
    for o in lib.owned(fx, wb):
        for _, t in lib.calls(o):
            p = lib.norm(lib.callee(t)[0] or "")
            full = t["f"].get("full", "")
            if ("Iterator::next" in p or "IntoIterator::into_iter" in p or p.endswith("::iter") or p.endswith("::values") or p.endswith("::keys")) and \
                    "std::collections::hash" in full:
                hash_iters.append(p)
    if hash_iters:
        ctx.finding(rid, k, "write_banks iterates a HashMap (%s): the order of banks in a file follows hash order" % hash_iters[:2], wb.where)
    vec_iter = any(lib.pm(lib.callee(t)[0], "IntoIterator::into_iter") and wb.locals[lib.op_place(t["args"][0])["l"]]["ty"].startswith("alloc::vec::Vec<" + BW + "Bank")
                   for _, t in lib.calls(wb) if t["args"] and lib.op_place(t["args"][0]))
    if not vec_iter:
        ctx.finding(rid, k + "|vec", "write_banks does not walk the Vec<Bank> in order", wb.where)


def r93(ctx, fx):
    rid = ctx.rule("R9.3", "Bank::prg_header(pc).data = [pc & 255, (pc >> 8) & 255]; the build command prepends it (header first, then all banks) built from "
                   "banks[0].range().start, only for output format prg; output_format() defaults to prg iff exactly one bank, else bin")
    ph = fx.fn(BW + "Bank::prg_header")
    k = BW + "Bank::prg_header"
    ctx.inst(rid, k)
    if ph is None:
        ctx.fail_closed(rid, "Bank::prg_header not found")
    else:
        pn = ph.hir["params"][0].get("name")
        want = [("cast", "u8", ("BitAnd", ("c", 255), ("v", pn))), ("cast", "u8", ("BitAnd", ("Shr", ("v", pn), ("c", 8)), ("c", 255)))]
        got = None
        for s in lib.hwalk(ph.hir["body"]):
            if s.get("k") == "struct":
                for f in s["fields"]:
                    if f["name"] == "data":
                        from .c01 import user_exprs
                        got = [lib.hdesc(e) for e in user_exprs(f["e"])]
        if got != want:
            ctx.finding(rid, k, "the prg header bytes are %s, must be [pc & 255, (pc >> 8) & 255] (little-endian load address)" % (got,), ph.where)
    bc = [f for f in fx.all_fns("mos") if any(lib.pm(lib.callee(t)[0], "BinaryWriter::write_banks") for _, t in lib.calls(f))]
    if len(bc) != 1:
        ctx.fail_closed(rid, "build command not found")
        return
    bc = bc[0]
    k = bc.path + "|prepend"
    ctx.inst(rid, k)
    ok = False
    for n in lib.hwalk(bc.hir["body"]):
        if n.get("k") == "if":
            c = lib.hdesc(n["cond"])
            if c[0] == "Eq" and any(isinstance(x, tuple) and x[:2] == ("v", "mos::commands::build::OutputFormat::Prg") for x in c[1:]):
                # vec![Bank::prg_header(banks[0].range().start)] then extend(banks)
                hdr = [x for x, p in lib.hir_calls(n["then"], "Bank::prg_header")]
                hdr_for = [x for x, p in lib.hir_calls(n["then"], "Bank::prg_header_for")]
                ext = [x for x, p in lib.hir_calls(n["then"]) if x.get("k") == "mcall" and x.get("name") == "extend"]
                if hdr and ext:
                    a = lib.hdesc(hdr[0]["args"][0])
                    first = a[:2] == ("f", "start") and "('c', 0)" in repr(a) and "Bank::range" in repr(a)
                    order = hdr[0].get("ln", 0) <= ext[0].get("ln", 0) and lib.hdesc(ext[0]["recv"])[0] == "v"
                    ok = first and order
                elif hdr_for and ext:
                    # Bank::prg_header_for(&banks[0]): the helper takes the start (and the file name) of the bank it is given
                    a = repr(lib.hdesc(hdr_for[0]["args"][0]))
                    first = "('c', 0)" in a and "banks" in a
                    order = hdr_for[0].get("ln", 0) <= ext[0].get("ln", 0) and lib.hdesc(ext[0]["recv"])[0] == "v"
                    hf = fx.fn("mos_core::io::binary_writer::Bank::prg_header_for")
                    helper_ok = False
                    if hf is not None:
                        inner = [x for x, p in lib.hir_calls(hf.hir["body"], "Bank::prg_header")]
                        copies_name = any(x.get("k") == "assign" and lib.hdesc(x["l"])[:2] == ("f", "filename") and "'filename'" in repr(lib.hdesc(x["r"]))
                                          for x in lib.hwalk(hf.hir["body"]))
                        helper_ok = bool(inner) and "Bank::range" in repr(lib.hdesc(inner[0]["args"][0])) and \
                            lib.hdesc(inner[0]["args"][0])[:2] == ("f", "start") and copies_name
                        ctx.inst(rid, hf.path + "|same-file", sample={"copies_the_banks_filename": copies_name})
                        if not copies_name:
                            ctx.finding(rid, hf.path + "|same-file", "the prg header is not written to the file of the bank it precedes: a bank with a `filename` gets a "
                                        "file without load address while the header lands alone in the default output file", hf.where)
                    ok = first and order and helper_ok
    if not ok:
        ctx.finding(rid, k, "for prg output the two-byte header must be built from the start of the first bank and placed before all banks", bc.where)
    of = fx.fn("mos::commands::build::BuildOptions::output_format")
    k = "BuildOptions::output_format"
    ctx.inst(rid, k)
    if of is None:
        ctx.fail_closed(rid, "BuildOptions::output_format not found")
    else:
        m = [n for n in lib.hwalk(of.hir["body"]) if n.get("k") == "match"]
        good = False
        if m:
            arms = m[0]["arms"]
            desc = []
            for a in arms:
                g = lib.hdesc(a["guard"]) if a.get("guard") else None
                desc.append((lib.pat_key(a["pat"]), g, lib.hpath(a["body"])))
            good = (len(desc) == 3 and str(desc[0][0]).startswith("core::option::Option::Some") and
                    desc[1][0] == "core::option::Option::None" and desc[1][1] is not None and desc[1][1][0] == "Eq" and ("c", 1) in desc[1][1] and
                    (desc[1][2] or "").endswith("OutputFormat::Prg") and (desc[2][2] or "").endswith("OutputFormat::Bin"))
        if not good:
            ctx.finding(rid, k, "the default output format must be prg for exactly one bank and bin otherwise", of.where)


def r94(ctx, fx):
    rid = ctx.rule("R9.4", "merge_segments collects a diagnostic for: segment assigned to an unknown bank, bank shorter than `size` without fill, bank larger than "
                   "`size`; it returns Ok only under `errors.is_empty()`; finalize reports a segment without bank; Segment::emit refuses data outside $0000-$FFFF "
                   "and CodegenContext::emit turns that into a diagnostic")
    ms = fx.fn(BW + "BinaryWriter::merge_segments")
    if ms is None:
        ctx.fail_closed(rid, "merge_segments not found")
        return
    pushes = [x for x, p in lib.hir_calls(ms.hir["body"]) if x.get("k") == "mcall" and x.get("name") == "push" and
              any(lib.pm(pp, "Diagnostic::error") for _, pp in lib.hir_calls(x))]
    k = ms.path + "|error-sites"
    ctx.inst(rid, k, sample={"error_sites": len(pushes)})
    if len(pushes) < 3:
        ctx.finding(rid, k, "merge_segments has %d error sites; the three documented failure conditions (unknown bank, short bank without fill, oversized bank) need one each" % len(pushes), ms.where)
    # arms: Ordering::Less → match fill {Some → pad, None → error}; Ordering::Greater → error
    k = ms.path + "|size-check"
    ctx.inst(rid, k)
    good_less = good_greater = False
    for m in lib.hwalk(ms.hir["body"]):
        if m.get("k") == "match":
            for a in m["arms"]:
                pk = lib.pat_key(a["pat"])
                if pk == "core::cmp::Ordering::Greater" and any(lib.pm(p, "Diagnostic::error") for _, p in lib.hir_calls(a["body"])):
                    good_greater = True
                if pk == "core::cmp::Ordering::Less":
                    for m2 in lib.hwalk(a["body"]):
                        if m2.get("k") == "match":
                            keys = {str(lib.pat_key(x["pat"])).split("(")[0]: x for x in m2["arms"]}
                            none_arm = keys.get("core::option::Option::None")
                            some_arm = keys.get("core::option::Option::Some")
                            if none_arm and some_arm and any(lib.pm(p, "Diagnostic::error") for _, p in lib.hir_calls(none_arm["body"])) and \
                                    any(x.get("k") == "mcall" and x.get("name") == "extend" for x in lib.hwalk(some_arm["body"])):
                                good_less = True
    if not (good_less and good_greater):
        ctx.finding(rid, k, "the bank size check is incomplete (short bank: pad with fill or error = %s; oversized bank: error = %s)" % (good_less, good_greater), ms.where)
    # Ok only under errors.is_empty()
    k = ms.path + "|ok-guard"
    ctx.inst(rid, k)
    ok = False
    tail = ms.hir["body"].get("expr")
    t = lib.strip(tail) if tail else {}
    if t.get("k") == "if":
        c = lib.hdesc(t["cond"])
        if c[:2] == ("m", "alloc::vec::Vec::is_empty") and lib.pm(lib.hcallee(lib.strip(t["then"]).get("expr", lib.strip(t["then"]))), "Result::Ok") and \
                lib.pm(lib.hcallee(lib.strip(t["else"]).get("expr", lib.strip(t["else"]))), "Result::Err"):
            ok = True
    others = [x for x in lib.hwalk(ms.hir["body"]) if x.get("k") == "ret"]
    if not ok or others:
        ctx.finding(rid, k, "merge_segments can return Ok although bank layout errors were collected", ms.where)
    # finalize: segment without bank
    fin = fx.fn(CC + "::finalize")
    k = CC + "::finalize|unassigned"
    ctx.inst(rid, k)
    if fin is None:
        ctx.fail_closed(rid, "finalize not found")
    else:
        ok = False
        for n in lib.hwalk(fin.hir["body"]):
            if n.get("k") == "if":
                c = lib.hdesc(n["cond"])
                if c[0] == "m" and c[1].endswith("Option::is_none") and "bank" in repr(c) and any(lib.pm(p, "Diagnostic::error") for _, p in lib.hir_calls(n["then"])):
                    ok = True
        if not ok:
            ctx.finding(rid, k, "finalize no longer reports a segment that is not assigned to any bank", fin.where)
    # Segment::emit range guard
    se = fx.fn("mos_core::codegen::segment::Segment::emit")
    k = "Segment::emit|range"
    ctx.inst(rid, k)
    if se is None:
        ctx.fail_closed(rid, "Segment::emit not found")
    else:
        consts = set()
        guard_ret_false = False
        for n in lib.hwalk(se.hir["body"]):
            if n.get("k") == "if":
                for x in lib.hwalk(n["cond"]):
                    if x.get("k") == "binary" and x["op"] == "Gt" and lib.hlit(x["r"]) is not None:
                        consts.add(lib.hlit(x["r"]))
                if consts and any(y.get("k") == "ret" and lib.hlit(y.get("a", {})) is False for y in lib.hwalk(n["then"])):
                    guard_ret_false = True
        if consts != {0xffff, 0x10000} or not guard_ret_false:
            ctx.finding(rid, k, "Segment::emit must refuse (return false) when start > $FFFF or end > $10000; constants found %s" % sorted(consts), se.where)
    em = fx.fn(CC + "::emit")
    k = CC + "::emit|out-of-range"
    ctx.inst(rid, k)
    if em is not None:
        ok = False
        for n in lib.hwalk(em.hir["body"]):
            if n.get("k") == "if" and lib.pm(lib.hcallee(lib.strip(n["cond"])), "Segment::emit"):
                e = lib.strip(n.get("else", {}))
                if any(lib.pm(p, "Diagnostic::error") for _, p in lib.hir_calls(e)):
                    ok = True
        if not ok:
            ctx.finding(rid, k, "a refused emission (data outside $0000-$FFFF) is not turned into a diagnostic", em.where)


def r95(ctx, fx):
    rid = ctx.rule("R9.5", "outside the `.define` arm every assignment to a field of SegmentOptions / BankOptions is control-dependent on an absence test "
                   "(`is_none()`) of that same field — siblings must agree")
    n = 0
    for f in sorted(fx.all_fns("mos_core"), key=lambda f: f.path):
        if not f.d.get("hir") or "::tests::" in f.path or f.kind == "closure":
            continue
        if f.path.endswith("::emit_token"):
            continue   # the `.define` arm builds the options from scratch

        sites = []
        fresh_locals = {n_["pat"]["name"] for n_ in lib.hwalk(f.hir["body"]) if n_.get("k") == "let" and n_["pat"].get("k") == "bind" and "init" in n_ and
                        lib.strip(n_["init"]).get("k") == "call"}

        def rec(x, conds):
            if isinstance(x, list):
                for y in x:
                    rec(y, conds)
                return
            if not isinstance(x, dict):
                return
            if x.get("k") == "assign":
                d = lib.hdesc(x["l"])
                # the options of a bank that this very function has just constructed (a local initialised by a call) are not configured by anybody
                root = [t for t in lib.subterms(d) if isinstance(t, tuple) and len(t) == 2 and t[0] == "v"]
                if root and root[-1][1] in fresh_locals:
                    return
                if d[0] == "f" and ("options_mut" in repr(d) or "SegmentOptions" in (lib.strip(lib.strip(x["l"]).get("a", {})).get("ty") or "") or
                                    "BankOptions" in (lib.strip(lib.strip(x["l"]).get("a", {})).get("ty") or "")):
                    sites.append((x, d[1], list(conds)))
            if x.get("k") == "if":
                rec(x["cond"], conds)
                rec(x["then"], conds + [x["cond"]])
                if "else" in x:
                    rec(x["else"], conds)
                return
            for v in x.values():
                if isinstance(v, (dict, list)):
                    rec(v, conds)
        rec(f.hir["body"], [])
        cnt = 0
        for node, field, conds in sites:
            cnt += 1
            n += 1
            guarded = any(lib.hdesc(c)[0] == "m" and lib.hdesc(c)[1].endswith("Option::is_none") and ("'f', '%s'" % field) in repr(lib.hdesc(c)) for c in conds)
            key = "%s|%s#%d" % (f.path, field, cnt)
            ctx.inst(rid, key, sample={"fn": f.path, "field": field, "guarded_by_is_none": guarded, "line": node.get("ln")})
            if not guarded:
                ctx.finding(rid, key, "%s overwrites the `%s` option of a segment without checking that it is unset: an explicitly configured value is lost "
                            "(its sibling assignment is guarded by `.is_none()`)" % (f.path.rsplit("::", 1)[1], field), "%s:%s" % (f.file, node.get("ln")))
    if n < 2:
        ctx.fail_closed(rid, "fewer than two default-assignment sites found (%d): anchor moved" % n)


def r96(ctx, fx):
    rid = ctx.rule("R9.6", "Bank::merge: new range = min(starts)..max(ends); the segment's bytes are copied to (segment range − bank start); segments are selected "
                   "by `bank` (or the default bank) and `write`; later segments overwrite earlier ones (iteration in definition order, plain copy)")
    bm = fx.fn(BW + "Bank::merge")
    ms = fx.fn(BW + "BinaryWriter::merge_segments")
    if not (bm and ms):
        ctx.fail_closed(rid, "Bank::merge / merge_segments not found")
        return
    k = bm.path + "|range"
    ctx.inst(rid, k)
    rng = None
    for s in lib.hwalk(bm.hir["body"]):
        if s.get("k") == "struct" and lib.pm(s["res"].get("path"), "ops::range::Range"):
            fl = {f["name"]: lib.hdesc(f["e"]) for f in s["fields"]}
            rng = (fl.get("start", ("?",))[1] if fl.get("start") else None, fl.get("end", ("?",))[1] if fl.get("end") else None,
                   repr(fl.get("start")), repr(fl.get("end")))
    if not rng or rng[0] != "core::cmp::min" or rng[1] != "core::cmp::max" or "'start'" not in rng[2] or "'end'" not in rng[3]:
        ctx.finding(rid, k, "the merged bank range must be min(start)..max(end) of the bank so far and the segment; found %s" % (rng,), bm.where)
    k = bm.path + "|placement"
    ctx.inst(rid, k)
    subs = []
    for x in lib.hwalk(bm.hir["body"]):
        if x.get("k") == "assignop" and x["op"] == "SubAssign":
            subs.append((lib.hdesc(x["l"]), lib.hdesc(x["r"])))
    want_sub = ("f", "start", ("f", "range", ("v", "self")))
    ok = len(subs) == 2 and all(r == want_sub for _, r in subs) and {l[1] for l, _ in subs} == {"start", "end"}
    copy = [x for x, p in lib.hir_calls(bm.hir["body"]) if x.get("k") == "mcall" and x.get("name") == "copy_from_slice"]
    ok = ok and len(copy) == 1 and any(lib.pm(p, "Segment::range_data") for _, p in lib.hir_calls(copy[0]))
    if not ok:
        ctx.finding(rid, k, "segment bytes must be copied to (segment range − bank start): offsets %s" % (subs,), bm.where)
    k = ms.path + "|selection"
    ctx.inst(rid, k)
    sel = False
    for x, p in lib.hir_calls(ms.hir["body"], "Iterator::filter"):
        clo = lib.strip(x["args"][0])
        d = repr(lib.hdesc(clo.get("body", {})))
        if "'bank'" in d and "'write'" in d and "unwrap_or" in d and "'And'" in d and "is_empty" in d and "Segment::range" in d:
            sel = True
    if not sel:
        ctx.finding(rid, k, "a bank must consist of the non-empty segments whose `bank` (or the default bank) names it and whose `write` is true (an empty segment has an unchecked range)", ms.where)
    k = ms.path + "|padding"
    ctx.inst(rid, k)
    pad = False
    for x in lib.hwalk(ms.hir["body"]):
        if x.get("k") == "mcall" and x.get("name") == "extend":
            d = repr(lib.hdesc(x["args"][0]) if x["args"] else "")
            from .c01 import user_exprs
            ue = [lib.hdesc(e) for e in user_exprs(x["args"][0])] if x["args"] else []
            if any(u == ("v", "fill") for u in ue) and any(u[0] == "Sub" and u[1] == ("v", "size") for u in ue if len(u) == 3):
                pad = True
    if not pad:
        ctx.finding(rid, k, "a sized bank must be padded with `fill` for exactly `size − len` bytes", ms.where)


REORDER = ("::sorted", "::sorted_by", "::sorted_by_key", "::sorted_unstable", "::sorted_unstable_by", "::sorted_unstable_by_key", "::sorted_by_cached_key",
           "::rev", "::sort", "::sort_by", "::sort_by_key", "::sort_unstable", "::sort_unstable_by", "::sort_unstable_by_key", "::sort_by_cached_key",
           "::reverse", "::swap", "::rotate_left", "::rotate_right", "::shuffle", "::dedup", "::dedup_by_key", "::unique", "::unique_by")


def r97(ctx, fx):
    rid = ctx.rule("R9.7", "definition order is preserved end to end: between the insertion-ordered containers and the merge / write loops no reordering operation "
                   "(sorted*, rev, sort*, reverse, swap, …) is applied to a sequence whose element type mentions Segment or Bank — `later-defined segments win "
                   "overlaps` and `banks appear in definition order` depend on it")
    n = 0
    scope = [f for f in fx.all_fns() if (f.path.lstrip("<").startswith("mos_core::io::binary_writer") or f.path == "mos::commands::build::build_command" or
                                          f.path.startswith("mos::commands::build::build_command::")) and "::tests::" not in f.path]
    seen = {}
    for f in sorted(scope, key=lambda f: f.path):
        for bi, t in lib.calls(f):
            p, fr = lib.callee(t)
            pn = lib.norm(p or "")
            if not t["args"]:
                continue
            pl = lib.op_place(t["args"][0])
            if pl is None:
                continue
            ty = pl.get("ty") or f.locals[pl["l"]]["ty"]
            if "codegen::segment::Segment" not in ty and "binary_writer::Bank" not in ty:
                continue
            n += 1
            if not any(pn.endswith(r) for r in REORDER):
                ctx.inst(rid, "%s|%s@%s" % (f.path, pn.rsplit("::", 1)[-1], t.get("line")), nontrivial=False)
                continue
            owner = f
            while owner.kind == "closure" and owner.d.get("parent") in fx.fns:
                owner = fx.fns[owner.d["parent"]]
            seen[owner.path] = seen.get(owner.path, 0) + 1
            key = "%s|reorder|%s#%d" % (owner.path, pn.rsplit("::", 1)[-1], seen[owner.path])
            ctx.inst(rid, key, sample={"fn": owner.path, "op": pn, "line": t.get("line")})
            ctx.finding(rid, key, "%s reorders the segments/banks (`%s`, line %s) before they are merged/written: with overlapping segments the one defined later no longer "
                        "wins, or banks no longer appear in definition order" % (owner.path.rsplit("::", 1)[-1], pn.rsplit("::", 1)[-1], t.get("line")),
                        "%s:%s" % (f.file, t.get("line")))
    if n < 8:
        ctx.fail_closed(rid, "fewer than 8 operations on segment/bank sequences found in the writer (%d)" % n)


def r98(ctx, fx):
    rid = ctx.rule("R9.8", "bytes of a bank that no segment covers hold the fill value: Bank::merge grows the image only by fresh fill bytes (`vec![fill; n]`, `resize(n, fill)`, "
                   "`extend`) and writes into it only the bytes of the segment at its place; it never copies parts of what is already there over other parts, nor cuts it "
                   "(`copy_within`, `drain`, `truncate`, `remove`, `retain`, `split_off`) — moved bytes leave copies of themselves behind, in the "
                   "gap that should be fill")
    mg = fx.fn("mos_core::io::binary_writer::Bank::merge")
    if mg is None or not mg.d.get("hir"):
        ctx.fail_closed(rid, "Bank::merge not found")
        return
    # (`insert` / `splice` of fill bytes and `resize` + `rotate_right` shift the old bytes as a whole and leave fill behind: they are ways to write the same thing)
    MOVE = ("copy_within", "drain", "truncate", "swap_with_slice", "remove", "retain", "split_off", "clone_from_slice")
    n = 0
    j = 0
    for x in lib.hwalk(mg.hir["body"]):
        if x.get("k") == "mcall":
            rty = str(lib.strip(x["recv"]).get("ty", "")) + str(lib.strip(x["recv"]).get("aty", ""))
            if "Vec<u8>" in rty or "[u8]" in rty:
                n += 1
                ctx.inst(rid, "merge|%s#%d" % (x.get("name"), n), sample={"method": x.get("name"), "line": x.get("ln")})
                if x.get("name") in MOVE:
                    j += 1
                    ctx.finding(rid, "merge|moves-image-bytes#%d" % j, "Bank::merge moves bytes of the image that is already there (`%s`): what they leave behind is not the "
                                "fill value — the gap between a segment merged later at a lower address and the rest of the bank holds copies of the bank's first bytes"
                                % x.get("name"), "%s:%s" % (mg.file, x.get("ln")))
    if n < 1:
        ctx.fail_closed(rid, "no operation on the bank image found in Bank::merge")


def run(ctx):
    fx = ctx.facts
    r98(ctx, fx)
    et = fx.fn(CC + "::emit_token")
    if et is None:
        ctx.fail_closed("R9", "emit_token not found")
        return
    r91(ctx, fx, et)
    r92(ctx, fx)
    r93(ctx, fx)
    r94(ctx, fx)
    r95(ctx, fx)
    r96(ctx, fx)
    r97(ctx, fx)
    ctx.not_decided("offsets, overlap resolution and padding arithmetic on concrete configurations; grouping of banks by filename on concrete inputs")
    ctx.assume("ref/config_keys.json transcribes the option tables of docs/src/guide/advanced.md (with `create-segment` as named by the property)")
