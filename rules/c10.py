"""C10 — builds are reproducible (A5: type-directed hash-order detection).

 R10.1 every call of an iterator *consumer* whose receiver type embeds a std hash_map / hash_set iterator is either
       order-insensitive by its nature (any/all/count/sum, collect into a hash or BTree collection, sorted on a total key)
       or classified in a frozen table: safe(reason) or finding.  A new unclassified site is a violation naming it.
 R10.2 containers whose iteration order reaches output are insertion-ordered (pending imports, banks, segments, files of the code map)
 R10.3 the CLI emitter prints diagnostics in the order they were collected (no re-ordering by hash)
"""
import re

from . import lib

HASH_ITER = re.compile(r"std::collections::hash::(map|set)::(Iter|IterMut|IntoIter|Keys|Values|ValuesMut|IntoKeys|IntoValues|Drain|Union|"
                       r"Intersection|Difference|SymmetricDifference)\b")
ADAPTORS = {"map", "filter", "filter_map", "cloned", "copied", "enumerate", "chain", "zip", "rev", "skip", "take", "flat_map", "flatten", "peekable",
            "inspect", "map_while", "skip_while", "take_while", "step_by", "by_ref", "into_iter", "iter", "iter_mut", "fuse", "scan", "dedup", "unique",
            "interleave", "size_hint", "clone", "borrow", "borrow_mut", "deref", "deref_mut", "as_ref", "as_mut", "drop"}
INSENSITIVE = {"any", "all", "count", "sum", "product", "len", "is_empty", "min", "max"}   # min/max of Ord values: the value does not depend on the order
ORDERED_DST = ("std::collections::hash::", "alloc::collections::btree::")

# classification of the remaining sites, each confirmed by reading.  key: (function, consumer) -> (count, verdict, reason)
TABLE = {
    ("mos::commands::build::build_command", "next"):
        (1, "safe", "one listing file is written per map entry; no file's content depends on the order"),
    ("mos::commands::format::format_command", "next"):
        (1, "safe", "every file of the project is formatted and rewritten independently"),
    ("mos_core::codegen::codegen", "next"):
        (1, "safe", "predefined constants (empty for `mos build`): distinct names inserted into the root scope, order only permutes internal indices"),
    ("mos_core::codegen::config_validator::ConfigValidator::extract", "sorted"):
        (1, "safe", "sorted() on String keys: a total order"),
    ("mos_core::codegen::symbols::SymbolTable::all_impl", "next"):
        (1, "safe", "the result is collected into a HashMap keyed by the full path — and R10.4 keeps the walk free of first-wins decisions"),
    ("mos_core::codegen::symbols::SymbolTable::remove_all", "next"):
        (1, "safe", "removes a set of nodes; which set does not depend on the order"),
    ("mos_core::io::vice::to_vice_symbols", "sorted"):
        (1, "safe", "sorted() on the formatted lines (String): a total order; lines are distinct because paths are"),
    ("mos::test_runner::enumerate_test_cases", "sorted"):
        (1, "safe", "sorted() on (SpanLoc, path): total"),
    ("mos::lsp::LspContext::invoke_shutdown_handlers", "next"):
        (1, "safe", "every handler is notified; order is irrelevant"),
    ("mos_core::codegen::CodegenContext::finalize::{closure#0}", "next"):
        (1, "safe", "greedy analysis (language server only): collects the macro definitions to analyse; each is analysed in a dummy segment, results are set-valued"),
}
# modules whose answers are the subject of C14 (R14.4), not of `mos build` reproducibility
C14_PREFIXES = ("mos::lsp::", "<mos::lsp::", "mos::debugger", "<mos::debugger", "mos_core::codegen::analysis::")


def sites(fx):
    for f in sorted(fx.all_fns(), key=lambda f: f.path):
        if "::tests::" in f.path or "::testing" in f.path:
            continue
        for bi, t in lib.calls(f):
            p, fr = lib.callee(t)
            if not p or not t["args"]:
                continue
            pl = lib.op_place(t["args"][0])
            if pl is None:
                continue
            ty = pl.get("ty") or f.locals[pl["l"]]["ty"]
            if not HASH_ITER.search(ty):
                continue
            name = lib.norm(p).rsplit("::", 1)[-1]
            if name in ADAPTORS:
                continue
            yield f, bi, t, name, ty, f.locals[t["dst"]["l"]]["ty"]


def closure_of(fx, f, t):
    """the closure function passed (as an aggregate value) to this call"""
    for a in t["args"][1:]:
        p = lib.op_place(a)
        if p is None:
            continue
        for _, _, s in lib.stmts(f):
            if s["k"] == "assign" and s["dst"]["l"] == p["l"] and s["rv"]["k"] == "agg" and s["rv"].get("ak") == "closure":
                return fx.fns.get(s["rv"]["closure"])
    return None


def fields_read(g, params):
    """names of fields read (through any projection) from the given parameter locals, following plain copies/derefs"""
    src = {p: p for p in params}
    names = {p: set() for p in params}
    changed = True
    while changed:
        changed = False
        for _, _, s in lib.stmts(g):
            if s["k"] != "assign":
                continue
            rv = s["rv"]
            pl = None
            if rv["k"] in ("use", "cast"):
                pl = lib.op_place(rv["op"])
            elif rv["k"] in ("ref", "copy_for_deref"):
                pl = rv["place"]
            if pl is None or pl["l"] not in src:
                continue
            root = src[pl["l"]]
            fl = [e["n"] for e in (pl.get("p") or []) if isinstance(e, dict) and "n" in e]
            for n in fl:
                if n not in names[root]:
                    names[root].add(n)
                    changed = True
            d = s["dst"]["l"]
            if not s["dst"].get("p") and d not in src:
                src[d] = root
                changed = True
        for _, t in lib.calls(g):
            for a in t["args"]:
                pl = lib.op_place(a)
                if pl is not None and pl["l"] in src:
                    for e in (pl.get("p") or []):
                        if isinstance(e, dict) and "n" in e and e["n"] not in names[src[pl["l"]]]:
                            names[src[pl["l"]]].add(e["n"])
                            changed = True
    return names


def total_sort(fx, f, t, name, recv_ty):
    g = closure_of(fx, f, t)
    if g is None:
        return False
    if name.endswith("_by_key"):
        # key closure: fn(&closure, &Elem) -> K ; total iff K mentions every field of the element struct
        ety = g.locals[2]["ty"]
        while ety.startswith("&"):
            ety = ety[1:].lstrip()
            if ety.startswith("'"):
                ety = ety.split(" ", 1)[1] if " " in ety else ety
        read = fields_read(g, [2])[2]
        if ety.startswith("("):
            # a tuple element: the key must read every component (top-level arity)
            depth, arity = 0, 1
            for ch in ety[1:-1]:
                if ch in "(<[":
                    depth += 1
                elif ch in ")>]":
                    depth -= 1
                elif ch == "," and depth == 0:
                    arity += 1
            return {str(i) for i in range(arity)} <= read
        adt = fx.adts.get(ety.split("<")[0])
        if not adt or adt["kind"] != "Struct":
            return False
        allf = {x["name"] for x in adt["variants"][0]["fields"]}
        return allf <= read
    # comparator closure on (key, value) entries of a hash *map*: comparing the keys (.0) only is total because keys are unique
    if "hash::map::" not in recv_ty or g.argc != 3:
        return False
    r = fields_read(g, [2, 3])
    cmp_called = any(lib.pm(lib.callee(t2)[0], "Ord::cmp") for _, t2 in lib.calls(g))
    return cmp_called and r[2] == {"0"} and r[3] == {"0"}


def only_existence(f, t):
    """the Option a `next()` answers is only asked whether it is Some (`.next().is_some()`, `is_none()`, a match that binds nothing): that does not depend on
    which element came first"""
    L = t["dst"]["l"]
    if t["dst"].get("p"):
        return False
    alias = {L}
    import json as _json

    def mentions(node, locs):
        txt = _json.dumps(node)
        return any(('"l": %d,' % l) in txt or ('"l": %d}' % l) in txt for l in locs)
    for _ in range(2):
        for _, _, st in lib.stmts(f):
            if st["k"] == "assign" and st["rv"].get("k") == "ref" and (st["rv"].get("place") or {}).get("l") in alias and not (st["rv"]["place"].get("p")):
                alias.add(st["dst"]["l"])
            if st["k"] == "assign" and st["rv"].get("k") in ("use",) and lib.op_local(st["rv"].get("op")) in alias:
                alias.add(st["dst"]["l"])
    for _, _, st in lib.stmts(f):
        if st["k"] != "assign":
            continue
        rv = st["rv"]
        if not mentions(rv, alias):
            continue
        if rv.get("k") == "discr":
            continue
        if rv.get("k") in ("ref", "use") and st["dst"]["l"] in alias:
            pl = rv.get("place") or lib.op_place(rv.get("op")) or {}
            if not pl.get("p"):
                continue
        return False
    for _, t2 in lib.calls(f):
        if t2 is t:
            continue
        if mentions(t2["args"], alias):
            p2 = lib.norm(lib.callee(t2)[0] or "")
            if not p2.endswith(("Option::is_some", "Option::is_none")):
                return False
    return True


def classify(fx, for_c14=False):
    """yields (key, fn, term, consumer, verdict, reason) for every hash-ordered consumer site in scope"""
    seen = {}
    for f, bi, t, name, ty, dst in sites(fx):
        in14 = f.path.startswith(C14_PREFIXES)
        if in14 != for_c14:
            continue
        fp = lib.norm(f.path)
        kk = (fp, name)
        seen[kk] = seen.get(kk, 0) + 1
        key = "%s|%s#%d" % (fp, name, seen[kk])
        if name in INSENSITIVE:
            yield key, f, t, name, "auto", "order-insensitive consumer"
            continue
        if name == "next" and only_existence(f, t):
            yield key, f, t, name, "auto", "the element is only asked for its existence (is_some / is_none)"
            continue
        if name in ("collect", "collect_vec", "extend") and any(dst.startswith(o) for o in ORDERED_DST):
            yield key, f, t, name, "auto", "collected into %s" % dst.split("<")[0]
            continue
        if name in ("sorted_by_key", "sorted_by", "sort_by_key", "sort_by") and total_sort(fx, f, t, name, ty):
            yield key, f, t, name, "auto", "sorted on a key that identifies the element (all fields of the element / the unique map key)"
            continue
        tab = TABLE.get(kk)
        if tab and seen[kk] <= tab[0]:
            yield key, f, t, name, tab[1], tab[2]
            continue
        yield key, f, t, name, "unclassified", None


def r101(ctx, fx):
    rid = ctx.rule("R10.1", "hash-iteration order must not reach an ordered consumer: every consumer call on a std hash_map/hash_set iterator (type-directed; "
                   "adaptors embed their source type) is order-insensitive by nature, sorted on a total key, or tabled safe with a reason; anything else is reported")
    n = 0
    for key, f, t, name, verdict, reason in classify(fx):
        n += 1
        ctx.inst(rid, key, sample={"fn": f.path, "consumer": name, "line": t.get("line"), "verdict": verdict, "reason": reason})
        if verdict in ("auto", "safe"):
            continue
        what = {
            "sorted_by_key": "sorts a hash-ordered sequence by a key that is not injective (elements with equal keys keep their hash order)",
            "next": "iterates a hash map/set in a `for` loop whose effect depends on the order",
            "find": "takes the first match of a hash-ordered sequence",
            "collect": "collects a hash-ordered sequence into an ordered collection",
            "collect_vec": "collects a hash-ordered sequence into a Vec",
            "join": "joins a hash-ordered sequence into a string",
        }.get(name, "consumes a hash-ordered sequence with `%s`" % name)
        ctx.finding(rid, key, "%s %s: the result differs from run to run (hash seeds are random per process)" % (f.path, what), "%s:%s" % (f.file, t.get("line")))
    ctx.floor(rid, 8, "hash-ordered consumer sites outside the language server")


def r102(ctx, fx):
    rid = ctx.rule("R10.2", "containers whose iteration order reaches the output are insertion-ordered: the parser's pending imports, CodeMap.files, "
                   "CodegenContext.banks/segments, SourceMap.offsets, Diagnostics.diags")
    want = [
        ("mos_core::parser::ast::ParserInstance", "to_import", ("indexmap::", "alloc::vec::Vec<"), "order of file discovery → numbering of anonymous scopes → symbol file"),
        ("mos_core::parser::code_map::CodeMap", "files", ("alloc::vec::Vec<", "indexmap::"), "order of listing files and of file ids in spans"),
        ("mos_core::codegen::CodegenContext", "banks", ("indexmap::",), "order of banks in the output"),
        ("mos_core::codegen::CodegenContext", "segments", ("indexmap::",), "order in which segments are merged (later wins)"),
        ("mos_core::codegen::source_map::SourceMap", "offsets", ("alloc::vec::Vec<",), "order of bytes in listing rows"),
        ("mos_core::errors::Diagnostics", "diags", ("alloc::vec::Vec<",), "order of reported diagnostics"),
    ]
    for adt, fld, ok_prefixes, why in want:
        a = fx.adts.get(adt)
        k = "%s.%s" % (adt, fld)
        ty = None
        if a:
            for f in a["variants"][0]["fields"]:
                if f["name"] == fld:
                    ty = f["ty"]
        ctx.inst(rid, k, sample={"field": k, "type": (ty or "")[:80]})
        if ty is None:
            ctx.fail_closed(rid, "field %s not found" % k)
            continue
        inner = ty
        # look through Arc<RefCell<…>> / Option
        for w in ("alloc::sync::Arc<", "core::cell::RefCell<", "std::sync::poison::mutex::Mutex<", "core::option::Option<"):
            while inner.startswith(w):
                inner = inner[len(w):]
        if not inner.startswith(ok_prefixes):
            ctx.finding(rid, k, "%s is a %s: %s follows hash order and differs from run to run" % (k, inner.split("<")[0], why), None)


def r103(ctx, fx):
    rid = ctx.rule("R10.3", "the CLI emitter walks Diagnostics in collection order (Diagnostics::iter over the Vec), without re-ordering")
    f = fx.fn("mos::diagnostic_emitter::DiagnosticEmitter::emit_diagnostics")
    k = "DiagnosticEmitter::emit_diagnostics"
    ctx.inst(rid, k)
    if f is None:
        ctx.fail_closed(rid, "emit_diagnostics not found")
        return
    callees = {lib.norm(lib.callee(t)[0] or "") for o in lib.owned(fx, f) for _, t in lib.calls(o)}
    if not any(c.endswith("Diagnostics::iter") for c in callees):
        ctx.finding(rid, k, "the emitter does not iterate Diagnostics::iter()", f.where)
    it = fx.fn("mos_core::errors::Diagnostics::iter")
    ctx.inst(rid, "Diagnostics::iter")
    if it is None or not any(lib.pm(lib.callee(t)[0], "slice::iter") or lib.norm(lib.callee(t)[0] or "").endswith("::iter") for _, t in lib.calls(it)):
        ctx.finding(rid, "Diagnostics::iter", "Diagnostics::iter does not walk the underlying Vec in order", it.where if it else None)


def r104(ctx, fx):
    rid = ctx.rule("R10.4", "what a walk in hash order does must not depend on who comes first: in a function that iterates a std hash map / set with a `for` (the "
                   "`next` sites of R10.1, tabled safe or not), no branch is taken on the answer of `insert` / `contains` / `contains_key` of a set or map — "
                   "a visited-set that lets the first path to a node win makes the *content* of the result depend on the visiting order, which no later sort "
                   "repairs (the reason `collected into a map keyed by the path` no longer covers it)")
    fns = {}
    for f, bi, t, name, ty, dst in sites(fx):
        if name == "next" and not f.path.startswith(C14_PREFIXES):
            fns[f.id] = f
    n = 0
    for f in sorted(fns.values(), key=lambda f: f.path):
        n += 1
        used = []
        # locals read by a SwitchInt (directly or through a copy / `Not`)
        switched = set()
        for b in f.blocks:
            t = b["term"]
            if t["k"] == "switch":
                l = lib.op_local(t.get("discr") or t.get("op") or {})
                if l is not None:
                    switched.add(l)
        du = lib.DefUse(f)
        changed = True
        while changed:
            changed = False
            for l in list(switched):
                d = du.single_def(l)
                if d and d[2] == "assign":
                    rv = d[3]["rv"]
                    for op in ([rv.get("op")] if rv["k"] in ("use", "unop", "cast") else [rv.get("l"), rv.get("r")] if rv["k"] == "binop" else []):
                        src = lib.op_local(op) if op else None
                        if src is not None and src not in switched:
                            switched.add(src)
                            changed = True
        for bi, t in lib.calls(f):
            p = lib.norm(lib.callee(t)[0] or "")
            if not (("Set" in p or "Map" in p) and p.endswith(("::insert", "::contains", "::contains_key", "::replace", "::remove"))):
                continue
            if "collections" not in p and "indexmap" not in p:
                continue
            dl = t["dst"]["l"] if t.get("dst") else None
            if dl in switched or (f.locals[dl]["ty"].startswith("core::option::Option") and any(
                    lib.norm(lib.callee(t2)[0] or "").endswith(("::is_some", "::is_none")) and lib.op_local(t2["args"][0]) is not None and
                    (du.origin(lib.op_local(t2["args"][0])) or (None, None))[1] is t for _, t2 in lib.calls(f))):
                used.append((p.rsplit("::", 2)[-2].split("<")[0] + "::" + p.rsplit("::", 1)[-1], t.get("line")))
        key = "%s|first-wins" % lib.norm(f.path)
        ctx.inst(rid, key, sample={"fn": f.path, "membership_answers_branched_on": [u[0] for u in used]})
        if used:
            ctx.finding(rid, key, "%s walks a hash map / set and branches on `%s` (line %s): whichever of several ways to an element is visited first decides what is "
                        "recorded for it, and the visiting order changes from run to run" % (f.path, used[0][0], used[0][1]), "%s:%s" % (f.file, used[0][1]))
    if n < 4:
        ctx.fail_closed(rid, "fewer than 4 functions that walk a hash map / set with `for` found (%d)" % n)


RUN_DEPENDENT = {
    "a hash of this process (std's RandomState is seeded anew for every process)": ("::hasher", "BuildHasher::hash_one", "BuildHasher::build_hasher", "RandomState::new",
                                                                                  "RandomState as core::default::Default>::default"),
    "the clock": ("SystemTime::now", "Instant::now", "SystemTime::elapsed", "Instant::elapsed"),
    "the process / thread identity": ("process::id", "thread::current", "Thread::id"),
    "the environment": ("env::var", "env::var_os", "env::vars", "env::vars_os", "env::temp_dir", "env::args"),
    "an address": ("fmt::Pointer",),
}
# sites confirmed by reading: (function, callee suffix) -> reason
RUN_DEPENDENT_OK = {
}


def r105(ctx, fx):
    rid = ctx.rule("R10.5", "nothing that differs from one run to the next is computed on the way from the sources to the outputs: no function reachable from `mos build` "
                   "(parse, code generation, listing, symbol file, binary writer, the build command itself) calls a process-seeded hasher (`HashMap::hasher`, "
                   "`BuildHasher::hash_one` …), the clock, the process / thread identity, the environment or formats an address — outside a table of sites read one by "
                   "one. Hash *order* is R10.1's subject; this is about the values")
    cg = lib.CallGraph(fx)
    roots = []
    for sfx in ("mos::commands::build::build_command", "mos_core::parser::parse", "mos_core::codegen::codegen", "mos_core::io::listing::to_listing",
                "mos_core::io::vice::to_vice_symbols", "mos_core::io::binary_writer::BinaryWriter::merge_segments", "mos_core::io::binary_writer::BinaryWriter::write_banks"):
        f_ = fx.fn(sfx)
        if f_ is None:
            ctx.fail_closed(rid, "entry point %s not found" % sfx)
        else:
            roots.append(f_.id)
    scope = cg.reach(roots)
    scope = {i for i in scope if not fx.fns[i].path.lstrip("<").startswith(("mos::debugger", "mos::test_runner", "mos::lsp"))}
    n = 0
    seen = {}
    for i in sorted(scope, key=lambda i: fx.fns[i].path):
        f = fx.fns[i]
        if "::tests::" in f.path or not f.blocks:
            continue
        n += 1
        for bi, t in lib.calls(f):
            p = lib.callee(t)[0]
            if not p:
                continue
            pn = lib.norm(p)
            for what, pats in RUN_DEPENDENT.items():
                hit = [q for q in pats if pn.endswith(q) or q in pn and q.startswith("fmt::")]
                if not hit:
                    continue
                kk = (lib.norm(f.path), hit[0])
                seen[kk] = seen.get(kk, 0) + 1
                key = "%s|%s#%d" % (kk[0], hit[0].rsplit("::", 1)[-1], seen[kk])
                ok = RUN_DEPENDENT_OK.get(kk)
                ctx.inst(rid, key, sample={"fn": f.path, "callee": pn, "line": t.get("line"), "tabled": ok})
                if not ok:
                    ctx.finding(rid, key, "%s, on the way from the sources to the outputs of `mos build`, takes a value from %s (`%s`): what is computed from it — a file "
                                "name, a generated name, a byte — differs between two runs on the same sources" % (f.path.rsplit("::", 1)[-1], what, pn.rsplit("::", 2)[-2] + "::" + pn.rsplit("::", 1)[-1]),
                                "%s:%s" % (f.file, t.get("line")))
    ctx.inst(rid, "scope", sample={"functions_on_the_build_path": n})
    if n < 300:
        ctx.fail_closed(rid, "fewer than 300 functions reachable from `mos build` (%d)" % n)


def r106(ctx, fx):
    rid = ctx.rule("R10.6", "an output file holds what this build produced and nothing of an earlier one: on the way from the sources to the outputs of `mos build` a file is "
                   "created with `File::create` / `fs::write` (which truncate) or opened through OpenOptions with `truncate(true)` or `create_new(true)` — never with "
                   "`append(true)`, and never with `write(true)` alone: what an earlier build left in the target directory would be part of the next result, and "
                   "building twice would give another file than building once")
    cg = lib.CallGraph(fx)
    roots = [f_.id for f_ in (fx.fn(x) for x in ("mos::commands::build::build_command", "mos_core::io::binary_writer::BinaryWriter::write_banks",
                                                 "mos_core::io::listing::to_listing", "mos_core::io::vice::to_vice_symbols")) if f_ is not None]
    if len(roots) < 4:
        ctx.fail_closed(rid, "entry points of the output writers not found")
    scope = cg.reach(roots)
    n_create = n_open = 0
    for i in sorted(scope, key=lambda i: fx.fns[i].path):
        f = fx.fns[i]
        if not f.d.get("hir") or "::tests::" in f.path or f.kind == "closure" or f.path.lstrip("<").startswith(("mos::debugger", "mos::lsp", "mos::test_runner")):
            continue
        lets = {}
        for y in lib.hwalk(f.hir["body"]):
            if y.get("k") == "let" and "init" in y and y["pat"].get("k") == "bind":
                lets.setdefault(y["pat"]["name"], []).append(y["init"])
        for x in lib.hwalk(f.hir["body"]):
            if x.get("k") == "call" and str(lib.hcallee(x) or "").endswith(("File::create", "fs::write")):
                n_create += 1
            if not (x.get("k") == "mcall" and x.get("name") == "open" and "OpenOptions" in str(x.get("path", ""))):
                continue
            n_open += 1
            chain, todo, seen = [], [x["recv"]], set()
            while todo and len(chain) < 10:
                e = todo.pop()
                chain.append(e)
                for y in lib.hwalk(e):
                    nm = lib.hpath(y) if y.get("k") == "path" else None
                    if nm in lets and nm not in seen:
                        seen.add(nm)
                        todo.extend(lets[nm])
            flags = {}
            for c in chain:
                for y in lib.hwalk(c):
                    if y.get("k") == "mcall" and y.get("name") in ("write", "truncate", "append", "create_new", "create", "read") and y.get("args"):
                        flags[y["name"]] = lib.hlit(lib.strip(y["args"][0]))
            key = "%s|open#%d" % (f.path, n_open)
            ctx.inst(rid, key, sample={"fn": f.path, "line": x.get("ln"), "flags": flags})
            if flags.get("append") is True or ((flags.get("write") is True or flags.get("create") is True) and not (flags.get("truncate") is True or flags.get("create_new") is True)):
                ctx.finding(rid, key, "%s opens an output file of the build so that what is already in it stays (%s): the file a second build leaves is not the file the "
                            "first one left — a bank written to its own `filename` is there twice" % (
                                f.path.rsplit("::", 1)[-1], "append" if flags.get("append") else "no truncation"), "%s:%s" % (f.file, x.get("ln")))
    ctx.inst(rid, "writers", sample={"File::create / fs::write": n_create, "OpenOptions": n_open})
    if n_create + n_open < 3:
        ctx.fail_closed(rid, "fewer than 3 places where the build creates a file found (%d)" % (n_create + n_open))


def run(ctx):
    fx = ctx.facts
    r105(ctx, fx)
    r106(ctx, fx)
    r101(ctx, fx)
    r104(ctx, fx)
    r102(ctx, fx)
    r103(ctx, fx)
    ctx.not_decided("nondeterminism from file system enumeration and thread scheduling; byte equality of outputs on concrete projects")
