"""C11 — source map and listings are exact (structural clauses).

 R11.1 single emission choke point: Segment::emit is called only from CodegenContext::emit, where SourceMap::add with the same byte
       count precedes it on every path; every emission in emit_token goes through CodegenContext::emit
 R11.2 no comparison / subtraction mixes a target-space address (source-map entries, target_pc) with a physical one
       (Segment::range, Segment::pc) unless the function converts with target_offset                     [two label propagations]
 R11.3 source-map entries are re-attributed to the macro invocation only under move_macro_source_map_to_invocation, which the
       build command sets from the `listing` option
 R11.4 address → entry and line → entries lookups compare half-open ranges consistently
"""
from . import lib, taint

CC = "mos_core::codegen::CodegenContext"
SEG = "mos_core::codegen::segment::Segment"

ADDR_CARRIER = taint.make_carrier(taint._INTS | {"mos_core::codegen::program_counter::ProgramCounter"})


def r111(ctx, fx, cg):
    rid = ctx.rule("R11.1", "Segment::emit has exactly one caller, CodegenContext::emit; there SourceMap::add(scope, span, target_pc, bytes.len()) is executed "
                   "before it on every path that emits; no other function writes Segment.data")
    se = fx.fn(SEG + "::emit")
    em = fx.fn(CC + "::emit")
    if not (se and em):
        ctx.fail_closed(rid, "Segment::emit / CodegenContext::emit not found")
        return
    callers = sorted(fx.fns[c].path for c in cg.callers.get(se.id, ()) if "::tests::" not in fx.fns[c].path)
    ctx.inst(rid, "callers|Segment::emit", sample={"callers": callers})
    if callers != [em.path]:
        ctx.finding(rid, "callers|Segment::emit", "Segment::emit is called from %s: bytes can be emitted without a source-map entry" % callers, se.where)
    adds = [bi for bi, t in lib.calls(em) if lib.pm(lib.callee(t)[0], "SourceMap::add")]
    emits = [bi for bi, t in lib.calls(em) if lib.callee(t)[0] == se.path]
    ctx.inst(rid, "%s|add-before-emit" % em.path, sample={"add_sites": len(adds), "emit_sites": len(emits)})
    for e in emits:
        if not adds or not lib.must_pass(em, adds, e):
            ctx.finding(rid, "%s|add-before-emit" % em.path, "bytes can reach Segment::emit without SourceMap::add having recorded them", em.where)
    # same length: the 4th argument of add is bytes.len() of the same slice passed to emit
    ctx.inst(rid, "%s|same-length" % em.path)
    ok = False
    sm_add = fx.fn("mos_core::codegen::source_map::SourceMap::add")
    i_len = lib.param_index(sm_add, "usize") if sm_add else None
    if i_len is None:
        ctx.fail_closed(rid, "SourceMap::add(…, len: usize) not found")
        return
    for x, p in lib.hir_calls(em.hir["body"], "SourceMap::add"):
        a = lib.hargs(x)
        d = lib.hdesc(a[i_len])
        for y, p2 in lib.hir_calls(em.hir["body"], "Segment::emit"):
            b = lib.hdesc(lib.hargs(y)[1])
            if d[0] == "m" and d[1].endswith("::len") and d[2] == b:
                ok = True
    if not ok:
        ctx.finding(rid, "%s|same-length" % em.path, "the source-map entry does not cover exactly the emitted bytes (length ≠ bytes.len())", em.where)
    # who writes Segment.data
    writers = set()
    for f in fx.all_fns("mos_core"):
        if "::tests::" in f.path:
            continue
        for of, n, kind, _, _ in lib.writes_of(f):
            if of == SEG and n == "data":
                writers.add(f.path)
    ctx.inst(rid, "writers|Segment.data", sample={"writers": sorted(writers)})
    allowed = {SEG + "::emit", SEG + "::reset", SEG + "::new"}
    if not writers <= allowed:
        ctx.finding(rid, "writers|Segment.data", "segment bytes are written outside emit/reset: %s" % sorted(writers - allowed), se.where)
    # every byte-producing arm of emit_token goes through CodegenContext::emit (no direct segment access)
    et = fx.fn(CC + "::emit_token")
    ctx.inst(rid, "%s|via-emit" % CC)
    if et is not None:
        n_emit = sum(1 for _ in lib.hir_calls(et.hir["body"], "CodegenContext::emit"))
        if n_emit < 8:
            ctx.finding(rid, "%s|via-emit" % CC, "emit_token has only %d calls of CodegenContext::emit (align, data ×2, file, instruction ×3, text expected)" % n_emit, et.where)


def r112(ctx, fx):
    rid = ctx.rule("R11.2", "label TARGET (SourceMapOffset.pc, Segment::target_pc, try_current_target_pc) and label PHYSICAL (Segment::range, Segment::pc, "
                   "Segment.range/.pc) must not meet in a comparison or subtraction inside a function that never consults Segment::target_offset")
    TT = taint.Taint(fx, "TARGET", source_calls=["Segment::target_pc", "CodegenContext::try_current_target_pc"],
                     source_fields=[("SourceMapOffset", "pc")], carrier=ADDR_CARRIER, kill=taint.DEFAULT_KILL)
    TP = taint.Taint(fx, "PHYSICAL", source_calls=["Segment::range", "Segment::pc"], source_fields=[("segment::Segment", "range"), ("segment::Segment", "pc")],
                     carrier=ADDR_CARRIER, kill=taint.DEFAULT_KILL, sanitizers=["Segment::target_pc", "CodegenContext::try_current_target_pc"])
    n = 0
    seen = {}
    for f in sorted(fx.all_fns(), key=lambda f: f.path):
        if "::tests::" in f.path or f.path.startswith(SEG):
            continue
        converts = any(lib.pm(lib.callee(t)[0], "Segment::target_offset") for o in lib.owned(fx, f) for _, t in lib.calls(o))
        for bi, si, s in lib.stmts(f):
            if s["k"] != "assign" or s["rv"]["k"] != "binop":
                continue
            op = s["rv"]["op"].replace("WithOverflow", "")
            if op not in ("Lt", "Le", "Gt", "Ge", "Eq", "Ne", "Sub"):
                continue
            l, r = s["rv"]["l"], s["rv"]["r"]
            lt, lp = TT.op_tainted(f.id, l), TP.op_tainted(f.id, l)
            rt, rp = TT.op_tainted(f.id, r), TP.op_tainted(f.id, r)
            mixed = (lt and not lp and rp and not rt) or (lp and not lt and rt and not rp)
            if not (lt or lp or rt or rp):
                continue
            n += 1
            if not mixed:
                ctx.inst(rid, "%s|%s@%d.%d" % (f.path, op, bi, si), nontrivial=False)
                continue
            seen[f.path] = seen.get(f.path, 0) + 1
            key = "%s|%s#%d" % (f.path, "mix", seen[f.path])
            ctx.inst(rid, key, sample={"fn": f.path, "op": op, "line": s.get("line"), "converts_with_target_offset": converts})
            if converts:
                continue
            if seen[f.path] > 1:
                continue   # one finding per function
            ctx.finding(rid, "%s|mix" % f.path, "%s compares/subtracts a target-space address (source-map entry) with a physical one (Segment::range) without "
                        "converting by target_offset: for a relocated segment (`pc = …`) nothing matches and its bytes are missing from the listing" % f.path,
                        "%s:%s" % (f.file, s.get("line")))
    ctx.extra["address_space_binops_examined"] = n
    if n < 6:
        ctx.fail_closed(rid, "fewer than 6 address comparisons found (%d): labels did not propagate" % n)


def r113(ctx, fx, cg):
    rid = ctx.rule("R11.3", "SourceMap::move_offsets is called only under `options.move_macro_source_map_to_invocation`; the build command initialises that "
                   "option from `cfg.build.listing`; the language server / test runner / debugger leave it false")
    mo = fx.fn("mos_core::codegen::source_map::SourceMap::move_offsets")
    if mo is None:
        ctx.fail_closed(rid, "SourceMap::move_offsets not found")
        return
    callers = [fx.fns[c] for c in cg.callers.get(mo.id, ()) if "::tests::" not in fx.fns[c].path]
    ctx.inst(rid, "callers|move_offsets", sample={"callers": [c.path for c in callers]})
    for c in callers:
        owner = c
        while owner.kind == "closure" and owner.d.get("parent") in fx.fns:
            owner = fx.fns[owner.d["parent"]]
        guarded = False
        for n in lib.hwalk(owner.hir["body"]):
            if n.get("k") == "if" and "move_macro_source_map_to_invocation" in repr(lib.hdesc(n["cond"])) and \
                    any(True for _ in lib.hir_calls(n["then"], "SourceMap::move_offsets")):
                guarded = True
        key = "%s|guard" % owner.path
        ctx.inst(rid, key)
        if not guarded:
            ctx.finding(rid, key, "%s re-attributes macro bytes to the invocation unconditionally: breakpoints inside macros stop working / listings change" % owner.path, owner.where)
    # who sets the option
    n = 0
    for f in sorted(fx.all_fns("mos"), key=lambda f: f.path):
        if not f.d.get("hir") or "::tests::" in f.path:
            continue
        for s in lib.hwalk(f.hir["body"]):
            if s.get("k") == "struct" and lib.pm(s["res"].get("path"), "CodegenOptions"):
                for fl in s["fields"]:
                    if fl["name"] == "move_macro_source_map_to_invocation":
                        n += 1
                        d = lib.hdesc(fl["e"])
                        key = "%s|sets-option" % f.path
                        ctx.inst(rid, key, sample={"fn": f.path, "value": repr(d)[:80]})
                        is_build = f.path.endswith("build::build_command")
                        if is_build and not (d[0] == "f" and d[1] == "listing"):
                            ctx.finding(rid, key, "the build command must take move_macro_source_map_to_invocation from the `listing` option", f.where)
                        if not is_build and d != ("c", False):
                            ctx.finding(rid, key, "%s enables invocation-site attribution; only listings want that" % f.path, f.where)
    if n < 1:
        ctx.fail_closed(rid, "no initialisation of move_macro_source_map_to_invocation found in crate mos")


def r114(ctx, fx):
    rid = ctx.rule("R11.4", "SourceMap::add records pc..pc+len; address_to_offset tests `pc >= start && pc < end` (half-open)")
    sm = "mos_core::codegen::source_map::SourceMap::"
    add = fx.fn(sm + "add")
    ctx.inst(rid, sm + "add")
    if add is None:
        ctx.fail_closed(rid, "SourceMap::add not found")
    else:
        pn = [p.get("name") for p in add.hir["params"]]
        i_pc, i_len = lib.param_index(add, "ProgramCounter"), lib.param_index(add, "usize")
        if i_pc is None or i_len is None:
            ctx.fail_closed(rid, "SourceMap::add(…, pc: ProgramCounter, len: usize) not recognised")
            return
        ok = False
        for s in lib.hwalk(add.hir["body"]):
            if s.get("k") == "struct" and lib.pm(s["res"].get("path"), "ops::range::Range"):
                fl = {f["name"]: lib.hdesc(f["e"]) for f in s["fields"]}
                st, en = fl.get("start"), fl.get("end")
                if st and en and en[0] == "Add" and st in en[1:] and ("v", pn[i_len]) in en[1:] and pn[i_pc] in repr(st):
                    ok = True
        if not ok:
            ctx.finding(rid, sm + "add", "a source-map entry must cover pc .. pc + len", add.where)
    ao = fx.fn(sm + "address_to_offset")
    ctx.inst(rid, sm + "address_to_offset")
    if ao is None:
        ctx.fail_closed(rid, "address_to_offset not found")
    else:
        # both bounds are tested somewhere in the lookup (one `&&`, or the lower bound in a partition_point over the ordered list and the upper one in the
        # search that follows): start <= pc ≡ Le(start, pc), pc < end ≡ Lt(pc, end) after normalisation; `(start..end).contains(&pc)` is both
        lower = upper = False
        other = []
        for n in lib.hwalk(ao.hir["body"]):
            if n.get("k") == "binary" and n["op"] in ("Lt", "Le", "Gt", "Ge"):
                d = lib.hdesc(n)
                if d[0] == "Le" and "'start'" in repr(d[1]) and "'start'" not in repr(d[2]) and "'end'" not in repr(d):
                    lower = True
                elif d[0] == "Lt" and "'end'" in repr(d[2]) and "'end'" not in repr(d[1]) and "'start'" not in repr(d):
                    upper = True
                elif "'start'" in repr(d) or "'end'" in repr(d):
                    other.append(d[0])
            if n.get("k") == "mcall" and n.get("name") == "contains" and (lib.strip(n["recv"]).get("ty") or "").find("Range<") >= 0:
                lower = upper = True
        if not (lower and upper) or other:
            ctx.finding(rid, sm + "address_to_offset", "address lookup must test start <= pc < end", ao.where)


def r119(ctx, fx):
    rid = ctx.rule("R11.9", "the code generator addresses source-map entries by position — `offsets().len()` before a macro body is emitted, move_offsets(first, ..) after "
                   "it re-attributes everything from that position on to the invocation: as long as it does, the source map only ever appends (push) and empties "
                   "(clear); an entry inserted in the middle, a sort, a removal make `first..` name entries of other statements, and their bytes are listed under the "
                   "invocation")
    users = []
    for f in fx.all_fns("mos_core"):
        if "::tests::" in f.path or not f.d.get("hir") or f.path.startswith("mos_core::codegen::source_map::"):
            continue
        marks = set()
        for n in lib.hwalk(f.hir["body"]):
            if n.get("k") == "let" and "init" in n and any(x.get("k") == "mcall" and x.get("name") == "len" and any(
                    y.get("k") == "mcall" and y.get("name") == "offsets" for y in lib.hwalk(x["recv"])) for x in lib.hwalk(n["init"])):
                marks |= {q["name"] for q in lib.hwalk(n["pat"]) if q.get("k") == "bind"}
        for n in lib.hwalk(f.hir["body"]):
            if n.get("k") == "mcall" and n.get("name") == "move_offsets" and any(lib.hpath(lib.strip(a)) in marks for a in n.get("args") or []):
                users.append((f, n.get("ln")))
    ctx.inst(rid, "positional-marker", sample={"uses": [("%s:%s" % (f.path, ln)) for f, ln in users]})
    if not users:
        # nothing relies on positions any more: the rule has nothing to protect
        return
    REORDER = ("insert", "sort", "sort_by", "sort_by_key", "sort_unstable", "sort_unstable_by", "sort_unstable_by_key", "sort_by_cached_key", "swap", "remove",
               "swap_remove", "retain", "retain_mut", "drain", "dedup", "dedup_by", "dedup_by_key", "reverse", "rotate_left", "rotate_right", "splice", "split_off",
               "truncate", "pop")
    n_fns = 0
    j = 0
    for f in sorted(fx.all_fns("mos_core"), key=lambda f: f.path):
        if "::tests::" in f.path or not f.d.get("hir"):
            continue
        hit = False
        for n in lib.hwalk(f.hir["body"]):
            if n.get("k") == "mcall":
                r = lib.strip(n["recv"])
                on_offsets = r.get("k") == "field" and r.get("name") == "offsets" and "SourceMapOffset" in str(r.get("ty", "") + str(r.get("aty", "")))
                if on_offsets:
                    hit = True
                    key = "%s|%s" % (f.path, n.get("name"))
                    ctx.inst(rid, key, sample={"fn": f.path, "method": n.get("name"), "line": n.get("ln")})
                    if n.get("name") in REORDER:
                        j += 1
                        ctx.finding(rid, "%s|reorders#%d" % (key, j),
                                    "%s changes the positions of source-map entries (`offsets.%s`), but a macro invocation remembers a position (`offsets().len()`, %s) "
                                    "and re-attributes everything behind it: entries of other statements end up there, and a listing shows their bytes on the "
                                    "invocation's line" % (f.path.rsplit("::", 1)[-1], n.get("name"), "%s:%s" % (users[0][0].file, users[0][1])),
                                    "%s:%s" % (f.file, n.get("ln")))
        n_fns += hit
    if n_fns < 3:
        ctx.fail_closed(rid, "fewer than 3 functions that work on SourceMap.offsets found (%d)" % n_fns)


def r1110(ctx, fx):
    rid = ctx.rule("R11.10", "a listing row shows the address of its own first byte: in to_listing no address is carried from row to row by adding lengths (`x += chunk.len()`) — the "
                   "rows of a line are cut where the addresses stop being consecutive (a loop body, a file imported twice), so the next row does not start where the "
                   "previous one ended")
    tl = fx.fn("mos_core::io::listing::to_listing")
    if tl is None or not tl.d.get("hir"):
        ctx.fail_closed(rid, "to_listing not found")
        return
    n = 0
    bad = []
    for x in lib.hwalk(tl.hir["body"]):
        if x.get("k") == "assignop":
            n += 1
            if x.get("op") in ("Add", "AddAssign") and any(y.get("k") == "mcall" and y.get("name") in ("len", "count") for y in lib.hwalk(x.get("r", {}))):
                bad.append((lib.hpath(x.get("l")), x.get("ln")))
    fmts = sum(1 for x in lib.hwalk(tl.hir["body"]) if x.get("k") == "lit" and "04X" in str(x.get("v", "")))
    ctx.inst(rid, "to_listing|row-address", sample={"compound_assignments": n, "running_addresses": bad, "address_formats": fmts})
    for name, ln in bad:
        ctx.finding(rid, "to_listing|running-address|%s" % name, "to_listing advances `%s` by a length from row to row: where the bytes of a source line are not contiguous — the "
                    "second iteration of a loop, the second import of a file — the rows are labelled with addresses at which other bytes are" % name,
                    "%s:%s" % (tl.file, ln))


def r115(ctx, fx, cg):
    from . import reentry
    rid = ctx.rule("R11.5", "state across nested constructs (A9): the code generator re-enters emit_token for macro / loop / scope / import bodies; no field of the "
                   "source map (or of anything else in the context) that one activation overwrites before a nested activation is read after it, unless the "
                   "body restores the saved value on every path — a single `mark`/cursor shared by nested macro invocations attributes the outer macro's "
                   "bytes to the wrong statement")
    et = fx.fn("mos_core::codegen::CodegenContext::emit_token")
    if et is None:
        ctx.fail_closed(rid, "emit_token not found")
        return
    R = reentry.Reentry(fx, cg, et)
    nb = 0
    cands = 0
    for b in sorted(R.bodies, key=lambda f: f.path):
        nb += 1
        W = reentry.direct_overwrites(b)
        cs = [bi for bi, t in lib.calls(b) if R.may_reenter(t)]
        if cs and W:
            cands += 1
            ctx.inst(rid, "%s|overwrites-before-reentry" % b.path, sample={"body": b.path, "overwritten_fields": sorted("%s.%s" % (a.rsplit("::", 1)[-1], n) for a, n in W)[:6],
                                                                         "reentering_calls": len(cs)})
        else:
            ctx.inst(rid, b.path, nontrivial=False)
        seen = {}
        for f, w, c, r in R.analyse(b):
            owner = b
            while owner.kind == "closure" and owner.d.get("parent") in fx.fns:
                owner = fx.fns[owner.d["parent"]]
            name = "%s.%s" % (f[0].rsplit("::", 1)[-1], f[1])
            seen[name] = seen.get(name, 0) + 1
            key = "%s|%s#%d" % (owner.path, name, seen[name])
            ctx.inst(rid, key)
            ctx.finding(rid, key, "`%s` is overwritten (line %s), then a nested activation of the code generator may run (line %s) and overwrite it again, then it is "
                        "read (line %s) without having been restored: with nested macros / scopes the outer construct continues with the inner one's value" % (
                            name, b.blocks[w]["term"].get("line"), b.blocks[c]["term"].get("line"), b.blocks[r]["term"].get("line")),
                        "%s:%s" % (b.file, b.blocks[r]["term"].get("line")))
    ctx.extra["reentry"] = {"bodies": nb, "bodies_overwriting_before_reentry": cands, "reentrant_functions": len(R.re)}
    if nb < 100 or cands < 2:
        ctx.fail_closed(rid, "re-entry analysis lost its anchors: %d bodies, %d candidates" % (nb, cands))


def r116(ctx, fx):
    rid = ctx.rule("R11.6", "repaired attribution defects stay repaired: (a) the entries moved to a macro invocation are selected by position (everything appended while "
                   "the body was emitted), not by equality with the macro's own scope — bytes from blocks/loops nested in the body belong to the invocation too; "
                   "(b) a listing row is cut where addresses stop being consecutive, not by count alone (slice::chunks); (c) the listing reads an entry's bytes "
                   "from the segment recorded in the entry, not from the first segment whose range happens to contain the address; (d) listing files of "
                   "sources with the same stem get distinct names and are written in a fixed order")
    mv = fx.fn("mos_core::codegen::source_map::SourceMap::move_offsets")
    et = fx.fn("mos_core::codegen::CodegenContext::emit_token")
    tl = fx.fn("mos_core::io::listing::to_listing")
    bc = fx.fn("mos::commands::build::build_command")
    if not (mv and et and tl and bc):
        ctx.fail_closed(rid, "move_offsets / emit_token / to_listing / build_command not found")
        return
    # (a)
    k = "move_offsets|selection"
    ctx.inst(rid, k)
    by_scope = [n for n in lib.hwalk(mv.hir["body"]) if n.get("k") == "binary" and n.get("op") in ("Eq", "Ne") and
                any(x.get("k") == "field" and x.get("name") == "scope" for x in lib.hwalk(n))]
    if by_scope:
        ctx.finding(rid, k, "move_offsets selects the entries to re-attribute by `offset.scope == <macro scope>`: bytes emitted from a `{ }` block, a labelled block or "
                    "a .loop inside a macro body keep the definition's lines, where the bytes of all invocations pile up in one listing row", mv.where)
    else:
        # position-based: the caller takes offsets().len() before emitting the body and hands it over
        arm = None
        for n in lib.hwalk(et.hir["body"]):
            if n.get("k") == "match":
                for a in n["arms"]:
                    pk = lib.pat_key(a["pat"])
                    if isinstance(pk, str) and pk.split("(")[0].endswith("Token::MacroInvocation"):
                        arm = a
                if arm:
                    break
        ok = False
        if arm is not None:
            first = None
            for n in lib.hwalk(arm["body"]):
                if n.get("k") == "let" and "init" in n and n["pat"].get("k") == "bind":
                    d = repr(lib.hdesc(n["init"]))
                    if "SourceMap::offsets" in d and "::len" in d:
                        first = (n["pat"]["name"], n.get("ln") or n["pat"].get("ln") or min([x["ln"] for x in lib.hwalk(n["init"]) if x.get("ln")] or [0]))
            emits = [x.get("ln") for x, p in lib.hir_calls(arm["body"], "CodegenContext::emit_tokens") if "block" in repr(lib.hdesc(lib.hargs(x)[1]))]
            moves = [x for x, p in lib.hir_calls(arm["body"], "SourceMap::move_offsets")]
            if first and emits and moves:
                ok = first[1] < min(emits) < moves[0].get("ln") and any(lib.hpath(a) == first[0] for a in lib.hargs(moves[0])[1:])
        if not ok:
            ctx.finding(rid, k, "the macro invocation does not hand move_offsets the number of entries that existed before its body was emitted", et.where)
    # (b)
    k = "to_listing|rows"
    ctx.inst(rid, k)
    chunked = [x for x in lib.hwalk(tl.hir["body"]) if x.get("k") == "mcall" and x.get("name") in ("chunks", "chunks_exact", "rchunks")]
    if chunked:
        ctx.finding(rid, k, "listing rows are cut by count only (slice::%s): the bytes a source line emitted at non-consecutive addresses (loop iterations, repeated "
                    "imports) are shown in one row as if they followed the row's address" % chunked[0]["name"], "%s:%s" % (tl.file, chunked[0].get("ln")))
    # (c)
    k = "to_listing|segment"
    ctx.inst(rid, k)
    scans = [n for n in lib.hwalk(tl.hir["body"]) if n.get("k") == "match" and n.get("src") == "ForLoopDesugar" and
             "IndexMap::values" in repr(lib.hdesc(lib.strip(lib.strip(n["scrut"])["args"][0]))) and "segments" in repr(lib.hdesc(lib.strip(lib.strip(n["scrut"])["args"][0])))]
    uses_entry_segment = any(x.get("k") == "field" and x.get("name") == "segment" for x in lib.hwalk(tl.hir["body"]))
    if scans or not uses_entry_segment:
        ctx.finding(rid, k, "the listing looks for *a* segment whose range contains the entry's address instead of the segment the entry was emitted to: with "
                    "segments that share target addresses the rows of one show the bytes of another", tl.where)
    # (d)
    k = "build_command|listing-names"
    ctx.inst(rid, k)
    loop = None
    for n in lib.hwalk(bc.hir["body"]):
        if n.get("k") == "match" and n.get("src") == "ForLoopDesugar" and any(True for _ in lib.hir_calls(n, "File::create")) and \
                any(x.get("k") == "lit" and ".lst" in str(x.get("v")) for x in lib.hwalk(n)):
            loop = n
            break
    if loop is None:
        ctx.fail_closed(rid, "the loop that writes the listing files was not found in build_command")
    else:
        it = repr(lib.hdesc(lib.strip(lib.strip(loop["scrut"])["args"][0])))
        ordered = "sorted" in it or "BTreeMap" in it or "IndexMap" in it
        # what reaches the path handed to File::create (through the `let`s of the loop body, every definition of a shadowed name) contains the source's path,
        # not only its stem
        lets_all = {}
        for y in lib.hwalk(loop):
            if y.get("k") == "let" and "init" in y and y["pat"].get("k") == "bind":
                lets_all.setdefault(y["pat"]["name"], []).append(y["init"])
        creates = [x for x, p in lib.hir_calls(loop, "File::create")]
        todo = [lib.hargs(c)[0] for c in creates]
        chain, seen_n = [], set()
        while todo and len(chain) < 40:
            e = todo.pop()
            chain.append(e)
            for y in lib.hwalk(e):
                nm = lib.hpath(y) if y.get("k") == "path" else None
                if nm in lets_all and nm not in seen_n:
                    seen_n.add(nm)
                    todo.extend(lets_all[nm])
        whole_path = any(x.get("k") == "mcall" and x.get("name") == "to_string_lossy" and "file_stem" not in repr(lib.hdesc(x["recv"]))
                         for c in chain for x in lib.hwalk(c)) or \
            any(x.get("k") == "mcall" and x.get("name") in ("display", "to_str") and "file_stem" not in repr(lib.hdesc(x["recv"])) for c in chain for x in lib.hwalk(c))
        if not whole_path:
            ctx.finding(rid, k, "a listing file is named after the file stem of its source only: `a.asm` and `a.inc`, or equally named files in different directories, "
                        "overwrite each other's listing", "%s:%s" % (bc.file, loop.get("ln")))
        # … and distinct paths get distinct names: the path separators are not folded into another character of file names for sources inside the project
        lets = {}
        for y in lib.hwalk(bc.hir["body"]):
            if y.get("k") == "let" and "init" in y and y["pat"].get("k") == "bind":
                lets[y["pat"]["name"]] = y["init"]
        for x, anc in _anc_walk(loop):
            if x.get("k") == "mcall" and x.get("name") == "replace" and any(y.get("k") == "lit" and y.get("v") == "_" for a in x.get("args") or [] for y in lib.hwalk(a)):
                guarded = False
                for p_, key in anc:
                    if p_.get("k") == "if" and key in ("then", "else"):
                        conds = [p_["cond"]] + [lets[lib.hpath(y)] for y in lib.hwalk(p_["cond"]) if y.get("k") == "path" and lib.hpath(y) in lets]
                        if any(z.get("k") == "mcall" and z.get("name") == "components" for c in conds for z in lib.hwalk(c)):
                            guarded = True
                ctx.inst(rid, k + "|injective", sample={"line": x.get("ln"), "only_outside_the_project": guarded})
                if not guarded:
                    ctx.finding(rid, k + "|injective", "the listing of a source inside the project is named after its path with the separators replaced by `_`: `a/b/c.asm` and "
                                "`a_b/c.asm` get the same name and the second listing replaces the first", "%s:%s" % (bc.file, x.get("ln")))
        if not ordered:
            ctx.finding(rid, k + "|order", "listing files are written in the iteration order of a HashMap", "%s:%s" % (bc.file, loop.get("ln")))


def _anc_walk(n, anc=()):
    """(node, ancestors) for every dict node, pre-order; ancestors are (parent node, key under which the child hangs) pairs"""
    if isinstance(n, dict):
        yield n, anc
        for k, v in n.items():
            if isinstance(v, (dict, list)):
                yield from _anc_walk(v, anc + ((n, k),)) if isinstance(v, dict) else _anc_list(v, anc + ((n, k),))


def _anc_list(v, anc):
    for x in v:
        if isinstance(x, dict):
            yield from _anc_walk(x, anc)
        elif isinstance(x, list):
            yield from _anc_list(x, anc)


# adaptors that yield at least one element whenever the receiver has one
_ADAPTERS = ("iter", "into_iter", "iter_mut", "enumerate", "rev", "cloned", "copied", "by_ref", "chunks", "rchunks", "chunks_mut", "map", "collect", "collect_vec",
             "to_vec", "to_owned", "clone", "sorted", "sorted_by", "sorted_by_key")


def _base_local(e):
    """the local a `for` iterates in full: looks through adapters that keep every element; None for anything else (filter, skip, take, ranges …)"""
    e = lib.strip(e)
    while isinstance(e, dict):
        if e.get("k") == "mcall" and e.get("name") in _ADAPTERS:
            e = lib.strip(e["recv"])
        elif e.get("k") == "unary" and e.get("op") == "Deref":
            e = lib.strip(e["a"])
        else:
            break
    if isinstance(e, dict) and e.get("k") == "path" and (e.get("res") or {}).get("dk") == "Local":
        return e["res"].get("name")
    return None


def _for_loops(root):
    """(desugared for node, iterated expression, body of the loop) for every `for` below root"""
    for n in lib.hwalk(root):
        if n.get("k") == "match" and n.get("src") == "ForLoopDesugar" and lib.strip(n["scrut"]).get("k") == "call" and \
                str(lib.hcallee(lib.strip(n["scrut"]))).endswith("into_iter"):
            inner = [m for m in lib.hwalk(n["arms"]) if m.get("k") == "match" and m.get("src") == "ForLoopDesugar" and m is not n and
                     str(lib.hcallee(lib.strip(m["scrut"]))).endswith("::next")]
            if not inner:
                continue
            some = [a for a in inner[0]["arms"] if "Some" in str(lib.pat_key(a["pat"]))]
            if some:
                yield n, lib.strip(n["scrut"])["args"][0], some[0]["body"]


def r117(ctx, fx):
    rid = ctx.rule("R11.7", "every source line gets a row: in the loop of to_listing over the lines of a file, the decision to print the row without bytes and the loop "
                   "that prints the rows with bytes are taken on the same collection — `X.is_empty()` selects the empty row, and the rows are printed per element "
                   "of X or of a collection that has an element whenever X has one (filled by a loop over X whose body appends on every path). Testing an "
                   "earlier collection (the source-map entries of the line) from which the bytes are only *conditionally* derived leaves a line whose entries "
                   "yield no bytes without any row")
    tl = fx.fn("mos_core::io::listing::to_listing")
    if tl is None or not tl.d.get("hir"):
        ctx.fail_closed(rid, "io::listing::to_listing not found")
        return
    line_loops = [(n, it, body) for n, it, body in _for_loops(tl.hir["body"]) if any(True for _ in lib.hir_calls(it, "File::num_lines"))]
    if len(line_loops) != 1:
        ctx.fail_closed(rid, "the loop over 0..file.num_lines() was not found in to_listing (%d candidates)" % len(line_loops))
        return
    _, _, body = line_loops[0]
    inside = {q["name"] for n in lib.hwalk(body) if n.get("k") == "let" for q in lib.hwalk(n["pat"]) if q.get("k") == "bind"}
    key = "to_listing|row-per-line"

    def is_row_push(x):
        if not (x.get("k") == "mcall" and x.get("name") == "push" and str(x.get("path", "")).startswith("alloc::vec::Vec")):
            return False
        r = lib.strip(x["recv"])
        return r.get("k") == "path" and (r.get("res") or {}).get("dk") == "Local" and r["res"].get("name") not in inside and "String" in str(r.get("ty"))
    fors = {id(n): (n, it, b) for n, it, b in _for_loops(body)}
    direct, looped = [], []
    for x, anc in _anc_walk(body):
        if not is_row_push(x):
            continue
        enclosing = [fors[id(p)] for p, _ in anc if id(p) in fors]
        tests = []
        for p, k in anc:
            if p.get("k") == "if" and k in ("then", "else"):
                c = lib.strip(p["cond"])
                neg = k == "else"
                while c.get("k") == "unary" and c.get("op") == "Not":
                    c, neg = lib.strip(c["a"]), not neg
                if c.get("k") == "mcall" and c.get("name") == "is_empty" and not neg:
                    tests.append(_base_local(c["recv"]))
                elif c.get("k") == "binary" and c.get("op") in ("Eq", "Ne") and (c["op"] == "Ne") == neg and lib.hlit(c["r"]) == 0 and \
                        lib.strip(c["l"]).get("k") == "mcall" and lib.strip(c["l"]).get("name") == "len":
                    tests.append(_base_local(lib.strip(c["l"])["recv"]))
        (looped if enclosing else direct).append((x, enclosing, tests))
    sample = {"rows_without_bytes": len(direct), "rows_with_bytes": len(looped)}
    if not looped or not direct:
        # some other way of writing it: decided on the flow graph alone, or not at all
        ctx.inst(rid, key, sample=dict(sample, shape="not the is_empty / per-element form"))
        ctx.not_decided("R11.7: to_listing does not print its rows in the `is_empty` / per-element form; that every line gets a row is not decided")
        return
    tested = {t for _, _, tests in direct for t in tests if t}
    if not tested:
        ctx.inst(rid, key, sample=dict(sample, shape="the row without bytes is not selected by an emptiness test"))
        ctx.not_decided("R11.7: the row without bytes of to_listing is not selected by `is_empty()` / `len() == 0`; that every line gets a row is not decided")
        return

    def appends_always(loop_body, target):
        """every path through the loop body appends to `target`: a push that hangs under no condition other than a match on target.last()/last_mut() one
        arm of which pushes (the other arms extend the last element, which exists)"""
        for x, anc in _anc_walk(loop_body):
            if not (x.get("k") == "mcall" and x.get("name") == "push" and _base_local(x["recv"]) == target):
                continue
            ok = True
            for p, k in anc:
                pk = p.get("k")
                if pk == "if" and k in ("then", "else"):
                    ok = False
                elif pk == "loop" and p.get("src") != "ForLoop":
                    ok = False
                elif pk == "match" and k == "arms" and p.get("src") not in ("ForLoopDesugar",):
                    s = lib.strip(p["scrut"])
                    if not (s.get("k") == "mcall" and s.get("name") in ("last", "last_mut") and _base_local(s["recv"]) == target):
                        ok = False
            if ok and not any(id(p) in {id(n) for n, _, _ in _for_loops(loop_body)} for p, _ in anc):
                return True
        return False
    # collections known to be non-empty when a tested one is: closure of `tested` under "filled by a for over a member, appending on every path"
    nonempty = set(tested)
    all_fors = list(_for_loops(body))
    changed = True
    while changed:
        changed = False
        # `let C = <a member, through adaptors that keep every element>`
        for n in lib.hwalk(body):
            if n.get("k") == "let" and "init" in n and n["pat"].get("k") == "bind" and n["pat"]["name"] not in nonempty and _base_local(n["init"]) in nonempty:
                nonempty.add(n["pat"]["name"])
                changed = True
        for n, it, b in all_fors:
            src = _base_local(it)
            if src in nonempty:
                for x in lib.hwalk(b):
                    if x.get("k") == "mcall" and x.get("name") == "push":
                        tgt = _base_local(x["recv"])
                        if tgt and tgt not in nonempty and tgt in inside and appends_always(b, tgt):
                            nonempty.add(tgt)
                            changed = True
    rows_over = sorted({str(_base_local(enc[0][1])) for _, enc, _ in looped})
    ctx.inst(rid, key, sample=dict(sample, empty_row_selected_by=sorted(tested), rows_printed_per_element_of=rows_over, has_an_element_whenever_tested_has=sorted(nonempty)))
    for c in rows_over:
        if c not in nonempty:
            ctx.finding(rid, key, "the row without bytes is printed when `%s` is empty, the rows with bytes per element of `%s` — which can be empty when `%s` is "
                        "not (it is filled conditionally): a source line whose source-map entries yield no bytes (a zero-length entry, an entry of a segment that "
                        "no longer holds it) disappears from the listing" % ("`/`".join(sorted(tested)) or "?", c, "`/`".join(sorted(tested)) or "?"), tl.where)


def r118(ctx, fx):
    rid = ctx.rule("R11.8", "a target address alone identifies no byte: segments may share target addresses (overlays with the same `pc`, banks), so in the listing and "
                   "source-map code no map or set is keyed by a TARGET-labelled address alone (BTreeMap/HashMap::insert/entry, BTreeSet/HashSet::insert with a key "
                   "of a plain address type) — the second byte at an address replaces the first and a byte of the image is never listed")
    TT = taint.Taint(fx, "TARGET", source_calls=["Segment::target_pc", "CodegenContext::try_current_target_pc"],
                     source_fields=[("SourceMapOffset", "pc")], carrier=ADDR_CARRIER, kill=taint.DEFAULT_KILL)
    PLAIN = ("usize", "u16", "u32", "u64", "i64", "mos_core::codegen::program_counter::ProgramCounter", "ProgramCounter")
    n = 0
    scanned = 0
    seen = {}
    for f in sorted(fx.all_fns("mos_core"), key=lambda f: f.path):
        if "::tests::" in f.path or not (f.path.startswith("mos_core::io::listing") or f.path.startswith("mos_core::codegen::source_map")) or not f.blocks:
            continue
        scanned += 1
        for bi, t in lib.calls(f):
            p, fr = lib.callee(t)
            pn = lib.norm(p or "")
            if not (pn.endswith(("Map::insert", "Map::entry", "Set::insert")) or any(pn.endswith(x) for x in (
                    "BTreeMap::<K, V, A>::insert", "BTreeMap::<K, V, A>::entry", "HashMap::<K, V, S, A>::insert", "HashMap::<K, V, S, A>::entry",
                    "BTreeSet::<T, A>::insert", "HashSet::<T, S, A>::insert"))):
                continue
            n += 1
            gen = fr.get("gen") or []
            ktype = str(gen[0]) if gen else ""
            key_op = t["args"][1] if len(t.get("args", [])) > 1 else None
            labelled = key_op is not None and TT.op_tainted(f.id, key_op)
            seen[f.path] = seen.get(f.path, 0) + 1
            k = "%s|keyed#%d" % (f.path, seen[f.path])
            ctx.inst(rid, k, sample={"fn": f.path, "call": pn.rsplit("::", 2)[-2] + "::" + pn.rsplit("::", 1)[-1], "key_type": ktype, "key_is_a_target_address": labelled,
                                     "line": t.get("line")})
            if labelled and ktype in PLAIN:
                ctx.finding(rid, k, "%s keys a collection by a target address alone (%s<%s, …>, line %s): when one source line emitted to the same target address in two "
                            "segments (a file imported into two overlays that run at the same `pc`), the later byte replaces the earlier one and that byte of the "
                            "image appears in no listing" % (f.path.rsplit("::", 1)[-1], pn.rsplit("::", 2)[-2].split("<")[0], ktype, t.get("line")),
                            "%s:%s" % (f.file, t.get("line")))
    ctx.inst(rid, "scan", sample={"functions_scanned": scanned, "keyed_insertions": n})
    if scanned < 5:
        ctx.fail_closed(rid, "fewer than 5 functions of the listing / source-map modules found (%d)" % scanned)


def run(ctx):
    fx = ctx.facts
    cg = lib.CallGraph(fx)
    r111(ctx, fx, cg)
    r115(ctx, fx, cg)
    r116(ctx, fx)
    r117(ctx, fx)
    r118(ctx, fx)
    r119(ctx, fx)
    r1110(ctx, fx)
    r112(ctx, fx)
    r113(ctx, fx, cg)
    r114(ctx, fx)
    ctx.not_decided("row layout and per-line grouping of listing rows on concrete programs; that every byte appears exactly once")
