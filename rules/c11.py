"""C11 — source map and listings are exact (structural clauses).

 R11.1 single emission choke point: Segment::emit is called only from CodegenContext::emit, where SourceMap::add with the same byte
       count precedes it on every path; every emission in emit_token goes through CodegenContext::emit
 R11.2 no comparison / subtraction mixes a target-space address (source-map entries, target_pc) with a physical one
       (Segment::range, Segment::pc) unless the function converts with target_offset                     [two label propagations]
 R11.3 source-map entries are re-attributed to the macro invocation only under move_macro_source_map_to_invocation, which the
       build command sets from the `listing` option
 R11.4 address → entry and line → entries lookups compare half-open ranges consistently
"""
from . import lib, taint

CC = "mos_core::codegen::CodegenContext"
SEG = "mos_core::codegen::segment::Segment"

ADDR_CARRIER = taint.make_carrier(taint._INTS | {"mos_core::codegen::program_counter::ProgramCounter"})


def r111(ctx, fx, cg):
    rid = ctx.rule("R11.1", "Segment::emit has exactly one caller, CodegenContext::emit; there SourceMap::add(scope, span, target_pc, bytes.len()) is executed "
                   "before it on every path that emits; no other function writes Segment.data")
    se = fx.fn(SEG + "::emit")
    em = fx.fn(CC + "::emit")
    if not (se and em):
        ctx.fail_closed(rid, "Segment::emit / CodegenContext::emit not found")
        return
    callers = sorted(fx.fns[c].path for c in cg.callers.get(se.id, ()) if "::tests::" not in fx.fns[c].path)
    ctx.inst(rid, "callers|Segment::emit", sample={"callers": callers})
    if callers != [em.path]:
        ctx.finding(rid, "callers|Segment::emit", "Segment::emit is called from %s: bytes can be emitted without a source-map entry" % callers, se.where)
    adds = [bi for bi, t in lib.calls(em) if lib.pm(lib.callee(t)[0], "SourceMap::add")]
    emits = [bi for bi, t in lib.calls(em) if lib.callee(t)[0] == se.path]
    ctx.inst(rid, "%s|add-before-emit" % em.path, sample={"add_sites": len(adds), "emit_sites": len(emits)})
    for e in emits:
        if not adds or not lib.must_pass(em, adds, e):
            ctx.finding(rid, "%s|add-before-emit" % em.path, "bytes can reach Segment::emit without SourceMap::add having recorded them", em.where)
    # same length: the 4th argument of add is bytes.len() of the same slice passed to emit
    ctx.inst(rid, "%s|same-length" % em.path)
    ok = False
    for x, p in lib.hir_calls(em.hir["body"], "SourceMap::add"):
        a = lib.hargs(x)
        d = lib.hdesc(a[4])
        for y, p2 in lib.hir_calls(em.hir["body"], "Segment::emit"):
            b = lib.hdesc(lib.hargs(y)[1])
            if d[0] == "m" and d[1].endswith("::len") and d[2] == b:
                ok = True
    if not ok:
        ctx.finding(rid, "%s|same-length" % em.path, "the source-map entry does not cover exactly the emitted bytes (length ≠ bytes.len())", em.where)
    # who writes Segment.data
    writers = set()
    for f in fx.all_fns("mos_core"):
        if "::tests::" in f.path:
            continue
        for of, n, kind, _, _ in lib.writes_of(f):
            if of == SEG and n == "data":
                writers.add(f.path)
    ctx.inst(rid, "writers|Segment.data", sample={"writers": sorted(writers)})
    allowed = {SEG + "::emit", SEG + "::reset", SEG + "::new"}
    if not writers <= allowed:
        ctx.finding(rid, "writers|Segment.data", "segment bytes are written outside emit/reset: %s" % sorted(writers - allowed), se.where)
    # every byte-producing arm of emit_token goes through CodegenContext::emit (no direct segment access)
    et = fx.fn(CC + "::emit_token")
    ctx.inst(rid, "%s|via-emit" % CC)
    if et is not None:
        n_emit = sum(1 for _ in lib.hir_calls(et.hir["body"], "CodegenContext::emit"))
        if n_emit < 8:
            ctx.finding(rid, "%s|via-emit" % CC, "emit_token has only %d calls of CodegenContext::emit (align, data ×2, file, instruction ×3, text expected)" % n_emit, et.where)


def r112(ctx, fx):
    rid = ctx.rule("R11.2", "label TARGET (SourceMapOffset.pc, Segment::target_pc, try_current_target_pc) and label PHYSICAL (Segment::range, Segment::pc, "
                   "Segment.range/.pc) must not meet in a comparison or subtraction inside a function that never consults Segment::target_offset")
    TT = taint.Taint(fx, "TARGET", source_calls=["Segment::target_pc", "CodegenContext::try_current_target_pc"],
                     source_fields=[("SourceMapOffset", "pc")], carrier=ADDR_CARRIER, kill=taint.DEFAULT_KILL)
    TP = taint.Taint(fx, "PHYSICAL", source_calls=["Segment::range", "Segment::pc"], source_fields=[("segment::Segment", "range"), ("segment::Segment", "pc")],
                     carrier=ADDR_CARRIER, kill=taint.DEFAULT_KILL, sanitizers=["Segment::target_pc", "CodegenContext::try_current_target_pc"])
    n = 0
    seen = {}
    for f in sorted(fx.all_fns(), key=lambda f: f.path):
        if "::tests::" in f.path or f.path.startswith(SEG):
            continue
        converts = any(lib.pm(lib.callee(t)[0], "Segment::target_offset") for o in lib.owned(fx, f) for _, t in lib.calls(o))
        for bi, si, s in lib.stmts(f):
            if s["k"] != "assign" or s["rv"]["k"] != "binop":
                continue
            op = s["rv"]["op"].replace("WithOverflow", "")
            if op not in ("Lt", "Le", "Gt", "Ge", "Eq", "Ne", "Sub"):
                continue
            l, r = s["rv"]["l"], s["rv"]["r"]
            lt, lp = TT.op_tainted(f.id, l), TP.op_tainted(f.id, l)
            rt, rp = TT.op_tainted(f.id, r), TP.op_tainted(f.id, r)
            mixed = (lt and not lp and rp and not rt) or (lp and not lt and rt and not rp)
            if not (lt or lp or rt or rp):
                continue
            n += 1
            if not mixed:
                ctx.inst(rid, "%s|%s@%d.%d" % (f.path, op, bi, si), nontrivial=False)
                continue
            seen[f.path] = seen.get(f.path, 0) + 1
            key = "%s|%s#%d" % (f.path, "mix", seen[f.path])
            ctx.inst(rid, key, sample={"fn": f.path, "op": op, "line": s.get("line"), "converts_with_target_offset": converts})
            if converts:
                continue
            if seen[f.path] > 1:
                continue   # one finding per function
            ctx.finding(rid, "%s|mix" % f.path, "%s compares/subtracts a target-space address (source-map entry) with a physical one (Segment::range) without "
                        "converting by target_offset: for a relocated segment (`pc = …`) nothing matches and its bytes are missing from the listing" % f.path,
                        "%s:%s" % (f.file, s.get("line")))
    ctx.extra["address_space_binops_examined"] = n
    if n < 6:
        ctx.fail_closed(rid, "fewer than 6 address comparisons found (%d): labels did not propagate" % n)


def r113(ctx, fx, cg):
    rid = ctx.rule("R11.3", "SourceMap::move_offsets is called only under `options.move_macro_source_map_to_invocation`; the build command initialises that "
                   "option from `cfg.build.listing`; the language server / test runner / debugger leave it false")
    mo = fx.fn("mos_core::codegen::source_map::SourceMap::move_offsets")
    if mo is None:
        ctx.fail_closed(rid, "SourceMap::move_offsets not found")
        return
    callers = [fx.fns[c] for c in cg.callers.get(mo.id, ()) if "::tests::" not in fx.fns[c].path]
    ctx.inst(rid, "callers|move_offsets", sample={"callers": [c.path for c in callers]})
    for c in callers:
        owner = c
        while owner.kind == "closure" and owner.d.get("parent") in fx.fns:
            owner = fx.fns[owner.d["parent"]]
        guarded = False
        for n in lib.hwalk(owner.hir["body"]):
            if n.get("k") == "if" and "move_macro_source_map_to_invocation" in repr(lib.hdesc(n["cond"])) and \
                    any(True for _ in lib.hir_calls(n["then"], "SourceMap::move_offsets")):
                guarded = True
        key = "%s|guard" % owner.path
        ctx.inst(rid, key)
        if not guarded:
            ctx.finding(rid, key, "%s re-attributes macro bytes to the invocation unconditionally: breakpoints inside macros stop working / listings change" % owner.path, owner.where)
    # who sets the option
    n = 0
    for f in sorted(fx.all_fns("mos"), key=lambda f: f.path):
        if not f.d.get("hir") or "::tests::" in f.path:
            continue
        for s in lib.hwalk(f.hir["body"]):
            if s.get("k") == "struct" and lib.pm(s["res"].get("path"), "CodegenOptions"):
                for fl in s["fields"]:
                    if fl["name"] == "move_macro_source_map_to_invocation":
                        n += 1
                        d = lib.hdesc(fl["e"])
                        key = "%s|sets-option" % f.path
                        ctx.inst(rid, key, sample={"fn": f.path, "value": repr(d)[:80]})
                        is_build = f.path.endswith("build::build_command")
                        if is_build and not (d[0] == "f" and d[1] == "listing"):
                            ctx.finding(rid, key, "the build command must take move_macro_source_map_to_invocation from the `listing` option", f.where)
                        if not is_build and d != ("c", False):
                            ctx.finding(rid, key, "%s enables invocation-site attribution; only listings want that" % f.path, f.where)
    if n < 1:
        ctx.fail_closed(rid, "no initialisation of move_macro_source_map_to_invocation found in crate mos")


def r114(ctx, fx):
    rid = ctx.rule("R11.4", "SourceMap::add records pc..pc+len; address_to_offset tests `pc >= start && pc < end` (half-open)")
    sm = "mos_core::codegen::source_map::SourceMap::"
    add = fx.fn(sm + "add")
    ctx.inst(rid, sm + "add")
    if add is None:
        ctx.fail_closed(rid, "SourceMap::add not found")
    else:
        pn = [p.get("name") for p in add.hir["params"]]
        ok = False
        for s in lib.hwalk(add.hir["body"]):
            if s.get("k") == "struct" and lib.pm(s["res"].get("path"), "ops::range::Range"):
                fl = {f["name"]: lib.hdesc(f["e"]) for f in s["fields"]}
                st, en = fl.get("start"), fl.get("end")
                if st and en and en[0] == "Add" and st in en[1:] and ("v", pn[4]) in en[1:] and pn[3] in repr(st):
                    ok = True
        if not ok:
            ctx.finding(rid, sm + "add", "a source-map entry must cover pc .. pc + len", add.where)
    ao = fx.fn(sm + "address_to_offset")
    ctx.inst(rid, sm + "address_to_offset")
    if ao is None:
        ctx.fail_closed(rid, "address_to_offset not found")
    else:
        ok = False
        for o in lib.owned(fx, ao):
            pass
        for n in lib.hwalk(ao.hir["body"]):
            if n.get("k") == "binary" and n["op"] == "And":
                d = lib.hdesc(n)
                r = repr(d)
                if "'Le'" in r and "'Lt'" in r and "'start'" in r and "'end'" in r:
                    # pc >= start  ≡ Le(start, pc) ; pc < end ≡ Lt(pc, end)
                    parts = [d[1], d[2]]
                    le = [p for p in parts if p[0] == "Le"]
                    lt = [p for p in parts if p[0] == "Lt"]
                    if le and lt and "'start'" in repr(le[0][1]) and "'end'" in repr(lt[0][2]):
                        ok = True
        if not ok:
            ctx.finding(rid, sm + "address_to_offset", "address lookup must test start <= pc < end", ao.where)


def run(ctx):
    fx = ctx.facts
    cg = lib.CallGraph(fx)
    r111(ctx, fx, cg)
    r112(ctx, fx)
    r113(ctx, fx, cg)
    r114(ctx, fx)
    ctx.not_decided("row layout, per-line grouping and uniqueness of listing rows; attribution of bytes from brace blocks nested in macro bodies; "
                    "contiguity of the bytes shown in one row")
