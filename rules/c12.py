"""C12 — formatting never changes what a program means and never loses comments (structural clauses).

 R12.1 formatter coverage: every text-carrying field of every Token / Expression / ExpressionFactor variant and of Operand, ImportAs,
       SpecificImportArg, InterpolatedString is emitted by the formatter
 R12.2 trivia carriers: a `Located` emitted through `.data` only must be the token's leading element (whose trivia format_line emits)
       or tabled; everything else goes through the Located formatter (trivia, then data)
 R12.3 `mos format` opens files for writing only after parse_or_err of the whole project succeeded
 R12.4 both comment kinds of Trivia are emitted as comment chunks, newlines as line breaks; the line assembler drops only blank lines
"""
from . import lib
from .c05 import NONTEXT, binds, used_names

AST = "mos_core::parser::ast::"
CF = "mos_core::formatting::CodeFormatter::"
LOCATED = AST + "Located<"

# Located fields emitted through `.data` although they are not the token's leading element — each confirmed by reading
DATA_ONLY_OK = {
    ("format_block", "rparen"): "the closing brace's trivia is re-attached to a synthetic Eof token that format_tokens emits",
    ("format_token", "Label.id"): "leading element of the label (format_line emits its trivia)",
}
FMT_NONTEXT = dict(NONTEXT)
FMT_NONTEXT[("Token::Label", "colon")] = "the colon is parsed without trivia and re-emitted as the constant `:`"
FMT_NONTEXT[("Token::Eof", "0")] = "carries only trivia, which format_line emits before the next token / at the end of a block"


def leading_fields(fx):
    """Token variant -> the field (path) whose trivia Token::trivia() returns"""
    f = fx.fn(AST + "Token::trivia")
    out = {}
    if f is None:
        return None
    for m in lib.hwalk(f.hir["body"]):
        if m.get("k") == "match":
            for a in m["arms"]:
                p = a["pat"]
                while p.get("k") == "ref":
                    p = p["sub"]
                vp = (p.get("res") or {}).get("path")
                if not vp:
                    continue
                d = lib.hdesc(a["body"])
                # &tag.trivia → ('f','trivia',('v','tag'))  /  &block.lparen.trivia
                chain = []
                x = d
                while isinstance(x, tuple) and x and x[0] == "f":
                    chain.append(x[1])
                    x = x[2]
                base = x[1] if isinstance(x, tuple) and x[0] == "v" else None
                # map binding back to field name
                fb = {}
                if p.get("k") == "struct":
                    for fl in p["fields"]:
                        for b in binds(fl["pat"]):
                            fb[b] = fl["name"]
                elif p.get("k") == "tstruct":
                    for i, q in enumerate(p["pats"]):
                        for b in binds(q):
                            fb[b] = str(i)
                out[vp.rsplit("::", 1)[1]] = ([fb.get(base, base)] + chain[::-1][:-1]) if base else None
            break
    return out


def arm_field_uses(arm, adt_variant):
    """for a match arm over a struct/tuple-struct pattern: field -> list of ('whole'|'data'|'other', node) uses in the body"""
    p = arm["pat"]
    while p.get("k") == "ref":
        p = p["sub"]
    fb = {}
    if p.get("k") == "struct":
        for f in p["fields"]:
            for b in binds(f["pat"]):
                fb[b] = f["name"]
    elif p.get("k") == "tstruct":
        for i, q in enumerate(p["pats"]):
            for b in binds(q):
                fb[b] = str(i)
    uses = {v: [] for v in fb.values()}

    def rec(n, parent, pkey):
        if isinstance(n, list):
            for x in n:
                rec(x, parent, pkey)
            return
        if not isinstance(n, dict):
            return
        if n.get("k") == "path" and (n.get("res") or {}).get("dk") == "Local" and n["res"].get("name") in fb:
            fld = fb[n["res"]["name"]]
            kind = "whole"
            if parent is not None and parent.get("k") == "field" and pkey == "a":
                kind = "data" if parent["name"] == "data" else "field:" + parent["name"]
            uses[fld].append((kind, n))
            return
        for key, v in n.items():
            if isinstance(v, (dict, list)):
                rec(v, n, key)

    def flat(n):
        if isinstance(n, dict):
            if n.get("k") == "addrof":
                return flat(n["a"])
            return {k: flat(v) for k, v in n.items()}
        if isinstance(n, list):
            return [flat(x) for x in n]
        return n
    rec(flat(arm["body"]), None, None)
    return uses


def r121_122(ctx, fx):
    rid1 = ctx.rule("R12.1", "formatter coverage: in CodeFormatter::format_token / format_expression / format_expression_factor every field of every variant is "
                    "bound and used (except the tabled non-text fields); the Formattable impls of Operand, ImportAs, SpecificImportArg, InterpolatedString and "
                    "format_block read every field")
    rid2 = ctx.rule("R12.2", "a Located field that the formatter emits through `.data` (dropping its trivia, i.e. its comments) must be the token's leading element "
                    "according to Token::trivia() or be tabled; all other Located fields go through the Located formatter")
    lead = leading_fields(fx)
    if lead is None:
        ctx.fail_closed(rid2, "Token::trivia not found")
        return
    for fname, ty in (("format_token", "Token"), ("format_expression", "Expression"), ("format_expression_factor", "ExpressionFactor")):
        f = fx.fn(CF + fname)
        adt = fx.adts.get(AST + ty)
        if f is None or adt is None:
            ctx.fail_closed(rid1, "%s / %s not found" % (fname, ty))
            continue
        m = [n for n in lib.hwalk(f.hir["body"]) if n.get("k") == "match"]
        if not m:
            ctx.fail_closed(rid1, "%s is not a match" % fname)
            continue
        arms = {}
        for a in m[0]["arms"]:
            alts = a["pat"]["pats"] if a["pat"].get("k") == "or" else [a["pat"]]
            for p in alts:
                while p.get("k") == "ref":
                    p = p["sub"]
                vp = (p.get("res") or {}).get("path")
                if vp:
                    a2 = dict(a)
                    a2["pat"] = p
                    arms[vp.rsplit("::", 1)[1]] = a2
        for v in adt["variants"]:
            vn = v["name"]
            key = "%s::%s" % (ty, vn)
            a = arms.get(vn)
            if a is None:
                ctx.inst(rid1, key)
                ctx.finding(rid1, key, "the formatter has no arm for %s" % key, f.where)
                continue
            uses = arm_field_uses(a, v)
            for fl in v["fields"]:
                k = "%s|%s" % (key, fl["name"])
                ctx.inst(rid1, k, sample={"variant": key, "field": fl["name"]} if vn in ("If", "Import") else None)
                if (key, fl["name"]) in FMT_NONTEXT:
                    continue
                if not uses.get(fl["name"]):
                    ctx.finding(rid1, k, "the formatter never emits field `%s` of %s: that part of the program disappears when formatting" % (fl["name"], key),
                                "%s:%s" % (f.file, a.get("ln")))
                    continue
                # R12.2
                if not fl["ty"].startswith(LOCATED) and not fl["ty"].startswith("core::option::Option<" + LOCATED):
                    continue
                kinds = {u[0] for u in uses[fl["name"]]}
                k2 = "%s|%s" % (key, fl["name"])
                ctx.inst(rid2, k2, sample={"field": k2, "emitted": sorted(kinds)} if vn in ("Align", "Label", "Import") else None)
                if "whole" in kinds:
                    continue
                if kinds <= {"data", "field:span"}:
                    is_lead = lead.get(vn) and lead[vn][0] == fl["name"] and len(lead[vn]) == 1
                    if is_lead or (fname, "%s.%s" % (vn, fl["name"])) in DATA_ONLY_OK:
                        continue
                    ctx.finding(rid2, k2, "field `%s` of %s is emitted through `.data` only although it is not the token's leading element: comments in front of it are "
                                "deleted by the formatter" % (fl["name"], key), "%s:%s" % (f.file, a.get("ln")))
    # format_block and the Formattable impls: field reads on `self` / `block`
    impls = [
        (CF + "format_block", "Block", "block"),
        ("<&mos_core::parser::ast::Operand as mos_core::formatting::Formattable>::format", "Operand", "self"),
        ("<&mos_core::parser::ast::ImportAs as mos_core::formatting::Formattable>::format", "ImportAs", "self"),
        ("<&mos_core::parser::ast::InterpolatedString as mos_core::formatting::Formattable>::format", "InterpolatedString", "self"),
    ]
    # by role: the CodeFormatter method with a `&Block` parameter that reads most of its fields
    best = None
    for g in fx.all_fns("mos_core"):
        if g.d.get("impl_self") == "mos_core::formatting::CodeFormatter" and g.d.get("hir") and \
                any(l["ty"] == "&mos_core::parser::ast::Block" for l in g.locals[1:1 + g.argc]):
            pn = [p.get("name") for p, l in zip(g.hir["params"], g.locals[1:1 + g.argc]) if l["ty"] == "&mos_core::parser::ast::Block"][0]
            nreads = len({x["name"] for x in lib.hwalk(g.hir["body"]) if x.get("k") == "field" and lib.hpath(x["a"]) == pn})
            if best is None or nreads > best[0]:
                best = (nreads, g.path, pn)
    if best:
        impls[0] = (best[1], "Block", best[2])
    for path, ty, base in impls:
        f = fx.fn(path)
        adt = fx.adts.get(AST + ty)
        if f is None or adt is None:
            ctx.fail_closed(rid1, "%s not found" % path)
            continue
        body = f.hir["body"]
        reads = {}
        for x in lib.hwalk(body):
            if x.get("k") == "field" and lib.hpath(x["a"]) == base:
                reads.setdefault(x["name"], []).append(x)
        # .data of a Located field
        data_only = {}
        for x in lib.hwalk(body):
            if x.get("k") == "field" and x["name"] == "data":
                inner = lib.strip(x["a"])
                if inner.get("k") == "field" and lib.hpath(inner["a"]) == base:
                    data_only.setdefault(inner["name"], 0)
                    data_only[inner["name"]] += 1
        for fl in adt["variants"][0]["fields"]:
            k = "%s|%s" % (ty, fl["name"])
            ctx.inst(rid1, k)
            if (ty, fl["name"]) in FMT_NONTEXT:
                continue
            if fl["name"] not in reads:
                ctx.finding(rid1, k, "the formatter of %s never reads field `%s`" % (ty, fl["name"]), f.where)
                continue
            if fl["ty"].startswith(LOCATED):
                ctx.inst(rid2, k, sample={"field": k, "data_only_uses": data_only.get(fl["name"], 0), "uses": len(reads[fl["name"]])})
                if data_only.get(fl["name"], 0) == len(reads[fl["name"]]):
                    short = "format_block" if ty == "Block" else "format"
                    if (short, fl["name"]) in DATA_ONLY_OK:
                        continue
                    ctx.finding(rid2, k, "`%s.%s` is emitted through `.data` only: a comment between the preceding element and this `%s` is deleted by the formatter" % (
                        ty, fl["name"], {"lparen": "{", "rparen": "}"}.get(fl["name"], fl["name"])), f.where)
    # InterpolatedStringItem::IdentifierPath(path): emitted through path.data
    f = fx.fn("<&mos_core::parser::ast::InterpolatedString as mos_core::formatting::Formattable>::format")
    if f is not None:
        k = "InterpolatedStringItem::IdentifierPath|0"
        ctx.inst(rid2, k)
        for m in lib.hwalk(f.hir["body"]):
            if m.get("k") == "match":
                for a in m["arms"]:
                    pk = lib.pat_key(a["pat"])
                    if isinstance(pk, str) and "InterpolatedStringItem::IdentifierPath" in pk:
                        uses = arm_field_uses(a, None)
                        kinds = {u[0] for u in uses.get("0", [])}
                        if kinds and "whole" not in kinds:
                            ctx.finding(rid2, k, "an interpolated `{ path}` is emitted through `.data`: trivia (a comment) between `{` and the path is deleted by the formatter",
                                        "%s:%s" % (f.file, a.get("ln")))
    # the Located formatter itself: trivia then data
    lf = [g for g in fx.all_fns("mos_core") if g.path.startswith("<&'a mos_core::parser::ast::Located<T> as mos_core::formatting::Formattable>::format")]
    ctx.inst(rid2, "Located|trivia-then-data")
    if len(lf) != 1:
        ctx.fail_closed(rid2, "Formattable for &Located<T> not found")
    else:
        flds = [x["name"] for x in lib.hwalk(lf[0].hir["body"]) if x.get("k") == "field" and lib.hpath(x["a"]) == "self"]
        if flds[:1] != ["trivia"] or "data" not in flds or flds.index("data") < flds.index("trivia"):
            ctx.finding(rid2, "Located|trivia-then-data", "the Located formatter must emit the trivia and then the data (reads: %s)" % flds, lf[0].where)
    ctx.floor(rid1, 90, "variant fields")
    ctx.floor(rid2, 30, "Located fields")


def r123(ctx, fx):
    rid = ctx.rule("R12.3", "in `mos format` every file-opening/-writing call is dominated by the Ok continuation of parse_or_err (the whole project parsed "
                   "without errors); the text written is the result of formatting::format with the project's options")
    fns = [f for f in fx.all_fns("mos") if f.path == "mos::commands::format::format_command"]
    if len(fns) != 1:
        ctx.fail_closed(rid, "format_command not found")
        return
    f = fns[0]
    from .c04 import WRITE_CALLEES, ok_continuation
    guards = [ok_continuation(f, bi) for bi, t in lib.calls(f) if lib.pm(lib.callee(t)[0], "parser::parse_or_err")]
    guards = [g for g in guards if g is not None]
    ctx.inst(rid, "%s|guard" % f.path, sample={"ok_continuations": guards})
    if len(guards) != 1:
        ctx.finding(rid, "%s|guard" % f.path, "format_command does not propagate a parse error of the project (`parse_or_err(..)?`) before touching files", f.where)
        return
    n = 0
    for bi, t in lib.calls(f):
        pn = lib.norm(lib.callee(t)[0] or "")
        if WRITE_CALLEES.match(pn) or pn.endswith("OpenOptions::truncate"):
            n += 1
            k = "%s|%s|%d" % (f.path, pn, n)
            ctx.inst(rid, k, sample={"call": pn, "line": t.get("line")})
            if not lib.dominates(f, guards[0], bi):
                ctx.finding(rid, k, "%s can run although the project has parse errors: files are rewritten from a partial parse" % pn, "%s:%s" % (f.file, t.get("line")))
    if n < 2:
        ctx.fail_closed(rid, "fewer than two file-writing calls found in format_command")
    # what is written
    ctx.inst(rid, "%s|content" % f.path)
    ok = False
    for x, p in lib.hir_calls(f.hir["body"], "formatting::format"):
        a = [lib.hdesc(y) for y in x["args"]]
        if len(a) == 3 and a[2][:2] == ("f", "formatting"):
            ok = True
    if not ok:
        ctx.finding(rid, "%s|content" % f.path, "format_command does not format with the project's [formatting] options", f.where)


def r124(ctx, fx):
    rid = ctx.rule("R12.4", "Trivia::CStyle and Trivia::CppStyle are emitted as comment chunks, Trivia::NewLine as a line break (only Whitespace is dropped); in the "
                   "line assembler a line is suppressed only when it is blank")
    f = fx.fn("<&alloc::vec::Vec<mos_core::parser::ast::Trivia> as mos_core::formatting::Formattable>::format")
    if f is None:
        ctx.fail_closed(rid, "Formattable for &Vec<Trivia> not found")
    else:
        seen = {}
        for m in lib.hwalk(f.hir["body"]):
            if m.get("k") == "match":
                for a in m["arms"]:
                    for v in lib.pat_variants(a["pat"]):
                        if isinstance(v, str) and "Trivia::" in v:
                            vn = v.split("Trivia::")[1].split("(")[0]
                            pushes = [(x.get("name"), [lib.hdesc(y) for y in x["args"]]) for x in lib.hwalk(a["body"]) if x.get("k") == "mcall" and x.get("name") in ("push", "push_type")]
                            seen[vn] = pushes
        for vn in ("CStyle", "CppStyle"):
            k = "Trivia::%s" % vn
            ctx.inst(rid, k)
            ps = seen.get(vn) or []
            if not any(nm == "push_type" and "ChunkType::Comment" in repr(args) for nm, args in ps):
                ctx.finding(rid, k, "%s comments are not emitted as comment chunks: the formatter loses them" % vn, f.where)
        k = "Trivia::NewLine"
        ctx.inst(rid, k)
        if not any(nm == "push" and ("c", "\n") in args for nm, args in (seen.get("NewLine") or [])):
            ctx.finding(rid, k, "newlines in trivia are not kept as line breaks (a `//` comment would swallow the following statement)", f.where)
    jc = fx.fn("mos_core::formatting::join_chunks")
    k = "join_chunks|suppress-only-blank"
    ctx.inst(rid, k)
    if jc is None:
        ctx.fail_closed(rid, "join_chunks not found")
        return
    # every assignment to `should_add` other than `true` sits in the then-branch of `line.trim().is_empty()`
    bad = []

    def rec(n, conds):
        if isinstance(n, list):
            for x in n:
                rec(x, conds)
            return
        if not isinstance(n, dict):
            return
        if n.get("k") == "assign" and lib.hpath(n["l"]) == "should_add" and lib.hlit(n["r"]) is not True:
            if not any(side == "then" and "is_empty" in repr(lib.hdesc(c)) and "trim" in repr(lib.hdesc(c)) for side, c in conds):
                bad.append(n.get("ln"))
        if n.get("k") == "if":
            rec(n["cond"], conds)
            rec(n["then"], conds + [("then", n["cond"])])
            if "else" in n:
                rec(n["else"], conds + [("else", n["cond"])])
            return
        for v in n.values():
            if isinstance(v, (dict, list)):
                rec(v, conds)
    rec(jc.hir["body"], [])
    if bad:
        ctx.finding(rid, k, "join_chunks can suppress a non-blank line (line %s): comments or code on it would be lost" % bad, jc.where)


CONTENT_PREDICATES = ("ends_with", "starts_with", "contains", "find", "rfind", "matches", "trim", "trim_end", "trim_start", "trim_end_matches", "trim_start_matches",
                      "strip_suffix", "strip_prefix", "chars", "bytes", "as_bytes", "split", "rsplit", "lines", "last", "char_indices", "eq_ignore_ascii_case")


def r125(ctx, fx):
    rid = ctx.rule("R12.5", "join_chunks: a decision that drops a chunk (`ignore = true`, e.g. the line break after a label) depends on lengths and flags only, never "
                   "on the text accumulated in the current line — that text can be a comment, whose content is arbitrary: a `//` comment that looks like a label "
                   "would swallow the following line")
    jc = fx.fn("mos_core::formatting::join_chunks")
    if jc is None:
        ctx.fail_closed(rid, "formatting::join_chunks not found")
        return
    n = 0
    for i in lib.hwalk(jc.hir["body"]):
        if i.get("k") != "if":
            continue
        drops = [x for x in lib.hwalk(i["then"]) if x.get("k") == "assign" and lib.hpath(x["l"]) == "ignore" and lib.hlit(x["r"]) is True]
        if not drops:
            continue
        # only the innermost `if` that guards the assignment
        if any(j is not i and j.get("k") == "if" and any(x is drops[0] for x in lib.hwalk(j["then"])) for j in lib.hwalk(i["then"])):
            continue
        n += 1
        key = "join_chunks|drop#%d" % n
        preds = [x for x in lib.hwalk(i["cond"]) if x.get("k") == "mcall" and x.get("name") in CONTENT_PREDICATES and
                 any(y.get("k") == "path" and lib.hpath(y) == "line" for y in lib.hwalk(x["recv"]))]
        ctx.inst(rid, key, sample={"line": i.get("ln"), "condition": repr(lib.hdesc(i["cond"]))[:120]})
        if preds:
            ctx.finding(rid, key, "join_chunks drops a chunk when `line.%s(..)` holds: `line` may hold a comment, so a comment with that content makes the formatter "
                        "join the next line into it (code becomes part of a `//` comment: different tokens, different bytes)" % preds[0]["name"],
                        "%s:%s" % (jc.file, preds[0].get("ln")))
    if n < 1:
        ctx.fail_closed(rid, "no chunk-dropping decision (`ignore = true`) found in join_chunks")


def r126(ctx, fx):
    rid = ctx.rule("R12.6", "statements that share a source line are kept apart: format_tokens pushes a line break in front of a statement whose leading trivia "
                   "contains no line break (unless it follows a label) — blanks between statements are not kept, so without it `lda foo nop` is written `lda foonop`")
    ft = [f for f in fx.all_fns("mos_core") if f.path.endswith("CodeFormatter::format_tokens") or f.path.endswith("::format_tokens")]
    ft = [f for f in ft if f.d.get("hir")]
    if len(ft) != 1:
        ctx.fail_closed(rid, "format_tokens not found uniquely (%d)" % len(ft))
        return
    f = ft[0]
    key = "format_tokens|same-line-statements"
    ctx.inst(rid, key)
    # a local computed from `token.trivia()` and Trivia::NewLine that takes part in the condition of the `push("\n")`
    newline_locals = set()
    for n in lib.hwalk(f.hir["body"]):
        if n.get("k") == "let" and n["pat"].get("k") == "bind" and "init" in n:
            init = n["init"]
            if any(True for _ in lib.hir_calls(init, "Token::trivia")) and "NewLine" in repr([lib.pat_key(a["pat"]) for m in lib.hwalk(init) if m.get("k") == "match" for a in m["arms"]] +
                                                                                          [lib.hpath(p_) for p_ in lib.hwalk(init) if p_.get("k") == "path"]):
                newline_locals.add(n["pat"]["name"])
    ok = False
    for n in lib.hwalk(f.hir["body"]):
        if n.get("k") == "if" and any(x.get("k") == "mcall" and x.get("name") == "push" and lib.hlit(x["args"][0]) == "\n" for x in lib.hwalk(n["then"])):
            used = {lib.hpath(x) for x in lib.hwalk(n["cond"]) if x.get("k") == "path" and (x.get("res") or {}).get("dk") == "Local"}
            if used & newline_locals:
                ok = True
    if not ok:
        ctx.finding(rid, key, "format_tokens separates two statements only when their kinds ask for a line break: two statements on one source line are written without "
                    "anything in between (`lda foo nop` → `lda foonop`, which no longer assembles)", f.where)


def r127(ctx, fx):
    rid = ctx.rule("R12.7", "a binary operator is written with a blank on either side, unconditionally: between `fmt(lhs)`, `fmt(op)` and `fmt(rhs)` the formatter pushes "
                   "a non-empty literal. Without it the operator fuses with what follows: `a / *` becomes `a/*` (an unterminated comment), `8 / /* c */ 2` becomes "
                   "`8//* c */ 2` (a line comment that swallows the operand)")
    fe = [f for f in fx.all_fns("mos_core") if f.path.endswith("::format_expression") and f.d.get("hir") and "formatting" in f.path]
    if len(fe) != 1:
        ctx.fail_closed(rid, "formatting::…::format_expression not found uniquely (%d)" % len(fe))
        return
    f = fe[0]
    arm = None
    for n in lib.hwalk(f.hir["body"]):
        if n.get("k") == "match":
            for a in n["arms"]:
                pk = lib.pat_key(a["pat"])
                if isinstance(pk, str) and pk.split("(")[0].endswith("Expression::BinaryExpression"):
                    arm = a
            if arm:
                break
    key = "format_expression|binary|separators"
    ctx.inst(rid, key)
    if arm is None:
        ctx.fail_closed(rid, "BinaryExpression arm of format_expression not found")
        return
    # the calls of the arm in source order: fmt(lhs) push fmt(op) push fmt(rhs)
    seq = []
    for x in lib.hwalk(arm["body"]):
        if x.get("k") == "mcall" and x.get("name") in ("fmt", "push", "spc_if_next", "spc"):
            what = None
            if x["name"] == "push":
                lit = lib.hlit(x["args"][0]) if x.get("args") else None
                what = ("push", lit)
            elif x["name"] == "fmt":
                d = repr(lib.hdesc(x["args"][0])) if x.get("args") else ""
                what = ("fmt", "lhs" if "'lhs'" in d else "rhs" if "'rhs'" in d else "op" if "'op'" in d else "?")
            else:
                what = (x["name"], None)
            seq.append(((x.get("ln") or 0, x.get("col") or 0), what))
    order = [w for _, w in sorted(seq, key=lambda t: t[0])]
    # method chains are nested receiver-first, so line/col order is the call order; tolerate equal positions by trying the reverse
    def ok(o):
        names = [w for w in o if w[0] in ("fmt", "push")]
        if [w for w in names if w[0] == "fmt"] != [("fmt", "lhs"), ("fmt", "op"), ("fmt", "rhs")]:
            return None
        i_l, i_o, i_r = names.index(("fmt", "lhs")), names.index(("fmt", "op")), names.index(("fmt", "rhs"))
        between1 = names[i_l + 1:i_o]
        between2 = names[i_o + 1:i_r]
        good = lambda b: any(w[0] == "push" and isinstance(w[1], str) and w[1] != "" and w[1].strip() == "" for w in b) and \
            all(w[0] != "push" or isinstance(w[1], str) for w in b)
        return good(between1) and good(between2)
    res = ok(order)
    if res is None:
        res = ok(list(reversed(order)))
    if res is None:
        ctx.fail_closed(rid, "the BinaryExpression arm does not format lhs, operator and rhs in that order: %s" % order)
    elif not res:
        ctx.finding(rid, key, "a binary operator is not always written with a blank on both sides (a separator that is not a non-empty literal): `/` then fuses with a "
                    "following `*` or `/*…*/` into a comment opener and the formatted program no longer means the same", "%s:%s" % (f.file, arm.get("ln")))


def r128(ctx, fx):
    rid = ctx.rule("R12.8", "trivia is written out as it was recorded: nowhere in the formatter is a list of trivia items copied selectively by kind (filter / retain / "
                   "filter_map / skip_while / take_while / partition with a closure that tells `Trivia::` variants apart) — a `//` comment ends at the line break "
                   "recorded after it, and a copy without the line breaks puts whatever is written next inside the comment")
    SEL = ("filter", "retain", "filter_map", "skip_while", "take_while", "partition", "drain_filter", "retain_mut")
    n = 0
    seen = {}
    for f in sorted(fx.all_fns("mos_core"), key=lambda f: f.path):
        if "::tests::" in f.path or not f.path.lstrip("<").startswith("mos_core::formatting") or not f.d.get("hir") or f.kind == "closure":
            continue
        n += 1
        hits = []
        for x in lib.hwalk(f.hir["body"]):
            if x.get("k") == "mcall" and x.get("name") in SEL:
                for a in x.get("args", []):
                    c = lib.strip(a)
                    if c.get("k") != "closure":
                        continue
                    variants = set()
                    for m in lib.hwalk(c):
                        if m.get("k") == "match":
                            for arm in m["arms"]:
                                for v in lib.pat_variants(arm["pat"]):
                                    if isinstance(v, str) and "::Trivia::" in v:
                                        variants.add(v.split("(")[0].rsplit("::", 1)[-1])
                        if m.get("k") == "letx":
                            for v in lib.pat_variants(m["pat"]):
                                if isinstance(v, str) and "::Trivia::" in v:
                                    variants.add(v.split("(")[0].rsplit("::", 1)[-1])
                    if variants:
                        hits.append((x["name"], sorted(variants), x.get("ln")))
        if not hits:
            ctx.inst(rid, f.path, nontrivial=False)
        for name, variants, ln in hits:
            seen[f.path] = seen.get(f.path, 0) + 1
            k = "%s|selective-trivia#%d" % (f.path, seen[f.path])
            ctx.inst(rid, k, sample={"fn": f.path, "selector": name, "tells_apart": variants, "line": ln})
            ctx.finding(rid, k, "%s copies a trivia list selectively (`%s` on %s): a line comment whose line break is dropped swallows what follows it, a dropped "
                        "comment is lost" % (f.path.rsplit("::", 1)[-1], name, "/".join(variants)), "%s:%s" % (f.file, ln))
    ctx.floor(rid, 20, "formatter bodies scanned")


def r122b(ctx, fx):
    rid = ctx.rule("R12.2b", "outside the three token / expression formatters too, a local of type Located<T> (the element of an argument list, a loop variable) is not "
                   "emitted through `.data` alone: it is handed to the Located formatter whole or its `.trivia` is read — else the comments in front of it are "
                   "deleted (Located<Vec<Trivia>>, the trivia list itself, is exempt)")
    from .c11 import _anc_walk
    HANDLED = ("::format_token", "::format_expression", "::format_expression_factor")
    n = 0
    for f in sorted(fx.all_fns("mos_core"), key=lambda f: f.path):
        if "::tests::" in f.path or "mos_core::formatting" not in f.path or not f.d.get("hir") or f.kind == "closure" or f.path.endswith(HANDLED):
            continue
        n += 1
        uses = {}
        for x, anc in _anc_walk(f.hir["body"]):
            if not (x.get("k") == "path" and (x.get("res") or {}).get("dk") == "Local"):
                continue
            ty = str(x.get("ty", ""))
            if "parser::ast::Located<" not in ty or "Located<alloc::vec::Vec<mos_core::parser::ast::Trivia>>" in ty:
                continue
            i = len(anc) - 1
            while i >= 0 and anc[i][0].get("k") in ("addrof", "unary"):
                i -= 1
            par = anc[i][0] if i >= 0 else {}
            kind = "whole"
            if par.get("k") == "field":
                kind = "." + str(par.get("name"))
            elif par.get("k") == "mcall" and anc[i][1] == "recv":
                kind = "method " + str(par.get("name"))
            uses.setdefault(x["res"]["name"], set()).add(kind)
        if not uses:
            ctx.inst(rid, f.path, nontrivial=False)
        for name, kinds in sorted(uses.items()):
            k = "%s|%s" % (f.path, name)
            data_only = kinds <= {".data", ".span"}
            ctx.inst(rid, k, sample={"fn": f.path, "local": name, "used_as": sorted(kinds)} if data_only or len(uses) < 4 else None)
            if data_only:
                ctx.finding(rid, k, "%s emits the Located value `%s` through `.data` only: the comments recorded in front of it never reach the output" % (
                    f.path.rsplit(" as ", 1)[0][-60:] if " as " in f.path else f.path.rsplit("::", 1)[-1], name), f.where)
    ctx.floor(rid, 15, "formatter bodies scanned")


def r129(ctx, fx):
    rid = ctx.rule("R12.9", "join_chunks never loses what it has put on the line: where the accumulated `line` is replaced by a part of itself (a slice, one half of a "
                   "split) — to move a comment-only line to the code column — the replacement is control-dependent on the *other* part being blank "
                   "(`….trim().is_empty()`); a flag that says nothing was put into one column does not cover what another column holds (a label in front of "
                   "the comment)")
    from .c11 import _anc_walk
    jc = fx.fn("mos_core::formatting::join_chunks")
    if jc is None or not jc.d.get("hir"):
        ctx.fail_closed(rid, "formatting::join_chunks not found")
        return
    body = jc.hir["body"]
    # locals that are parts of `line`
    parts = set()
    for n in lib.hwalk(body):
        if n.get("k") in ("let", "letx") and "init" in n:
            d = repr(lib.hdesc(n["init"]))
            init_mentions_line = any(y.get("k") == "path" and lib.hpath(y) == "line" for y in lib.hwalk(n["init"]))
            if init_mentions_line and any(w in d for w in ("split_at", "split_off", "'index'", "get(", "split_once", "rsplit")):
                parts |= {q["name"] for q in lib.hwalk(n["pat"]) if q.get("k") == "bind"}
    # locals that hold the answer of a blankness test
    blank = set()
    for n in lib.hwalk(body):
        if n.get("k") == "let" and "init" in n:
            d = repr(lib.hdesc(n["init"]))
            if "trim" in d and "is_empty" in d:
                blank |= {q["name"] for q in lib.hwalk(n["pat"]) if q.get("k") == "bind"}
    n_sites = 0
    for x, anc in _anc_walk(body):
        if not (x.get("k") == "assign" and lib.hpath(x["l"]) == "line"):
            continue
        r = x["r"]
        from_part = any(y.get("k") == "path" and lib.hpath(y) in parts for y in lib.hwalk(r)) or \
            any(y.get("k") == "index" and any(z.get("k") == "path" and lib.hpath(z) == "line" for z in lib.hwalk(y.get("a", {}))) for y in lib.hwalk(r))
        if not from_part:
            continue
        n_sites += 1
        guarded = False
        for p_, k_ in anc:
            if p_.get("k") == "if" and k_ == "then":
                d = repr(lib.hdesc(p_["cond"]))
                if "trim" in d and "is_empty" in d:
                    guarded = True
                if any(y.get("k") == "path" and lib.hpath(y) in blank for y in lib.hwalk(p_["cond"])):
                    guarded = True
        key = "join_chunks|line-from-part#%d" % n_sites
        ctx.inst(rid, key, sample={"line": x.get("ln"), "parts_of_line": sorted(parts), "guarded_by_blankness_of_the_rest": guarded})
        if not guarded:
            ctx.finding(rid, key, "join_chunks replaces the line by a part of itself without having tested that the rest is blank: a label that shares the line with "
                        "nothing but a comment is deleted by the formatter, and what referred to it binds elsewhere or nowhere", "%s:%s" % (jc.file, x.get("ln")))
    ctx.inst(rid, "join_chunks|scan", sample={"replacements_of_line_by_a_part": n_sites})


def r1211(ctx, fx):
    rid = ctx.rule("R12.11", "a line break is only swallowed because of what is on the line: in join_chunks every assignment `ignore = true` is control-dependent on conditions over the "
                   "chunk's text, the line built so far (its length, its emptiness) and the options — not on a flag that one chunk sets and another is supposed to clear. "
                   "A flag that the comment branch forgets to clear swallows the line break behind a `//` comment, and the next statement becomes part of the comment")
    from .c11 import _anc_walk
    jc = fx.fn("mos_core::formatting::join_chunks")
    if jc is None or not jc.d.get("hir"):
        ctx.fail_closed(rid, "formatting::join_chunks not found")
        return
    body = jc.hir["body"]
    OKNAMES = {"str", "line", "options", "idx", "chunk", "chunks", "num_chunks"}
    n = 0
    for x, anc in _anc_walk(body):
        if not (x.get("k") == "assign" and lib.hpath(x["l"]) == "ignore" and lib.hlit(lib.strip(x["r"])) is True):
            continue
        n += 1
        names = set()
        for p_, key in anc:
            if p_.get("k") == "if" and key == "then":
                names |= {lib.hpath(y) for y in lib.hwalk(p_["cond"]) if y.get("k") == "path" and (y.get("res") or {}).get("dk", "Local") in ("Local", None)}
        names = {nm for nm in names if nm and "::" not in nm}
        extra = sorted(names - OKNAMES)
        key = "join_chunks|line-break-dropped#%d" % n
        ctx.inst(rid, key, sample={"line": x.get("ln"), "depends_on": sorted(names)})
        if extra:
            ctx.finding(rid, key, "join_chunks drops a line break depending on `%s`, which is carried from chunk to chunk: where a branch does not bring it up to date (a `//` "
                        "comment behind a label that is wider than its column), the line break behind the comment is swallowed and the next statement is commented out" %
                        "`, `".join(extra), "%s:%s" % (jc.file, x.get("ln")))
    if n < 1:
        ctx.fail_closed(rid, "join_chunks no longer has an `ignore = true`")


def r1210(ctx, fx):
    rid = ctx.rule("R12.10", "`mos format` rewrites each file with exactly the formatted text: a file opened for writing through OpenOptions is truncated (`truncate(true)`), "
                   "created anew or appended to on purpose — opened with `write(true)` alone, a text that is shorter than the old one leaves the old one's tail behind it")
    n = 0
    for f in sorted(list(fx.all_fns("mos")) + list(fx.all_fns("mos_core")), key=lambda f: f.path):
        if f.kind == "closure" or not f.d.get("hir") or "::tests::" in f.path:
            continue
        lets = {}
        for y in lib.hwalk(f.hir["body"]):
            if y.get("k") == "let" and "init" in y and y["pat"].get("k") == "bind":
                lets.setdefault(y["pat"]["name"], []).append(y["init"])
        for x in lib.hwalk(f.hir["body"]):
            if not (x.get("k") == "mcall" and x.get("name") == "open" and "OpenOptions" in str(x.get("path", ""))):
                continue
            chain, todo, seen = [], [x["recv"]], set()
            while todo and len(chain) < 10:
                e = todo.pop()
                chain.append(e)
                for y in lib.hwalk(e):
                    nm = lib.hpath(y) if y.get("k") == "path" else None
                    if nm in lets and nm not in seen:
                        seen.add(nm)
                        todo.extend(lets[nm])
            flags = {}
            for c in chain:
                for y in lib.hwalk(c):
                    if y.get("k") == "mcall" and y.get("name") in ("write", "truncate", "append", "create_new", "create", "read") and y.get("args"):
                        flags[y["name"]] = lib.hlit(lib.strip(y["args"][0]))
            n += 1
            key = "%s|open#%d" % (f.path, n)
            ctx.inst(rid, key, sample={"fn": f.path, "line": x.get("ln"), "flags": {k: v for k, v in flags.items()}})
            if flags.get("write") is True and not (flags.get("truncate") is True or flags.get("append") is True or flags.get("create_new") is True):
                ctx.finding(rid, key, "%s opens a file for writing without truncating it: what is written replaces the beginning of the old content, and when it is "
                            "shorter the rest of the old content stays — a formatted source followed by the tail of the unformatted one" % f.path.rsplit("::", 1)[-1],
                            "%s:%s" % (f.file, x.get("ln")))
    if n < 1:
        ctx.fail_closed(rid, "no file opened through OpenOptions found (format_command used to)")


def run(ctx):
    fx = ctx.facts
    r1210(ctx, fx)
    r1211(ctx, fx)
    r125(ctx, fx)
    r126(ctx, fx)
    r127(ctx, fx)
    r128(ctx, fx)
    r129(ctx, fx)
    r121_122(ctx, fx)
    r122b(ctx, fx)
    r123(ctx, fx)
    r124(ctx, fx)
    ctx.not_decided("token-sequence equality and byte equality of the assembled program after formatting; order of comments; formatter options other than their "
                    "use sites; idempotence (C13)")
