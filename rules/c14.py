"""C14 — the language server depends only on the current buffers and survives any request (structural clauses).

 R14.1 analysis state is a function of the buffers: perform_codegen resets tree/codegen/error before anything else; every notification
       handler that changes the buffer set re-runs perform_codegen and republishes diagnostics
 R14.2 client positions never reach a panicking index (str slicing, File::source_line/line_span, slice index)   [taint CLIENTPOS]
 R14.3 no unwrap/expect on Url::to_file_path of a client-supplied URI
 R14.4 no hash-iteration order in answers (R10.1 applied to mos::lsp and the analysis database)
 R14.5 advertised capabilities ↔ registered handlers
"""
import json
import os

from . import lib, taint
from .c10 import classify

HERE = os.path.dirname(os.path.abspath(__file__))
LC = "mos::lsp::LspContext"

POS_CARRIER = taint.make_carrier(taint._INTS | {"lsp_types::Position", "mos_core::parser::code_map::LineCol"},
                                 extra_wrappers=("lsp_types::Range",))

# R14.4 classification (hash-ordered consumers inside the language server / analysis database), each confirmed by reading
LSP_HASH_TABLE = {
    ("mos_core::codegen::analysis::Definition::usages", "collect_vec"): (1, "finding-candidate", None),
}


def _places(x):
    out = []

    def rec(n):
        if isinstance(n, dict):
            if "l" in n and "p" in n and isinstance(n.get("l"), int):
                out.append(n)
                return
            for v in n.values():
                rec(v)
        elif isinstance(n, list):
            for v in n:
                rec(v)
    rec(x)
    return out


def r141(ctx, fx, cg):
    rid = ctx.rule("R14.1", "perform_codegen assigns tree, codegen and error (reset) in blocks that dominate every return — no early return can leave results of an "
                   "older buffer state behind; every NotificationHandler::handle that (transitively) calls LspParsingSource::insert/remove also reaches "
                   "LspContext::perform_codegen and documents::publish_diagnostics")
    pc = fx.fn(LC + "::perform_codegen")
    if pc is None:
        ctx.fail_closed(rid, "LspContext::perform_codegen not found")
        return
    rets = lib.return_blocks(pc)

    def assigns_always(g, fld, depth=0):
        """blocks of g that assign self.<fld>, directly or by calling a method of the context that does so on every path"""
        bl = [bi for bi, si, s_ in lib.stmts(g) if s_["k"] == "assign" and lib.place_fields(s_["dst"])[:1] == [fld]]
        bl += [bi for bi, t in lib.calls(g) if lib.place_fields(t["dst"])[:1] == [fld]]
        if depth < 3:
            for bi, t in lib.calls(g):
                p, fr = lib.callee(t)
                h = fx.fns.get(fr.get("rid") or fr.get("id")) if p else None
                if h is not None and h is not g and h.d.get("impl_self") == LC and h.blocks:
                    hb = assigns_always(h, fld, depth + 1)
                    if hb and all(lib.must_pass(h, hb, r) for r in lib.return_blocks(h)):
                        bl.append(bi)
        return bl
    for fld in ("tree", "codegen", "error"):
        k = "%s|reset|%s" % (pc.path, fld)
        blocks = assigns_always(pc, fld)
        # drop-and-replace of a field shows up as an assignment after a drop: take the earliest
        ctx.inst(rid, k, sample={"field": fld, "assign_blocks": sorted(set(blocks))[:4]})
        if not blocks:
            ctx.finding(rid, k, "perform_codegen never assigns `%s`" % fld, pc.where)
            continue
        # every path from entry to any return and to the first branch that can return early passes an assignment
        if not all(lib.must_pass(pc, blocks, r) for r in rets):
            ctx.finding(rid, k, "perform_codegen can return without having reset `%s`: answers would come from an older buffer state" % fld, pc.where)
        # and the reset happens before the early exit: the first assignment dominates the block that tests for the entry file
        first = min(blocks)
        ex = [bi for bi, t in lib.calls(pc) if lib.pm(lib.callee(t)[0], "ParsingSource::exists")]
        if ex and not lib.dominates(pc, first, ex[0]) and first != ex[0]:
            ctx.finding(rid, k + "|early", "`%s` is reset only after the `entry file exists` early return" % fld, pc.where)
    # notification handlers
    n = 0
    pub = fx.fn("mos::lsp::documents::publish_diagnostics")
    if pub is None:
        ctx.fail_closed(rid, "documents::publish_diagnostics not found")
        return
    for f in sorted(fx.all_fns("mos"), key=lambda f: f.path):
        if not (f.d.get("impl_trait") == "mos::lsp::traits::NotificationHandler" and f.path.endswith("::handle")):
            continue
        reach = cg.reach([f.id])
        mut = [fx.fns[i].path for i in reach if lib.pm(fx.fns[i].path, "LspParsingSource::insert") or lib.pm(fx.fns[i].path, "LspParsingSource::remove")]
        n += 1
        k = "%s|recompute" % f.path
        has_pc = pc.id in reach
        has_pub = pub.id in reach
        ctx.inst(rid, k, sample={"handler": f.d.get("impl_self"), "mutates_buffers": bool(mut), "perform_codegen": has_pc, "publish_diagnostics": has_pub})
        if mut and not (has_pc and has_pub):
            ctx.finding(rid, k, "%s changes the set of buffers (%s) but does not %s: diagnostics and answers keep reflecting the old buffer contents" % (
                (f.d.get("impl_self") or f.path).rsplit("::", 1)[-1], mut[0].rsplit("::", 1)[-1],
                " / ".join(x for x, h in (("re-run perform_codegen", has_pc), ("republish diagnostics", has_pub)) if not h)), f.where)
        elif mut:
            # not only "reaches" but "on every path": no return of the handler (or of a helper it delegates to) skips the store, the analysis or the publication
            for what, pred in (("store the client's text (LspParsingSource::insert/remove)", lambda p: lib.pm(p, "LspParsingSource::insert") or lib.pm(p, "LspParsingSource::remove")),
                               ("re-run perform_codegen", lambda p: lib.pm(p, "LspContext::perform_codegen")),
                               ("republish diagnostics", lambda p: lib.pm(p, "documents::publish_diagnostics"))):
                # a document that is not a file cannot be part of a project: the `None` of document_path(uri) carries no obligation
                mc = lib.MustCall(fx, pred, absent=("mos::lsp::document_path",))
                k2 = "%s|every-path|%s" % (f.path, what.split(" (")[0].replace(" ", "-"))
                # the obligation starts where the handler reads a text the client sent (a didChange without content changes carries none); a handler
                # that receives no text (didClose) is obliged from its entry
                starts = sorted({bi for bi, b in enumerate(f.blocks) if not b["cleanup"] and any(
                    isinstance(e, dict) and e.get("n") == "text" and str(e.get("of", "")).startswith("lsp_types::")
                    for st in b["stmts"] + [b["term"]] for pl in _places(st) for e in (pl.get("p") or []))}) or [0]
                esc = mc.escaping(f, starts=starts)
                ctx.inst(rid, k2, sample={"handler": f.d.get("impl_self"), "obligation": what, "returns_examined": len(lib.return_blocks(f)),
                                          "obliged_from": "entry" if starts == [0] else "the blocks that read the client's text"})
                if esc:
                    ctx.finding(rid, k2, "%s can return without having done this: %s — on that path the server keeps answering from an older buffer state "
                                "(a fresh server given the final buffers would answer differently)" % ((f.d.get("impl_self") or f.path).rsplit("::", 1)[-1], what), f.where)
    if n < 3:
        ctx.fail_closed(rid, "fewer than 3 notification handlers found (%d)" % n)


def r146(ctx, fx):
    rid = ctx.rule("R14.6", "request handlers only read the analysis results: no RequestHandler::handle (or a closure in it) calls a `&mut self` method of the shared "
                   "CodegenContext that changes them (symbols_mut, remove_test_elements, register_fn, finalize); evaluation helpers are allowed only with "
                   "track_usage = false")
    ALLOWED_MUT = ("evaluate_expression", "evaluate_expression_as_i64", "evaluate_expression_as_string")
    n = 0
    for f in sorted(fx.all_fns("mos"), key=lambda f: f.path):
        owner = f
        while owner.kind == "closure" and owner.d.get("parent") in fx.fns:
            owner = fx.fns[owner.d["parent"]]
        if not (owner.d.get("impl_trait") == "mos::lsp::traits::RequestHandler" and owner.path.endswith("::handle")) and \
                not owner.path.startswith("mos::lsp::symbols::DocSymEmitter"):
            continue
        cnt = 0
        for bi, t in lib.calls(f):
            p, fr = lib.callee(t)
            rid_ = fr.get("rid") or fr.get("id")
            g = fx.fns.get(rid_)
            if g is None or g.argc < 1 or g.locals[1]["ty"] != "&mut mos_core::codegen::CodegenContext":
                continue
            n += 1
            name = g.path.rsplit("::", 1)[1]
            cnt += 1
            key = "%s|&mut CodegenContext::%s#%d" % (owner.path, name, cnt)
            track = lib.const_int(t["args"][2]) if name in ALLOWED_MUT and len(t["args"]) > 2 else None
            ok = name in ALLOWED_MUT and (lib.op_const(t["args"][2]) or {}).get("disp") in ("false", "const false") or (name in ALLOWED_MUT and track == 0)
            ctx.inst(rid, key, sample={"handler": owner.d.get("impl_self") or owner.path, "method": name, "line": t.get("line"), "allowed": bool(ok)})
            if not ok:
                ctx.finding(rid, key, "%s changes the shared analysis results through CodegenContext::%s while answering a request: later answers no longer describe "
                            "the current buffers" % ((owner.d.get("impl_self") or owner.path).rsplit("::", 1)[-1], name), "%s:%s" % (f.file, t.get("line")))
    handlers = [f for f in fx.all_fns("mos") if f.d.get("impl_trait") == "mos::lsp::traits::RequestHandler" and f.path.endswith("::handle")]
    ctx.inst(rid, "request-handlers", sample={"handlers": len(handlers), "mut_calls": n})
    if len(handlers) < 12:
        ctx.fail_closed(rid, "fewer than 12 request handlers found (%d)" % len(handlers))


def line_number_guarded(f, sink_block, t):
    """the line argument of File::source_line/line_span is, on every path to the call, known to be < File::num_lines(): the call is dominated by the
    in-range successor of a switch on `line >= n` / `line < n` where n is the result of File::num_lines and `line` the same value as the argument"""
    if len(t["args"]) < 2:
        return False
    du = lib.DefUse(f)

    def root(op):
        l = lib.op_local(op)
        seen = set()
        while l is not None and l not in seen:
            seen.add(l)
            d = du.single_def(l)
            if d is None or d[2] != "assign" or d[3]["rv"]["k"] != "use" or lib.op_local(d[3]["rv"]["op"]) is None:
                return l
            l = lib.op_local(d[3]["rv"]["op"])
        return l
    arg = root(t["args"][1])
    nlines = {tt["dst"]["l"] for _, tt in lib.calls(f) if lib.pm(lib.callee(tt)[0], "File::num_lines")}
    if arg is None or not nlines:
        return False
    for bi, si, st in lib.stmts(f):
        if st["k"] != "assign" or st["rv"].get("k") != "binop" or st["rv"]["op"] not in ("Ge", "Lt", "Gt", "Le"):
            continue
        a, b = root(st["rv"]["l"]), root(st["rv"]["r"])
        op = st["rv"]["op"]
        if a in nlines and b == arg:          # n <op> line  →  line <flipped op> n
            a, b = b, a
            op = {"Ge": "Le", "Le": "Ge", "Gt": "Lt", "Lt": "Gt"}[op]
        if not (a == arg and b in nlines) or op not in ("Ge", "Lt"):
            continue
        term = f.blocks[bi]["term"]
        if term["k"] != "switch" or lib.op_local(term["discr"]) != st["dst"]["l"]:
            continue
        vals = dict((v, tb) for v, tb in term.get("targets", []))
        false_succ = vals.get(0)
        true_succ = term.get("otherwise") if 0 in vals else vals.get(1)
        in_range = false_succ if op == "Ge" else true_succ
        if in_range is not None and (in_range == sink_block or lib.dominates(f, in_range, sink_block)):
            return True
    return False


def r142(ctx, fx):
    rid = ctx.rule("R14.2", "label CLIENTPOS (reads of lsp_types::Position.line/.character) must not reach str slicing (split_at, str range index), "
                   "File::source_line / line_span (assert on the line number) or a slice index; a comparison with len() does not discharge a str sink "
                   "(char boundaries)")
    T = taint.Taint(fx, "CLIENTPOS", source_fields=[("lsp_types::Position", "line"), ("lsp_types::Position", "character")], carrier=POS_CARRIER,
                    local_only=("mos_core::parser::code_map::LineCol", "mos_core::parser::code_map::SpanLoc", "mos_core::parser::code_map::Span",
                                "mos_core::parser::code_map::Pos"))
    seen = {}
    n_sinks = 0
    for f in sorted(fx.all_fns("mos"), key=lambda f: f.path):
        if "::tests::" in f.path or "::testing" in f.path:
            continue
        for bi, t in lib.calls(f):
            p, fr = lib.callee(t)
            pn = lib.norm(p or "")
            full = fr.get("full", "")
            kind = None
            if pn.endswith("str::split_at"):
                kind = "str::split_at"
            elif "Index" in pn and pn.endswith("index") and "Range" in full and ("<str as" in full or "String as" in full or " for str>" in full):
                kind = "str[range]"
            elif lib.pm(pn, "File::source_line") or lib.pm(pn, "File::line_span"):
                kind = pn.rsplit("::", 2)[-2] + "::" + pn.rsplit("::", 1)[-1]
            elif pn.endswith("Index::index") and "[" in full:
                kind = "slice index"
            if kind is None:
                continue
            n_sinks += 1
            if kind in ("File::source_line", "File::line_span") and line_number_guarded(f, bi, t):
                # `if line >= file.num_lines() { return … }` in front of the call: the assertion inside cannot fail
                ctx.inst(rid, "%s|%s|guarded" % (f.path, kind), sample={"fn": f.path, "sink": kind, "guard": "compared with File::num_lines()"})
                continue
            if not any(T.op_tainted(f.id, a) for a in t["args"][1:]):
                ctx.inst(rid, "%s|%s@%s" % (f.path, kind, t.get("line")), nontrivial=False)
                continue
            owner = f
            while owner.kind == "closure" and owner.d.get("parent") in fx.fns:
                owner = fx.fns[owner.d["parent"]]
            kk = (owner.path, kind)
            seen[kk] = seen.get(kk, 0) + 1
            key = "%s|%s#%d" % (owner.path, kind, seen[kk])
            ctx.inst(rid, key, sample={"handler": owner.d.get("impl_self") or owner.path, "sink": kind, "line": t.get("line")})
            what = {"str::split_at": "splits a source line at the client's column", "str[range]": "slices a source line at the client's column",
                    "File::source_line": "asks for the client's line number (asserts `line < number of lines`)",
                    "File::line_span": "asks for the client's line number (asserts `line < number of lines`)"}.get(kind, "indexes with the client's position")
            ctx.finding(rid, key, "%s %s: a position beyond the end of the line/file or inside a multi-byte character panics and ends the server" % (
                (owner.d.get("impl_self") or owner.path).rsplit("::", 1)[-1], what), "%s:%s" % (f.file, t.get("line")))
    ctx.extra["clientpos_sinks_scanned"] = n_sinks
    if n_sinks < 6:
        ctx.fail_closed(rid, "fewer than 6 candidate sinks in crate mos (%d)" % n_sinks)


def r143(ctx, fx):
    rid = ctx.rule("R14.3", "no unwrap()/expect() on the result of Url::to_file_path in the language server: a client URI that is not a `file:` URI "
                   "(e.g. `untitled:Untitled-1`) would end the server")
    seen = {}
    total = 0
    for f in sorted(fx.all_fns("mos"), key=lambda f: f.path):
        if not f.d.get("hir") or "::tests::" in f.path or "::testing" in f.path:
            continue
        for x in lib.hwalk(f.hir["body"]):
            if x.get("k") == "mcall" and x.get("name") in ("unwrap", "expect"):
                r = lib.strip(x["recv"])
                if r.get("k") == "mcall" and lib.pm(r.get("path"), "Url::to_file_path"):
                    total += 1
                    seen[f.path] = seen.get(f.path, 0) + 1
                    key = "%s|to_file_path#%d" % (f.path, seen[f.path])
                    ctx.inst(rid, key, sample={"fn": f.path, "line": x.get("ln")})
                    ctx.finding(rid, key, "%s unwraps Url::to_file_path of a client-supplied URI" % f.path, "%s:%s" % (f.file, x.get("ln")))
    # anchor: the conversion itself must exist
    conv = sum(1 for f in fx.all_fns("mos") if "::tests::" not in f.path for _, t in lib.calls(f) if lib.pm(lib.callee(t)[0], "Url::to_file_path"))
    ctx.inst(rid, "anchor|to_file_path-calls", sample={"calls": conv, "force_unwrapped": total}, nontrivial=total > 0)
    if conv < 1:
        ctx.fail_closed(rid, "no call of Url::to_file_path found in the language server")


def r144(ctx, fx):
    rid = ctx.rule("R14.4", "answers do not depend on hash order: every consumer of a hash_map/hash_set iterator in mos::lsp, mos::debugger and the analysis "
                   "database is order-insensitive, totally sorted, or its result is only used as a set; `first()` of such a sequence is reported")
    SAFE = {
        ("mos::lsp::completion::CompletionHandler", "collect_vec"): "completion items: an unordered list for the client (the client sorts)",
        ("mos::debugger::CompletionsRequestHandler", "collect"): "completion targets: unordered for the client",
        ("mos::debugger::CompletionsRequestHandler::local_symbols", "collect"): "completion targets: unordered for the client",
        ("mos::debugger::VariablesRequestHandler", "next"): "variables are sorted by name afterwards (sorted_by_key on the unique name)",
        ("mos::debugger::VariablesRequestHandler", "sorted_by_key"): "key = variable name, unique per scope",
        ("mos::debugger::adapters::vice::ViceAdapter", "find"): "lookup of a unique register/flag name",
        ("mos::lsp::rename::RenameHandler", "next"): "groups edits per file into a map; edits of one file are disjoint ranges",
        ("mos_core::codegen::analysis::Definition::contains", "any"): "existential test",
        ("mos_core::codegen::analysis::Definition::try_get_usage_containing", "find"): "usages of one definition do not overlap: at most one contains a position",
        ("mos_core::codegen::analysis::Analysis::find_filter", "sorted_by"): "sorted by (length of the narrowest matching span, DefinitionType); the DefinitionType is the "
                                                                               "key of the map the entries come from, hence unique: a total order",
        ("mos::lsp::rename::rename_edits", "find"): "looks up the one child of the defining scope whose index is the renamed symbol's (its name there)",
        ("mos::lsp::rename::rename_edits", "next"): "walks the per-usage traversal steps to rename the reached nodes in a private copy of the symbol table (every node gets the same "
                                                    "new name: order-free); the new paths are collected into a map keyed by the usage",
    }
    n = 0
    for key, f, t, name, verdict, reason in classify(fx, for_c14=True):
        n += 1
        owner = f
        while owner.kind == "closure" and owner.d.get("parent") in fx.fns:
            owner = fx.fns[owner.d["parent"]]
        who = lib.norm(owner.d.get("impl_self") or owner.path)
        if who.startswith("mos::debugger::adapters::vice::ViceAdapter"):
            who = "mos::debugger::adapters::vice::ViceAdapter"
        r2 = SAFE.get((who, name)) or SAFE.get((lib.norm(owner.path), name))
        ctx.inst(rid, key, sample={"fn": f.path, "consumer": name, "verdict": verdict if verdict != "unclassified" else ("safe" if r2 else "unclassified"), "reason": reason or r2})
        if verdict in ("auto", "safe") or r2:
            continue
        ctx.finding(rid, key, "%s consumes a hash-ordered sequence with `%s` and the result reaches the client: answers differ between equal buffer states" % (f.path, name),
                    "%s:%s" % (f.file, t.get("line")))
    # callers that take `.first()` / remove(0) of Analysis::find()'s result: recorded, not reported — picking one of several definitions that contain
    # a position is order-dependent only when such definitions overlap *and* differ in their usage sets; no such program could be constructed
    # (symbols created by repeated imports / macro invocations share definition and usage spans), so no claim is made for these sites.
    for f in sorted(fx.all_fns("mos"), key=lambda f: f.path):
        if not f.d.get("hir") or "::tests::" in f.path or "::testing" in f.path:
            continue
        cnt = 0
        for x in lib.hwalk(f.hir["body"]):
            if x.get("k") == "mcall" and x.get("name") in ("first", "remove", "pop", "last") and \
                    "alloc::vec::Vec<(&mos_core::codegen::analysis::DefinitionType" in (lib.strip(x["recv"]).get("ty") or ""):
                cnt += 1
                ctx.inst(rid, "%s|first-of-hash#%d" % (f.path, cnt), nontrivial=False)
    if n < 8:
        ctx.fail_closed(rid, "fewer than 8 hash-ordered consumer sites found in the language server (%d)" % n)


def r145(ctx, fx):
    rid = ctx.rule("R14.5", "every capability advertised in ServerCapabilities has its handler registered in LspServer::new and every registered handler's "
                   "capability is advertised")
    with open(os.path.join(os.path.dirname(HERE), "ref", "lsp_caps.json")) as fh:
        ref = json.load(fh)["capabilities"]
    new = fx.fn("mos::lsp::LspServer::new")
    start = fx.fn("mos::lsp::LspServer::start")
    if not (new and start):
        ctx.fail_closed(rid, "LspServer::new / start not found")
        return
    registered = set()
    for x, p in lib.hir_calls(new.hir["body"]):
        if x.get("k") == "mcall" and x.get("name") in ("register_request_handler", "register_notification_handler"):
            a = lib.strip(x["args"][0])
            ty = (a.get("ty") or "").rsplit("::", 1)[-1]
            registered.add(ty)
    advertised = set()
    for s in lib.hwalk(start.hir["body"]):
        if s.get("k") == "struct" and lib.pm(s["res"].get("path"), "ServerCapabilities"):
            for fl in s["fields"]:
                advertised.add(fl["name"])
    for cap, handlers in sorted(ref.items()):
        k = "cap|%s" % cap
        ctx.inst(rid, k, sample={"capability": cap, "advertised": cap in advertised, "handlers": handlers})
        if cap in advertised:
            miss = [h for h in handlers if h not in registered]
            if miss:
                ctx.finding(rid, k, "capability `%s` is advertised but %s is not registered: such requests are never answered" % (cap, miss), start.where)
        else:
            have = [h for h in handlers if h in registered]
            if have:
                ctx.finding(rid, k, "%s is registered but capability `%s` is not advertised" % (have, cap), start.where)
    known = {h for hs in ref.values() for h in hs}
    extra = sorted(registered - known)
    ctx.inst(rid, "registered-handlers", sample={"registered": sorted(registered)})
    if extra:
        ctx.finding(rid, "registered-handlers|unknown", "handlers without a capability in the reference table: %s" % extra, new.where)
    unknown_caps = sorted(advertised - set(ref))
    if unknown_caps:
        ctx.finding(rid, "advertised|unknown", "capabilities advertised without a handler entry in the reference table: %s" % unknown_caps, start.where)


def r148(ctx, fx):
    rid = ctx.rule("R14.8", "handlers do not force-unwrap what the client may legitimately leave empty: no unwrap/expect on an Option/Result computed from the "
                   "request's `params` in a RequestHandler/NotificationHandler::handle (URI conversions are R14.3's subject)")
    n = 0
    for f in sorted(fx.all_fns("mos"), key=lambda f: f.path):
        if not f.d.get("hir") or "::tests::" in f.path or not f.path.endswith("::handle"):
            continue
        if f.d.get("impl_trait") not in ("mos::lsp::traits::RequestHandler", "mos::lsp::traits::NotificationHandler"):
            continue
        n += 1
        k0 = 0
        for x in lib.hwalk(f.hir["body"]):
            if x.get("k") == "mcall" and x.get("name") in ("unwrap", "expect") and \
                    any(y.get("k") == "path" and lib.hpath(y) == "params" for y in lib.hwalk(x["recv"])):
                d = repr(lib.hdesc(x["recv"]))
                if "to_file_path" in d:
                    continue
                k0 += 1
                key = "%s|%s#%d" % (f.path, x["name"], k0)
                ctx.inst(rid, key)
                ctx.finding(rid, key, "%s force-unwraps a value taken from the request (%s): a request that leaves it empty — e.g. a didChange without content "
                            "changes — ends the language server" % ((f.d.get("impl_self") or f.path).rsplit("::", 1)[-1], d[:80]), "%s:%s" % (f.file, x.get("ln")))
        if k0 == 0:
            ctx.inst(rid, f.path, nontrivial=False)
    ctx.floor(rid, 15, "handlers scanned")


def r149(ctx, fx):
    rid = ctx.rule("R14.9", "diagnostics of files that left the project are withdrawn: publish_diagnostics keeps, in a field of the context that it both reads and "
                   "updates, which files it reported diagnostics for, and its publishing loop is not confined to the files of the current parse tree "
                   "(without such a record a file whose import was removed keeps its last diagnostics at the client forever)")
    pub = fx.fn("mos::lsp::documents::publish_diagnostics")
    if pub is None:
        ctx.fail_closed(rid, "documents::publish_diagnostics not found")
        return
    key = "publish_diagnostics|remembers-published-files"
    LCX = "mos::lsp::LspContext"
    written = {n for of, n, kind, _, _ in lib.writes_of(pub) if of == LCX}
    read = set()
    for b in pub.blocks:
        for st in b["stmts"] + [b["term"]]:
            for pl in _places(st):
                for e in (pl.get("p") or []):
                    if isinstance(e, dict) and e.get("of") == LCX and "n" in e:
                        read.add(e["n"])
    memo = sorted((written & read) - {"tree", "error", "codegen", "connection"})
    ctx.inst(rid, key, sample={"fields_read": sorted(read), "fields_updated": sorted(written), "record": memo})
    for fld in memo:
        others = sorted({g.path for g in fx.all_fns("mos") if g is not pub and "::tests::" not in g.path and g.blocks and not g.path.endswith("LspContext::new") and
                         any(of == LCX and n == fld for of, n, kind, _, _ in lib.writes_of(g))})
        k2 = "publish_diagnostics|record-written-elsewhere|%s" % fld
        ctx.inst(rid, k2, sample={"record": fld, "other_writers": others})
        if others:
            ctx.finding(rid, k2, "the record of what the client was told (`%s`) is also written by %s: what it held is lost whenever that runs twice between two "
                        "publications (a didChange with two content changes), and the diagnostics of a file that left the project in between stay at the client" % (
                            fld, ", ".join(o.rsplit("::", 1)[-1] for o in others)), pub.where)
    if not memo:
        ctx.finding(rid, key, "publish_diagnostics keeps no record of the files it published diagnostics for (it updates no field of the context): when a file with "
                    "errors drops out of the import tree, or the entry file disappears, the client keeps that file's last diagnostics — a fresh server given the "
                    "same buffers would show none", pub.where)


# fields of LspContext that are not a function of the buffers, one line of reason each; every other field has to be re-derived by perform_codegen
NOT_DERIVED = {
    "connection": "the transport, set once when the server starts listening",
    "parsing_source": "the buffers themselves — the state a freshly started server is given",
    "files_with_diagnostics": "what the client was last told (R14.9): compared against when publishing, never answered from",
    "shutdown_manager": "shutdown handlers of the process",
    "responses": "test-only record of what was sent",
}


def r1410(ctx, fx):
    rid = ctx.rule("R14.10", "the server's state is the buffers plus what perform_codegen derives from them: every field of LspContext outside the table of transport / "
                   "buffer / bookkeeping fields is assigned on every path through perform_codegen before its first early return (so nothing computed under an "
                   "older buffer state survives a change), and no RequestHandler::handle stores into a field of LspContext that perform_codegen does not reset — "
                   "answers kept between requests (a cache) outlive the analysis they were computed from")
    pc = fx.fn(LC + "::perform_codegen")
    adt = fx.adts.get(LC)
    if pc is None or adt is None:
        ctx.fail_closed(rid, "LspContext / perform_codegen not found")
        return
    fields = [x.get("name") for v in adt.get("variants", []) for x in v.get("fields", [])]
    if len(fields) < 6:
        ctx.fail_closed(rid, "LspContext has %d fields, 7 were counted" % len(fields))
        return
    rets = lib.return_blocks(pc)
    rederived = set()
    for fld in fields:
        k = "LspContext|%s" % fld
        if fld in NOT_DERIVED:
            ctx.inst(rid, k, sample={"field": fld, "class": "not derived", "reason": NOT_DERIVED[fld]}, nontrivial=False)
            continue
        blocks = [bi for bi, si, st in lib.stmts(pc) if st["k"] == "assign" and lib.place_fields(st["dst"])[:1] == [fld]]
        blocks += [bi for bi, t in lib.calls(pc) if lib.place_fields(t["dst"])[:1] == [fld]]
        # … or emptied in place: `self.<field>.clear()`
        blocks += [bi for of, n, kind, bi, _ in lib.writes_of(pc) if of == LC and n == fld and kind == "mutborrow" and
                   pc.blocks[bi]["term"]["k"] == "call" and str(lib.callee(pc.blocks[bi]["term"])[0]).endswith("::clear")]
        ok = bool(blocks) and all(lib.must_pass(pc, blocks, r) for r in rets)
        if ok:
            rederived.add(fld)
        ctx.inst(rid, k, sample={"field": fld, "class": "derived", "reset_on_every_path_of_perform_codegen": ok})
        if not ok and fld not in ("tree", "codegen", "error"):      # those three are reported by R14.1
            ctx.finding(rid, k, "LspContext.%s is state that perform_codegen does not re-derive on every path: what is stored there under one buffer state is still "
                        "there after the buffers changed, and a freshly started server would not have it" % fld, pc.where)
    n = 0
    seen = {}
    for f in sorted(fx.all_fns("mos"), key=lambda f: f.path):
        if "::tests::" in f.path or not f.blocks:
            continue
        owner = f
        while owner.kind == "closure" and owner.d.get("parent") in fx.fns:
            owner = fx.fns[owner.d["parent"]]
        if owner.d.get("impl_trait") != "mos::lsp::traits::RequestHandler" or not owner.path.endswith("::handle"):
            continue
        n += 1
        w = sorted({fn for of, fn, kind, _, _ in lib.writes_of(f) if of == LC})
        k = "%s|stores" % owner.path
        ctx.inst(rid, k, sample={"handler": owner.d.get("impl_self"), "fields_stored": w}, nontrivial=bool(w))
        for fld in w:
            if fld in rederived:
                continue        # filled lazily, emptied with every change of the buffers: still a function of the buffers
            ctx.finding(rid, "%s|%s" % (k, fld), "the request handler %s stores into LspContext.%s: a later request is answered from what an earlier one left there" % (
                (owner.d.get("impl_self") or owner.path).rsplit("::", 1)[-1], fld), f.where)
    if n < 10:
        ctx.fail_closed(rid, "fewer than 10 request handler bodies found (%d)" % n)


# handlers whose answer carries ranges but names no document: the ranges are read as positions in the requested document
RANGES_WITHOUT_DOCUMENT = ("CodeLensRequestHandler", "DocumentHighlightRequestHandler", "SemanticTokensFullRequestHandler", "DocumentSymbolRequestHandler")


def r1411(ctx, fx):
    rid = ctx.rule("R14.11", "answers that carry ranges but no document (code lenses, highlights, semantic tokens, document symbols) are confined to the requested "
                   "document — sibling handlers agree on one of two idioms: the answer is computed from the tokens of that file alone "
                   "(ParseTree::try_get_file(<requested path>)), or every location is compared with the requested document (its uri / File::name) before "
                   "its range is used. A handler with neither reports positions of imported files as positions in the requested one")
    n = 0
    for f in sorted(fx.all_fns("mos"), key=lambda f: f.path):
        if not (f.d.get("impl_trait") == "mos::lsp::traits::RequestHandler" and f.path.endswith("::handle") and f.d.get("hir")):
            continue
        who = (f.d.get("impl_self") or "").rsplit("::", 1)[-1]
        if who not in RANGES_WITHOUT_DOCUMENT:
            continue
        n += 1
        body = f.hir["body"]
        own_tokens = any(True for _ in lib.hir_calls(body, "ParseTree::try_get_file"))
        compares = False
        for x in lib.hwalk(body):
            if x.get("k") == "binary" and x.get("op") in ("Eq", "Ne"):
                d = repr(lib.hdesc(x))
                if ("File::name" in d or "'uri'" in d) and ("uri" in d or "path" in d):
                    compares = True
        k = "%s|confined-to-document" % who
        ctx.inst(rid, k, sample={"handler": who, "computed_from_the_file's_tokens": own_tokens, "compares_location_with_document": compares})
        if not (own_tokens or compares):
            ctx.finding(rid, k, "%s answers with ranges of locations it never compares with the requested document: what lies in an imported file is reported at "
                        "the same line/column of the requested file (ranges outside the document; a test offered once per importing file)" % who, f.where)
    if n < len(RANGES_WITHOUT_DOCUMENT):
        ctx.fail_closed(rid, "%d of the %d handlers with range-only answers found" % (n, len(RANGES_WITHOUT_DOCUMENT)))


def r1412(ctx, fx):
    rid = ctx.rule("R14.12", "a byte index behind a character is the index of the character plus *its* length: nowhere in the language server / debug adapter is a "
                   "constant added to the result of `find` / `rfind` with a character predicate (`.rfind(|c| …).map(|pos| pos + 1)`) — the character found may be "
                   "longer than one byte (a typographic quote in a comment), the index then lies inside it and the slice that follows panics")
    n = 0
    seen = {}
    for f in sorted(fx.all_fns("mos"), key=lambda f: f.path):
        if "::tests::" in f.path or "::testing" in f.path or f.kind == "closure" or not f.d.get("hir"):
            continue
        if not f.path.lstrip("<").startswith(("mos::lsp", "mos::debugger")):
            continue
        n += 1
        hits = []
        for x in lib.hwalk(f.hir["body"]):
            if not (x.get("k") == "mcall" and x.get("name") in ("map", "map_or", "and_then") and x.get("args")):
                continue
            # receiver chain contains find / rfind with a predicate closure (or a non-ASCII needle)
            finds = [y for y in lib.hwalk(x["recv"]) if y.get("k") == "mcall" and y.get("name") in ("find", "rfind") and
                     "str" in str(y.get("path", "")) and y.get("args") and
                     (lib.strip(y["args"][0]).get("k") == "closure" or (isinstance(lib.hlit(y["args"][0]), str) and not lib.hlit(y["args"][0]).isascii()))]
            if not finds:
                continue
            c = lib.strip(x["args"][-1])
            if c.get("k") != "closure":
                continue
            ps = {q["name"] for p_ in c.get("params", []) for q in lib.hwalk(p_) if q.get("k") == "bind"}
            for b in lib.hwalk(c.get("body", {})):
                if b.get("k") == "binary" and b.get("op") == "Add" and isinstance(lib.hlit(b["r"]) if lib.hlit(b["r"]) is not None else lib.hlit(b["l"]), int) and \
                        (lib.hpath(b["l"]) in ps or lib.hpath(b["r"]) in ps):
                    hits.append(b.get("ln") or x.get("ln"))
        if not hits:
            ctx.inst(rid, f.path, nontrivial=False)
        for ln in hits:
            seen[f.path] = seen.get(f.path, 0) + 1
            k = "%s|index-plus-constant#%d" % (f.path, seen[f.path])
            ctx.inst(rid, k, sample={"fn": f.path, "line": ln})
            ctx.finding(rid, k, "%s adds a constant to the byte index of a character found by predicate: with a multi-byte character in front of the identifier under "
                        "the cursor (`nop // “foo” bar`) the index is not a char boundary and the request ends the server" % f.path, "%s:%s" % (f.file, ln))
    ctx.floor(rid, 150, "language-server / debug-adapter bodies scanned")


def run(ctx):
    fx = ctx.facts
    cg = lib.CallGraph(fx)
    r141(ctx, fx, cg)
    r148(ctx, fx)
    r149(ctx, fx)
    r1410(ctx, fx)
    r1411(ctx, fx)
    r1412(ctx, fx)
    r146(ctx, fx)
    r142(ctx, fx)
    r143(ctx, fx)
    r144(ctx, fx)
    r145(ctx, fx)
    # R14.7: positional results are expressed in LSP units — the BYTELEN rule of C17, applied to everything outside the formatting module
    from .c17 import r171
    r171(ctx, fx, scope_prefix=("mos::lsp::formatting",), rid_name="R14.7")
    ctx.not_decided("equality of answers with a freshly started server on concrete edit histories; well-formedness of returned ranges and semantic tokens; "
                    "malformed request parameters (`req.extract(..).unwrap()`); that every request is answered when a handler returns Err")
    ctx.assume("label propagation caveats of rules/taint.py")
