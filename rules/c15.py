"""C15 — rename is behaviour-preserving and complete (completeness clause only; shares the analysis-path rules with C16).

 R15.1 = R16.1 analysis-path coverage (an occurrence the analysis does not see is not renamed → the renamed program means something else)
 R15.2 = R16.2 single resolver
 R15.3 = R16.3 per-segment usage spans (the edit replaces exactly the segment's characters)
 R15.4 the rename handler builds its edits from the definition and *all* its usages and from nothing else
"""
from . import lib
from .c16 import r161, r162, r163, r166


def rename_bodies(fx):
    """RenameHandler::handle and the free functions of mos::lsp::rename it delegates to"""
    fns = [f for f in fx.all_fns("mos") if f.d.get("impl_self") == "mos::lsp::rename::RenameHandler" and f.path.endswith("::handle") and
           f.d.get("impl_trait") == "mos::lsp::traits::RequestHandler"]
    if len(fns) != 1:
        return []
    out = [fns[0]]
    seen = {fns[0].id}
    work = [fns[0]]
    while work:
        f = work.pop()
        for o in lib.owned(fx, f):
            for _, t in lib.calls(o):
                p, fr = lib.callee(t)
                g = fx.fns.get(fr.get("rid") or fr.get("id")) if p else None
                if g is not None and g.id not in seen and g.kind == "fn" and g.path.startswith("mos::lsp::rename::") and g.d.get("hir"):
                    seen.add(g.id)
                    out.append(g)
                    work.append(g)
    return out


def r154(ctx, fx):
    rid = ctx.rule("R15.4", "the rename handler derives its text edits from Definition::definition_and_usages() of the definition under the cursor (definition site "
                   "plus every recorded usage, all files) — not from a text search — and replaces each with the new name")
    fns = rename_bodies(fx)
    if not fns:
        ctx.fail_closed(rid, "RenameHandler::handle not found")
        return
    f = fns[0]
    callees = set()
    for b in fns:
        for o in lib.owned(fx, b):
            for _, t in lib.calls(o):
                callees.add(lib.norm(lib.callee(t)[0] or ""))
    k = "%s|edit-source" % f.path
    ctx.inst(rid, k, sample={"uses_definition_and_usages": any(c.endswith("Definition::definition_and_usages") for c in callees)})
    if not any(c.endswith("Definition::definition_and_usages") for c in callees):
        ctx.finding(rid, k, "rename no longer edits the definition together with all recorded usages", f.where)
    bad = [c for c in callees if c.endswith("str::replace") or c.endswith("str::find") or c.endswith("str::matches")]
    k = "%s|no-text-search" % f.path
    ctx.inst(rid, k)
    if bad:
        ctx.finding(rid, k, "rename uses a text search (%s): equally named symbols in other scopes, comments or strings would be edited" % bad, f.where)
    k = "%s|new-name" % f.path
    ctx.inst(rid, k)
    uses_new = any(x.get("k") == "field" and x["name"] == "new_name" for b in fns for x in lib.hwalk(b.hir["body"]))
    if not uses_new:
        ctx.finding(rid, k, "the edits are not built from params.new_name", f.where)


def r155(ctx, fx):
    rid = ctx.rule("R15.5", "the ranges of a workspace edit are the usage spans, in the coordinates of the *original* document: outside the span converters nothing in "
                   "the language server stores into a field of an lsp_types Position / Range (no `edit.range.start.character = …`), and no Position is built "
                   "from arithmetic on another position — edits shifted by the lengths of earlier replacements overwrite the wrong characters when one line "
                   "holds two occurrences")
    n = 0
    seen = {}
    for f in sorted(fx.all_fns("mos"), key=lambda f: f.path):
        if "::tests::" in f.path or "::testing" in f.path or not f.path.lstrip("<").startswith("mos::lsp") or not f.blocks:
            continue
        n += 1
        hits = []
        for bi, si, st in lib.stmts(f):
            if st["k"] != "assign":
                continue
            proj = st["dst"].get("p") or []
            named = [e for e in proj if isinstance(e, dict) and "n" in e]
            if named and str(named[-1].get("of", "")) in ("lsp_types::Position", "lsp_types::Range") and len(proj) >= 1 and \
                    (len(named) >= 2 or any(e == "deref" or (isinstance(e, dict) and "n" not in e) for e in proj) or st["dst"]["l"] <= f.argc):
                # a store *through* an existing value (field of a field, through a reference, or of a parameter); building a fresh local
                # field by field (`_5.line = …` of an uninitialised temporary) is how MIR constructs aggregates in some cases and is excluded
                hits.append((named[-1]["of"].rsplit("::", 1)[1], named[-1]["n"], st.get("line")))
        if not hits:
            ctx.inst(rid, f.path, nontrivial=False)
        for adt, fld, line in hits:
            owner = f
            while owner.kind == "closure" and owner.d.get("parent") in fx.fns:
                owner = fx.fns[owner.d["parent"]]
            seen[owner.path] = seen.get(owner.path, 0) + 1
            key = "%s|%s.%s#%d" % (owner.path, adt, fld, seen[owner.path])
            ctx.inst(rid, key)
            ctx.finding(rid, key, "%s rewrites `%s.%s` of a position that was derived from a source span: the edit no longer refers to the original document "
                        "(two occurrences of the renamed symbol on one line + a new name of another length corrupt the line)" % (
                            owner.path.rsplit("::", 2)[-2] if "::" in owner.path else owner.path, adt, fld), "%s:%s" % (f.file, line))
    ctx.floor(rid, 150, "language-server bodies scanned")


def shared_guard(bodies):
    """some body asks Analysis::is_used_by_symbol_defined_elsewhere and returns early when the answer (directly or through a local) is true"""
    for b in bodies:
        if not b.d.get("hir"):
            continue
        names = set()

        def over_all_usages(e):
            # the question is put for every usage of the definitions, not for a chosen one
            return any(True for _ in lib.hir_calls(e, "Definition::usages")) or any(True for _ in lib.hir_calls(e, "Definition::definition_and_usages"))
        for n in lib.hwalk(b.hir["body"]):
            if n.get("k") == "let" and "init" in n and any(True for _ in lib.hir_calls(n["init"], "Analysis::is_used_by_symbol_defined_elsewhere")) and \
                    over_all_usages(n["init"]):
                names |= {q["name"] for q in lib.hwalk(n["pat"]) if q.get("k") == "bind"}
        for n in lib.hwalk(b.hir["body"]):
            if n.get("k") == "if":
                c = n["cond"]
                asks = (any(True for _ in lib.hir_calls(c, "Analysis::is_used_by_symbol_defined_elsewhere")) and over_all_usages(c)) or \
                    any(x.get("k") == "path" and (x.get("res") or {}).get("dk") == "Local" and x["res"].get("name") in names for x in lib.hwalk(c))
                if asks and any(x.get("k") == "ret" for x in lib.hwalk(n["then"])):
                    return True
    return False


def r156(ctx, fx):
    rid = ctx.rule("R15.6", "recorded locations that are not the symbol's name are not rewritten (regression guards for repaired defects): the rename handler compares the "
                   "source text at the definition with the symbol's name in its defining scope and answers nothing when they differ (generated symbols: loop "
                   "`index`, block `-`/`+`); it leaves `super` usages alone; it narrows an import's `scope.name as alias` usage to the name and leaves usages under another name (the alias) alone; it answers nothing when an occurrence also stands for a symbol defined elsewhere; add_symbol records further "
                   "definitions of a variable as usages and clears what the analysis knew about a re-used symbol index")
    bodies = rename_bodies(fx)      # the HIR of a function contains the bodies of its closures
    ads = fx.fn("mos_core::codegen::CodegenContext::add_symbol")
    if not bodies or ads is None:
        ctx.fail_closed(rid, "RenameHandler::handle / add_symbol not found")
        return
    rh = bodies[0]

    def calls_any(sfx):
        return any(True for b in bodies if b.d.get("hir") for x, p in lib.hir_calls(b.hir["body"]) if p and lib.pm(p, sfx))
    checks = [
        ("generated-symbols", calls_any("SymbolTable::children") and any(
            n.get("k") == "binary" and n.get("op") in ("Eq", "Ne") and "as_str" in repr(lib.hdesc(n)) and "location" in repr(lib.hdesc(n))
            for b in bodies if b.d.get("hir") for n in lib.hwalk(b.hir["body"])),
         "the rename handler does not compare the text at the definition with the symbol's name: renaming the `index` of a loop or the `-`/`+` of a block rewrites the "
         "loop count / the brace"),
        ("super", calls_any("Identifier::is_super"),
         "the rename handler rewrites `super` usages: renaming a scope turns `lda super.foo` into `lda .foo`"),
        ("alias-usages", any(
            x.get("k") == "closure" and any(r.get("k") == "ret" for r in lib.hwalk(x)) and any(
                n.get("k") == "binary" and n.get("op") in ("Eq", "Ne") and "old_name" in repr(lib.hdesc(n)) for n in lib.hwalk(x))
            for b in bodies if b.d.get("hir") for x in lib.hwalk(b.hir["body"])),
         "the rename handler edits usages without comparing their text with the symbol's name: where an import gave the symbol another name (`.import foo as bar`), "
         "`lda bar` is rewritten to the new name of `foo`, which does not exist there"),
        ("shared-occurrences", shared_guard(bodies),
         "the rename handler does not check, for *every* usage of the symbol, whether the occurrence also stands for a symbol defined elsewhere (a name in a macro body is looked up per invocation): "
         "renaming `a.target` rewrites the `jmp target` of the macro and the invocation in `b` no longer assembles"),
        ("no-lookup-by-name", not (calls_any("SymbolTable::<S>::query_traversal_steps") or calls_any("SymbolTable::query_traversal_steps") or
                               calls_any("query_steps_to_path")),
         "the rename handler looks the old text of a usage up again by name and rebuilds the new text from what it finds: the lookup is not the assembler's (a macro "
         "name that a label shadows is found as the label; a symbol known through an exported copy of its name keeps that copy), and the occurrence is `renamed` to its "
         "old name"),
        ("all-copies", calls_any("Analysis::symbols_written_at"),
         "the rename handler renames only the copies of the symbol that have an occurrence at the position of the request: started at a usage of a symbol from a file "
         "that is imported twice, the usages that reach it through the other import keep the old name and the project no longer assembles"),
        ("import-alias", calls_any("Span::subspan"),
         "the rename handler replaces the whole `name as alias` of an import: renaming the imported symbol deletes the alias"),
    ]
    for k, ok, msg in checks:
        key = "RenameHandler|%s" % k
        ctx.inst(rid, key)
        if not ok:
            ctx.finding(rid, key, msg, rh.where)
    key = "RenameHandler|every-import"
    ctx.inst(rid, key)
    loops = [n for n in lib.hwalk(rh.hir["body"]) if n.get("k") == "match" and n.get("src") == "ForLoopDesugar" and
             lib.strip(n["scrut"]).get("k") == "call" and str(lib.hcallee(lib.strip(n["scrut"]))).endswith("into_iter") and
             any(True for x, p in lib.hir_calls(n) if p and (p.endswith("Definition::definition_and_usages") or
                                                             any(p == b.path for b in bodies[1:])))]
    def whole(n):
        it = repr(lib.hdesc(lib.strip(lib.strip(n["scrut"])["args"][0])))
        return not any(w in it for w in ("::take", "::skip", "::nth", "::first", "::step_by", "::last", "::next"))
    loops = [n for n in loops if whole(n)]
    if not loops:
        ctx.finding(rid, key, "the rename handler edits the usages of one definition only: a file that is imported twice has one copy of its symbols per import, all "
                    "defined at the same place, and the usages that go through the other imports keep the old name", rh.where)
    key = "add_symbol|further-definitions"
    ctx.inst(rid, key)
    if not any(True for x, p in lib.hir_calls(ads.hir["body"], "Definition::add_usage")):
        ctx.finding(rid, key, "add_symbol replaces the recorded location on every definition: the earlier definitions of a `.var` defined twice are neither definition nor "
                    "usage, a rename skips them and the program assembles to other bytes", ads.where)
    key = "add_symbol|reused-index"
    ctx.inst(rid, key)
    if not any(True for x, p in lib.hir_calls(ads.hir["body"], "Analysis::remove_definition")):
        ctx.finding(rid, key, "a newly inserted symbol inherits what the analysis recorded for the removed symbol whose index it was given (the `index` of a loop): "
                    "renaming a constant defined after a loop rewrites `index`", ads.where)


def r157(ctx, fx):
    rid = ctx.rule("R15.7", "the scope recorded with a usage is the scope the symbol is *defined* in: in Analysis::add_symbol_usage the `parent_scope` of the "
                   "DefinitionLocation handed to add_usage is bound from `SymbolTable::parent(nx)` of the very index the usage is recorded for. rename_edits "
                   "renames the edge `parent_scope → symbol` for every usage; with the scope a path segment was *looked up* in, that edge is the alias of a "
                   "`name as alias` import, and renaming the imported symbol rewrites the alias' usages to a name that does not exist there")
    f = fx.fn("mos_core::codegen::analysis::Analysis::add_symbol_usage")
    if f is None or not f.d.get("hir"):
        ctx.fail_closed(rid, "Analysis::add_symbol_usage not found")
        return
    body = f.hir["body"]
    lits = [x for x in lib.hwalk(body) if x.get("k") == "struct" and str((x.get("res") or {}).get("path", "")).endswith("DefinitionLocation")]
    key = "add_symbol_usage|parent_scope"
    if not lits:
        ctx.fail_closed(rid, "no DefinitionLocation built in add_symbol_usage")
        return
    # bindings by name and line (the dump names locals)
    binds = []
    for n in lib.hwalk(body):
        if n.get("k") in ("let", "letx") and "init" in n:
            for q in lib.hwalk(n["pat"]):
                if q.get("k") == "bind":
                    binds.append((q["name"], q.get("ln") or 0, n["init"]))
    sym_nx = {lib.hpath(lib.hargs(x)[0]) for x, p in lib.hir_calls(body) if p and p.endswith("DefinitionType::Symbol") and lib.hargs(x)}
    bad = 0
    for lit in lits:
        fe = [fl["e"] for fl in lit.get("fields", []) if fl.get("name") == "parent_scope"]
        if not fe:
            continue
        name = lib.hpath(fe[0])
        c = [b for b in binds if b[0] == name and b[1] <= (lit.get("ln") or 10 ** 9)]
        init = max(c, key=lambda b: b[1])[2] if c else None
        ok = False
        if init is not None:
            i = lib.strip(init)
            if i.get("k") == "mcall" and str(i.get("path", "")).endswith("SymbolTable::<S>::parent") or (i.get("k") == "mcall" and i.get("name") == "parent"):
                ok = lib.hpath(i["args"][0]) in sym_nx if i.get("args") else False
        ctx.inst(rid, key, sample={"parent_scope_bound_from": repr(lib.hdesc(init))[:120] if init is not None else None, "symbol_index": sorted(x for x in sym_nx if x)})
        if not ok:
            bad += 1
            ctx.finding(rid, "%s#%d" % (key, bad), "a usage is recorded with a parent_scope that is not `symbols.parent(<the symbol>)` (%s): for a symbol that is reachable "
                        "under another name (`.import data as bytes`) this is the scope of the alias, and rename rewrites `bytes` to the new name of `data`" % (
                            repr(lib.hdesc(init))[:80] if init is not None else name), "%s:%s" % (f.file, lit.get("ln")))


def r158(ctx, fx):
    rid = ctx.rule("R15.8", "the edits of the copies of a symbol are united: nowhere in the rename code is a map from document to edit list filled with `extend` from "
                   "another such map or with `insert` of a whole list (both replace the list a document already has — a file that uses two copies of the symbol, "
                   "through two imports, keeps the old name at the usages of the first); lists are merged per document (`entry(..).or_default().extend(..)`, or "
                   "a flat list of (document, edit) pairs grouped at the end)")
    bodies = rename_bodies(fx)
    if not bodies:
        ctx.fail_closed(rid, "RenameHandler::handle not found")
        return
    n = 0
    for b in bodies:
        for o in lib.owned(fx, b):
            for bi, t in lib.calls(o):
                p, fr = lib.callee(t)
                pn = lib.norm(p or "")
                full = fr.get("full", "") or ""
                if not (pn.endswith(("::extend", "::insert")) and t.get("args")):
                    continue
                rl = lib.op_local(t["args"][0])
                rty = o.locals[rl]["ty"] if rl is not None else ""
                if "HashMap<" not in rty and "BTreeMap<" not in rty and "IndexMap<" not in rty:
                    continue
                if "TextEdit" not in rty or "Vec<" not in rty:
                    continue
                n += 1
                key = "%s|edit-lists-replaced#%d" % (b.path.rsplit("::", 1)[-1], n)
                ctx.inst(rid, key, sample={"fn": o.path, "call": pn.rsplit("::", 1)[-1], "line": t.get("line")})
                ctx.finding(rid, key, "%s fills a map from document to edit list with `%s`: the list of a document that is already there is replaced, so of two copies of "
                            "the symbol that are used in one file only the last one's usages are renamed" % (o.path.rsplit("::", 1)[-1], pn.rsplit("::", 1)[-1]),
                            "%s:%s" % (o.file, t.get("line")))
    ctx.inst(rid, "rename|scan", sample={"bodies": len(bodies), "map_fills_with_whole_lists": n})


def run(ctx):
    fx = ctx.facts
    cg = lib.CallGraph(fx)
    r155(ctx, fx)
    r156(ctx, fx)
    # R15.7 (usage scope = defining scope) was withdrawn: since repair 92869d5 the rename handler no longer consults the scope recorded with a usage, so
    # the clause is no necessary condition of anything observable any more (DESIGN §9)
    r158(ctx, fx)
    r161(ctx, fx, "R15.1")
    r162(ctx, fx, cg, "R15.2")
    r163(ctx, fx, "R15.3")
    r166(ctx, fx, "R15.9")
    r154(ctx, fx)
    ctx.not_decided("that the renamed project assembles to identical bytes; that renaming back restores the text; behaviour on shadowed names on concrete programs")
