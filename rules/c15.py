"""C15 — rename is behaviour-preserving and complete (completeness clause only; shares the analysis-path rules with C16).

 R15.1 = R16.1 analysis-path coverage (an occurrence the analysis does not see is not renamed → the renamed program means something else)
 R15.2 = R16.2 single resolver
 R15.3 = R16.3 per-segment usage spans (the edit replaces exactly the segment's characters)
 R15.4 the rename handler builds its edits from the definition and *all* its usages and from nothing else
"""
from . import lib
from .c16 import r161, r162, r163


def r154(ctx, fx):
    rid = ctx.rule("R15.4", "the rename handler derives its text edits from Definition::definition_and_usages() of the definition under the cursor (definition site "
                   "plus every recorded usage, all files) — not from a text search — and replaces each with the new name")
    fns = [f for f in fx.all_fns("mos") if f.d.get("impl_self") == "mos::lsp::rename::RenameHandler" and f.path.endswith("::handle") and
           f.d.get("impl_trait") == "mos::lsp::traits::RequestHandler"]
    if len(fns) != 1:
        ctx.fail_closed(rid, "RenameHandler::handle not found")
        return
    f = fns[0]
    callees = set()
    for o in lib.owned(fx, f):
        for _, t in lib.calls(o):
            callees.add(lib.norm(lib.callee(t)[0] or ""))
    k = "%s|edit-source" % f.path
    ctx.inst(rid, k, sample={"uses_definition_and_usages": any(c.endswith("Definition::definition_and_usages") for c in callees)})
    if not any(c.endswith("Definition::definition_and_usages") for c in callees):
        ctx.finding(rid, k, "rename no longer edits the definition together with all recorded usages", f.where)
    bad = [c for c in callees if c.endswith("str::replace") or c.endswith("str::find") or c.endswith("str::matches")]
    k = "%s|no-text-search" % f.path
    ctx.inst(rid, k)
    if bad:
        ctx.finding(rid, k, "rename uses a text search (%s): equally named symbols in other scopes, comments or strings would be edited" % bad, f.where)
    k = "%s|new-name" % f.path
    ctx.inst(rid, k)
    uses_new = any(x.get("k") == "field" and x["name"] == "new_name" for x in lib.hwalk(f.hir["body"]))
    if not uses_new:
        ctx.finding(rid, k, "the edits are not built from params.new_name", f.where)


def run(ctx):
    fx = ctx.facts
    cg = lib.CallGraph(fx)
    r161(ctx, fx, "R15.1")
    r162(ctx, fx, cg, "R15.2")
    r163(ctx, fx, "R15.3")
    r154(ctx, fx)
    ctx.not_decided("that the renamed project assembles to identical bytes; that renaming back restores the text; behaviour on shadowed names on concrete programs")
