"""C15 / C16 — rename, go-to-definition, references (completeness clause only).

 R16.1 analysis-path coverage: every expression, interpolated string and block carried by every Token variant is, on the path the
       language server takes (no active test), fed to a usage-tracking evaluation resp. to emit_tokens — otherwise occurrences there
       are invisible to go-to-definition / references and are not touched by rename (which then changes what the program means)
 R16.2 single resolver: the usage database and the evaluator resolve paths through the same SymbolTable traversal
 R16.3 usages are recorded per path segment with the segment's own sub-span; definitions record the identifier's span
"""
import json
from . import lib

CC = "mos_core::codegen::CodegenContext"
AST = "mos_core::parser::ast::"

EXPR_TYS = (AST + "Located<" + AST + "Expression>",)
LIST_TY = "alloc::vec::Vec<(" + AST + "Located<" + AST + "Expression>, core::option::Option<" + AST + "Located<char>>)>"
ISTR_TYS = (AST + "InterpolatedString", "core::option::Option<" + AST + "InterpolatedString>")
BLOCK_TYS = (AST + "Block", "core::option::Option<" + AST + "Block>")

# fields that are deliberately not evaluated on the analysis path, each confirmed by reading
NOT_ANALYSED_OK = {
    ("Import", "filename"): "a quoted, uninterpolated string (no identifier paths inside)",
    ("Definition", "value"): "config block: its expressions are evaluated key by key through ConfigExtractor (checked by C09 R9.1)",
    ("ConfigPair", "value"): "evaluated through ConfigExtractor by the enclosing `.define`",
    ("Config", "0"): "evaluated through ConfigExtractor by the enclosing `.define`",
    ("MacroDefinition", "block"): "stored in the macro symbol; analysed at every invocation and, when never invoked, by the greedy pass in finalize (checked below)",
}


def arm_of(fn, variant):
    for n in lib.hwalk(fn.hir["body"]):
        if n.get("k") == "match":
            for a in n["arms"]:
                p = a["pat"]
                while p.get("k") == "ref":
                    p = p["sub"]
                vp = (p.get("res") or {}).get("path")
                if vp == AST + "Token::" + variant:
                    return a
            return None
    return None


def field_bindings(arm):
    p = arm["pat"]
    while p.get("k") == "ref":
        p = p["sub"]
    out = {}
    if p.get("k") == "struct":
        for f in p["fields"]:
            bs = [q["name"] for q in lib.hwalk(f["pat"]) if q.get("k") == "bind"]
            if bs:
                out[f["name"]] = bs[0]
    elif p.get("k") == "tstruct":
        for i, q in enumerate(p["pats"]):
            bs = [b["name"] for b in lib.hwalk(q) if b.get("k") == "bind"]
            if bs:
                out[str(i)] = bs[0]
    return out


def uses_with_conditions(body, sink_pred):
    """(call node, conditions stack) for every call accepted by sink_pred; conditions are HIR cond nodes with side"""
    out = []

    def rec(n, conds):
        if isinstance(n, list):
            for x in n:
                rec(x, conds)
            return
        if not isinstance(n, dict):
            return
        if n.get("k") in ("call", "mcall") and sink_pred(n):
            out.append((n, list(conds)))
        if n.get("k") == "if":
            rec(n["cond"], conds)
            rec(n["then"], conds + [("then", n["cond"])])
            if "else" in n:
                rec(n["else"], conds + [("else", n["cond"])])
            return
        if n.get("k") == "match":
            rec(n["scrut"], conds)
            for a in n["arms"]:
                rec(a["body"], conds + [("arm", n["scrut"], a["pat"])])
            return
        for v in n.values():
            if isinstance(v, (dict, list)):
                rec(v, conds)
    rec(body, [])
    return out


def depends_on_active_test(conds):
    for c in conds:
        if "active_test" in repr(lib.hdesc(c[1])):
            # `match &self.options.active_test { Some(..) => …, None => … }`: only the Some arm is test-only
            if c[0] == "arm":
                pk = lib.pat_key(c[2])
                if isinstance(pk, str) and pk.startswith("core::option::Option::None"):
                    continue
            return True
    return False


def aliases(body, name):
    """names bound from `name` by simple lets / if-lets / closures / for loops in the arm (value flows)"""
    names = {name}
    changed = True
    while changed:
        changed = False
        for n in lib.hwalk(body):
            src = None
            pat = None
            if n.get("k") in ("let", "letx") and "init" in n:
                src, pat = n["init"], n["pat"]
            elif n.get("k") == "match" and n.get("src") == "ForLoopDesugar":
                src = n["scrut"]
                pat = None
                for a in lib.hwalk(n):
                    if a.get("k") == "struct" and lib.pm((a.get("res") or {}).get("path"), "Option::Some") and a.get("fields"):
                        pat = a["fields"][0].get("pat")
                        break
            elif n.get("k") == "match" and n.get("src") == "Normal":
                used = {lib.hpath(x) for x in lib.hwalk(n["scrut"]) if x.get("k") == "path" and (x.get("res") or {}).get("dk") == "Local"}
                if used & names:
                    for a in n["arms"]:
                        for q in lib.hwalk(a["pat"]):
                            if q.get("k") == "bind" and q["name"] not in names:
                                names.add(q["name"])
                                changed = True
                continue
            elif n.get("k") == "closure":
                continue
            if src is None or pat is None:
                continue
            used = {lib.hpath(x) for x in lib.hwalk(src) if x.get("k") == "path" and (x.get("res") or {}).get("dk") == "Local"}
            if used & names:
                for q in lib.hwalk(pat):
                    if q.get("k") == "bind" and q["name"] not in names:
                        names.add(q["name"])
                        changed = True
        # closures: .map(|(expr, _)| expr) over a list alias
        for n in lib.hwalk(body):
            if n.get("k") == "mcall" and n.get("args") and lib.strip(n["args"][0]).get("k") == "closure":
                used = {lib.hpath(x) for x in lib.hwalk(n["recv"]) if x.get("k") == "path" and (x.get("res") or {}).get("dk") == "Local"}
                if used & names:
                    for pr in lib.strip(n["args"][0]).get("params", []):
                        for q in lib.hwalk(pr):
                            if q.get("k") == "bind" and q["name"] not in names:
                                names.add(q["name"])
                                changed = True
    return names


def r161(ctx, fx, rid_prefix="R16.1"):
    rid = ctx.rule(rid_prefix, "analysis-path coverage: for every Token variant, each field of type Located<Expression>, expression list, InterpolatedString or Block "
                   "reaches, inside emit_token, a usage-tracking evaluation (evaluate_expression*(…, true) / interpolate(…, true)) respectively emit_tokens, on a path "
                   "that is not control-dependent on `options.active_test` being set; built-in functions evaluate their arguments with the caller's track_usage")
    et = fx.fn(CC + "::emit_token")
    tok = fx.adts.get(AST + "Token")
    if not (et and tok):
        ctx.fail_closed(rid, "emit_token / Token not found")
        return

    def eval_sink(n):
        p = lib.hcallee(n)
        if lib.pm(p, "CodegenContext::evaluate_expression") or lib.pm(p, "CodegenContext::evaluate_expression_as_i64") or \
                lib.pm(p, "CodegenContext::evaluate_expression_as_string"):
            a = lib.hargs(n)
            return len(a) >= 3 and lib.hlit(a[2]) is True
        if lib.pm(p, "Evaluator::interpolate"):
            a = lib.hargs(n)
            return len(a) >= 3 and lib.hlit(a[2]) is True
        # analysis-only walkers (record a usage for every identifier without evaluating; harvested by CodegenContext::track_usages)
        if lib.pm(p, "Evaluator::track_identifiers") or lib.pm(p, "Evaluator::track_interpolated_identifiers"):
            return True
        return False

    def emit_sink(n):
        return lib.pm(lib.hcallee(n), "CodegenContext::emit_tokens")
    n_fields = 0
    for v in tok["variants"]:
        vn = v["name"]
        cands = []
        for f in v["fields"]:
            ty = f["ty"]
            if ty in EXPR_TYS or ty == LIST_TY:
                cands.append((f["name"], "expr"))
            elif ty in ISTR_TYS:
                cands.append((f["name"], "istr"))
            elif ty in BLOCK_TYS:
                cands.append((f["name"], "block"))
            elif ty == AST + "Instruction":
                cands.append((f["name"], "instruction"))
            elif ty.startswith("core::option::Option<alloc::boxed::Box<" + AST + "Token>") or ty.startswith("alloc::boxed::Box<" + AST + "Located<" + AST + "Token"):
                cands.append((f["name"], "nested"))
        if not cands:
            continue
        arm = arm_of(et, vn)
        for fname, kind in cands:
            n_fields += 1
            key = "Token::%s|%s" % (vn, fname)
            if (vn, fname) in NOT_ANALYSED_OK or kind == "nested":
                ctx.inst(rid, key, nontrivial=False)
                continue
            if arm is None:
                ctx.inst(rid, key)
                ctx.finding(rid, key, "emit_token has no arm for Token::%s: occurrences inside its `%s` are invisible to the language server" % (vn, fname), et.where)
                continue
            fb = field_bindings(arm)
            var = fb.get(fname)
            if kind == "instruction":
                var = fb.get("0")
            if var is None:
                ctx.inst(rid, key)
                ctx.finding(rid, key, "the `%s` of Token::%s is not even bound in emit_token: identifiers inside it are never analysed" % (fname, vn),
                            "%s:%s" % (et.file, arm.get("ln")))
                continue
            names = aliases(arm["body"], var)
            sink = emit_sink if kind == "block" else eval_sink
            hits = []
            for call, conds in uses_with_conditions(arm["body"], sink):
                args = lib.hargs(call)
                used = {lib.hpath(x) for a in args[1:2] for x in lib.hwalk(a) if x.get("k") == "path" and (x.get("res") or {}).get("dk") == "Local"}
                if used & names:
                    hits.append((call, conds))
            free = [h for h in hits if not depends_on_active_test(h[1])]
            ctx.inst(rid, key, sample={"field": key, "kind": kind, "analysed_sites": len(hits), "independent_of_active_test": len(free)})
            if not hits:
                ctx.finding(rid, key, "identifiers inside the `%s` of `%s` never reach a usage-tracking evaluation: go-to-definition there answers nothing and "
                            "rename leaves them untouched" % (fname, {"Assert": ".assert", "Trace": ".trace", "Test": ".test"}.get(vn, vn)),
                            "%s:%s" % (et.file, arm.get("ln")))
            elif not free:
                ctx.finding(rid, key, "the `%s` of `%s` is analysed only while a test is active (`options.active_test`): the language server, which never sets it, "
                            "does not see identifiers there" % (fname, {"Assert": ".assert", "Trace": ".trace", "Test": ".test"}.get(vn, vn)),
                            "%s:%s" % (et.file, arm.get("ln")))
    ctx.floor(rid, 25, "analysable token fields")
    # built-in functions must forward track_usage
    for f in sorted(fx.all_fns(), key=lambda f: f.path):
        if f.d.get("impl_trait") == "mos_core::codegen::evaluator::FunctionCallback" and f.path.endswith("::apply") and f.d.get("hir"):
            cnt = 0
            for x, p in lib.hir_calls(f.hir["body"], "Evaluator::evaluate_expression"):
                cnt += 1
                a = lib.hargs(x)
                key = "%s|evaluate#%d" % (f.path, cnt)
                lit = lib.hlit(a[2]) if len(a) >= 3 else None
                ctx.inst(rid, key, sample={"fn": f.path, "track_usage": lit})
                who = (f.d.get("impl_self") or "").rsplit("::", 1)[-1]
                if lit is False and who == "RamFn":
                    continue   # ram()/ram16() are registered by the test runner and the debugger only, never in the language server's analysis
                if lit is False:
                    ctx.finding(rid, key, "the built-in function implemented by %s evaluates its argument with track_usage = false: an identifier inside `%s(…)` is "
                                "invisible to go-to-definition and not renamed" % (who, {"DefinedFn": "defined", "RamFn": "ram"}.get(who, who)),
                                "%s:%s" % (f.file, x.get("ln")))
    # uninvoked macros: the greedy pass emits their block
    fin = fx.fn(CC + "::finalize")
    key = "finalize|greedy-macros"
    ctx.inst(rid, key)
    ok = False
    if fin is not None:
        for call, conds in uses_with_conditions(fin.hir["body"], lambda n: lib.pm(lib.hcallee(n), "CodegenContext::emit_tokens")):
            if any("enable_greedy_analysis" in repr(lib.hdesc(c[1])) for c in conds):
                ok = True
    if not ok:
        ctx.finding(rid, key, "bodies of macros that are never invoked are not analysed (greedy pass missing): their identifiers are invisible to the language server",
                    fin.where if fin else None)
    # the language server enables the greedy pass
    pc = fx.fn("mos::lsp::LspContext::perform_codegen")
    key = "perform_codegen|greedy"
    ctx.inst(rid, key)
    ok = False
    if pc is not None:
        for s in lib.hwalk(pc.hir["body"]):
            if s.get("k") == "struct" and lib.pm(s["res"].get("path"), "CodegenOptions"):
                for fl in s["fields"]:
                    if fl["name"] == "enable_greedy_analysis" and lib.hlit(fl["e"]) is True:
                        ok = True
    if not ok:
        ctx.finding(rid, key, "the language server does not enable greedy analysis: untaken `.if` branches and uninvoked macros are not analysed", pc.where if pc else None)


def r162(ctx, fx, cg, rid_prefix="R16.2"):
    rid = ctx.rule(rid_prefix, "single resolver: Analysis::add_symbol_usage resolves through SymbolTable::query_traversal_steps and Evaluator::get_symbol through "
                   "SymbolTable::query, which itself is built on query_traversal_steps; no other path resolution is reachable from either")
    st = "mos_core::codegen::symbols::SymbolTable::<S>::"
    qts = fx.fn(st + "query_traversal_steps")
    q = fx.fn(st + "query")
    asu = fx.fn("mos_core::codegen::analysis::Analysis::add_symbol_usage")
    gs = fx.fn("mos_core::codegen::evaluator::Evaluator::<'a>::get_symbol")
    if not (qts and q and asu and gs):
        ctx.fail_closed(rid, "query_traversal_steps / query / add_symbol_usage / get_symbol not found")
        return
    for who, root in (("Analysis::add_symbol_usage", asu), ("Evaluator::get_symbol", gs), ("SymbolTable::query", q)):
        key = "%s|resolver" % who
        reach = cg.reach([root.id])
        ctx.inst(rid, key, sample={"from": who, "reaches_query_traversal_steps": qts.id in reach})
        if qts.id not in reach:
            ctx.finding(rid, key, "%s does not resolve paths through SymbolTable::query_traversal_steps: the language server and the assembler can bind the same "
                        "occurrence to different symbols" % who, root.where)


def r163(ctx, fx, rid_prefix="R16.3"):
    rid = ctx.rule(rid_prefix, "add_symbol_usage records one usage per resolved path segment with the sub-span [pos, pos+len(segment)) and advances pos by len+1 (the dot); "
                   "add_symbol records the definition at the identifier's span")
    asu = fx.fn("mos_core::codegen::analysis::Analysis::add_symbol_usage")
    if asu is None:
        ctx.fail_closed(rid, "add_symbol_usage not found")
        return
    key = "add_symbol_usage|subspan"
    ctx.inst(rid, key)
    ok_sub = ok_adv = False
    for x, p in lib.hir_calls(asu.hir["body"], "Span::subspan"):
        a = [lib.hdesc(y) for y in lib.hargs(x)[1:]]
        if len(a) == 2 and a[0] == ("v", "pos") and a[1][0] == "Add" and ("v", "pos") in a[1][1:] and "len" in repr(a[1]):
            ok_sub = True
    for x in lib.hwalk(asu.hir["body"]):
        if x.get("k") == "assignop" and x["op"] == "AddAssign" and lib.hpath(x["l"]) == "pos":
            d = lib.hdesc(x["r"])
            if d[0] == "Add" and ("c", 1) in d[1:] and "len" in repr(d):
                ok_adv = True
    if not (ok_sub and ok_adv):
        ctx.finding(rid, key, "usages of dotted paths are not recorded per segment with the segment's own span (subspan=%s, advance by len+1=%s): renaming one segment "
                    "would edit the wrong characters" % (ok_sub, ok_adv), asu.where)
    ads = fx.fn(CC + "::add_symbol")
    key = "add_symbol|definition-location"
    ctx.inst(rid, key)
    ok = False
    if ads is not None:
        lets = {n["pat"]["name"]: n["init"] for n in lib.hwalk(ads.hir["body"]) if n.get("k") == "let" and n["pat"].get("k") == "bind" and "init" in n}
        for x, p in lib.hir_calls(ads.hir["body"], "Definition::set_location"):
            arg = lib.hargs(x)[1]
            if lib.hpath(arg) in lets:
                arg = lets[lib.hpath(arg)]
            if "span" in repr(lib.hdesc(arg)) or any(s.get("k") == "struct" for s in lib.hwalk(arg)):
                ok = True
    if not ok:
        ctx.finding(rid, key, "add_symbol no longer records the definition's location", ads.where if ads else None)


def r164(ctx, fx):
    rid = ctx.rule("R16.4", "references and highlights are one set: FindReferencesHandler and DocumentHighlightRequestHandler select the definitions at the position the "
                   "same way — Analysis::find_filter with a filter on DefinitionType::Symbol (an imported file is a definition that contains every position of "
                   "the file, but not a symbol) — both keep only the definitions written at the same place as the narrowest match (the one go-to-definition leads to), and both answer "
                   "every place once (`unique` over the spans: what a macro defines exists once per invocation, at the same place)")
    hs = {}
    for f in fx.all_fns("mos"):
        if f.d.get("impl_trait") == "mos::lsp::traits::RequestHandler" and f.path.endswith("::handle") and f.d.get("hir"):
            who = (f.d.get("impl_self") or "").rsplit("::", 1)[-1]
            if who in ("FindReferencesHandler", "DocumentHighlightRequestHandler"):
                hs[who] = f
    if len(hs) != 2:
        ctx.fail_closed(rid, "FindReferencesHandler / DocumentHighlightRequestHandler not found")
        return
    for who, f in sorted(hs.items()):
        body = f.hir["body"]
        ff = [x for x, p in lib.hir_calls(body, "Analysis::find_filter")]
        symbol_only = any("DefinitionType::Symbol" in repr(lib.hdesc(a)) or any("DefinitionType::Symbol" in str(lib.pat_key(q.get("pat", {}))) for q in lib.hwalk(a) if isinstance(q, dict) and "pat" in q)
                          for x in ff for a in lib.hargs(x))
        if not symbol_only:
            symbol_only = any("DefinitionType::Symbol" in json.dumps(x) for x in ff)
        once = any(x.get("k") == "mcall" and x.get("name") in ("unique", "unique_by", "dedup", "dedup_by_key", "dedup_by") for x in lib.hwalk(body)) or \
            any("BTreeSet" in str(x.get("ty", "")) or "HashSet" in str(x.get("ty", "")) for x in lib.hwalk(body))
        # every definition written at the place counts (one per import of the file, per macro invocation, per loop iteration): the handler, or the helper of the
        # analysis it asks, does not pick one of them
        bodies = [body]
        for x, p_ in lib.hir_calls(body):
            if p_ and p_.startswith("mos_core::codegen::analysis::Analysis::") and not p_.endswith(("::find_filter", "::look_up", "::find")):
                g = fx.fn(p_)
                if g is not None and g.d.get("hir"):
                    bodies.append(g.hir["body"])
                    if not symbol_only and any(True for _ in lib.hir_calls(g.hir["body"], "Analysis::find_filter")):
                        symbol_only = "DefinitionType::Symbol" in json.dumps(body)
        # … unless it takes the narrowest one (the one go-to-definition leads to) and goes on with all symbols written at the same place
        picks = [x.get("name") for bd in bodies for x in lib.hwalk(bd) if x.get("k") == "mcall" and x.get("name") in ("first", "next", "nth", "last", "pop", "swap_remove") and
                 any(True for _ in lib.hir_calls(x["recv"], "Analysis::find_filter")) and not any(True for _ in lib.hir_calls(bd, "Analysis::symbols_written_at"))]
        if not symbol_only:
            symbol_only = any("DefinitionType::Symbol" in json.dumps(bd) and any(True for _ in lib.hir_calls(bd, "Analysis::find_filter")) for bd in bodies)
        # only what is written at the same place as the narrowest match belongs to the answer (a `.test "t_{foo}"` contains the position of `foo` too)
        same_place = any(n_.get("k") == "binary" and n_.get("op") in ("Eq", "Ne") and "location" in repr(lib.hdesc(n_)) for bd in bodies for n_ in lib.hwalk(bd))
        k = "%s|selection" % who
        ctx.inst(rid, k, sample={"handler": who, "find_filter_on_symbols": symbol_only, "each_place_once": once, "picks_one_definition": picks,
                                 "restricted_to_the_place_of_the_narrowest": same_place})
        if not same_place:
            ctx.finding(rid, k + "|same-place", "%s answers with the occurrences of every symbol whose definition or usage contains the position: inside `.test \"t_{foo}\"` "
                        "that is `foo` *and* the test, whose span is then reported as an occurrence of `foo` — go-to-definition leads to `foo` alone" % who, f.where)
        if picks:
            ctx.finding(rid, k + "|all-definitions", "%s looks at one of the definitions found at the position only (`%s`): a file that is assembled more than once has one "
                        "copy of its symbols per import, all written at the same place, and the occurrences that reach the symbol through the other imports are "
                        "missing from the answer" % (who, picks[0]), f.where)
        if not symbol_only:
            ctx.finding(rid, k, "%s takes every definition that contains the position: in an imported file that includes the file itself, whose `usages` are the import "
                        "statements and whose range is the whole file — the answer is no longer the set of occurrences of the symbol" % who, f.where)
        if not once:
            ctx.finding(rid, k + "|once", "%s answers with one location per definition and usage without removing duplicates: the symbols of a macro exist once per "
                        "invocation, all defined and used at the same places, so every place is reported once per invocation" % who, f.where)


def r165(ctx, fx):
    rid = ctx.rule("R16.5", "units of a position: `LineCol.column` counts characters (File::find_line_col: `chars().count()`), a `Pos` and every index into the text count "
                   "bytes. In the code map, the analysis database and the source map a column is only compared with columns, shown (+ constant) or stored in a LineCol; "
                   "a column added to a Pos / byte offset, or used as a bound of a text slice, or cut to a `len()` in bytes, puts the position of a request to the "
                   "left of the identifier under the cursor on every line with a non-ASCII character in front of it")
    from .c11 import _anc_walk
    MODS = ("mos_core::parser::code_map::", "mos_core::codegen::analysis::", "mos_core::codegen::source_map::")
    n_reads = 0
    j = 0
    for f in sorted(fx.all_fns("mos_core"), key=lambda f: f.path):
        if "::tests::" in f.path or not f.d.get("hir") or f.kind == "closure" or not f.path.startswith(MODS) or f.path.rsplit("::", 1)[-1].startswith("test_"):
            continue
        body = f.hir["body"]

        def is_col(x):
            return x.get("k") == "field" and x.get("name") == "column" and "LineCol" in str(lib.strip(x.get("a", x.get("recv", {}))).get("ty", "")) + str(
                lib.strip(x.get("a", x.get("recv", {}))).get("aty", ""))
        carriers = set()

        def is_colval(e, depth=0):
            """the value of the expression is a column: the field itself, a carrier, a cast / min / max / sum of one — not the answer of some other function
            that was given a column (`char_indices().nth(column)` is a number of bytes)"""
            e = lib.strip(e)
            if depth > 6 or not isinstance(e, dict):
                return False
            if is_col(e) or (e.get("k") == "path" and lib.hpath(e) in carriers):
                return True
            if e.get("k") == "cast" or (e.get("k") == "unary" and e.get("op") == "Deref"):
                return is_colval(e.get("a"), depth + 1)
            if e.get("k") == "binary" and e.get("op") in ("Add", "Sub"):
                return is_colval(e["l"], depth + 1) or is_colval(e["r"], depth + 1)
            if e.get("k") in ("mcall", "call") and (e.get("name") in ("min", "max") or str(lib.hcallee(e) or "").endswith(("::min", "::max"))):
                return any(is_colval(a, depth + 1) for a in ([e["recv"]] if e.get("recv") else []) + list(e.get("args") or []))
            return False
        for _ in range(3):
            for n in lib.hwalk(body):
                if n.get("k") == "let" and "init" in n and is_colval(n["init"]):
                    carriers |= {q["name"] for q in lib.hwalk(n["pat"]) if q.get("k") == "bind"}
        for x, anc in _anc_walk(body):
            if not (is_col(x) or (x.get("k") == "path" and lib.hpath(x) in carriers)):
                continue
            n_reads += 1
            bad = None
            child = x
            for p_, key in reversed(anc):
                k = p_.get("k")
                if k == "cast" or k == "addrof" or (k == "block" and key == "expr") or (k == "unary" and p_.get("op") == "Deref"):
                    child = p_
                    continue
                if k == "binary" and p_.get("op") == "Sub" and is_colval(p_["l"]) and is_colval(p_["r"]):
                    # a difference of two columns is a width only on one line: the span of a whole file ends in column 0
                    same_line = any(q.get("k") == "if" and any(z.get("k") == "binary" and z.get("op") == "Eq" and sum(
                        1 for w in lib.hwalk(z) if w.get("k") == "field" and w.get("name") == "line") >= 2 for z in lib.hwalk(q["cond"])) for q, _ in anc)
                    if not same_line:
                        bad = "subtracted from another column without a test that both lie on one line"
                    break
                if k == "binary" and p_.get("op") in ("Add", "Sub"):
                    other = p_["r"] if p_["l"] is child else p_["l"]
                    if lib.hlit(lib.strip(other)) is None or "Pos" in str(p_.get("ty", "")):
                        # a column plus something that is not a constant: a position in another unit
                        if not any(is_col(y) or (y.get("k") == "path" and lib.hpath(y) in carriers) for y in lib.hwalk(other)):
                            bad = "added to `%s`" % (str(lib.strip(other).get("ty", "?")))
                    child = p_
                    continue
                if k == "index" or (k == "struct" and "Range" in str((p_.get("res") or {}).get("path", ""))):
                    bad = "used as a bound of a slice / an index"
                if k in ("mcall", "call") and (p_.get("name") in ("min", "max") or str(lib.hcallee(p_) or "").endswith(("::min", "::max"))):
                    others = [a for a in ([p_.get("recv")] if p_.get("recv") else []) + list(p_.get("args") or []) if a is not child]
                    if any(y.get("k") == "mcall" and y.get("name") == "len" for o in others for y in lib.hwalk(o)):
                        bad = "cut to a `len()`, which counts bytes"
                break
            if bad:
                j += 1
                ctx.finding(rid, "%s|column-as-bytes#%d" % (f.path, j),
                            "%s takes a column, which counts characters, for a number of bytes (%s): with a character of more than one byte in front of the cursor the "
                            "position looked up lies to the left of the one the client asked about — go-to-definition, references and highlights answer for the "
                            "neighbouring identifier or not at all" % (f.path.rsplit("::", 1)[-1], bad), "%s:%s" % (f.file, x.get("ln")))
    ctx.inst(rid, "column-reads", sample={"reads_of_a_column_examined": n_reads})
    if n_reads < 6:
        ctx.fail_closed(rid, "fewer than 6 reads of LineCol.column found in the code map, the analysis and the source map (%d)" % n_reads)


def r166(ctx, fx, rid_name="R16.6"):
    rid = ctx.rule(rid_name, "what is recorded as a usage depends on the program, not on what the code generator remembers: whether Analysis::add_symbol_usage / add_definition "
                   "is called is decided by the usage itself, the options and the symbol table — never by another field of the context (a memo of what was `already "
                   "recorded` survives the pass, the usage database does not: from the second pass on the memo answers and the final database misses the entry; rename, "
                   "references and highlights then leave occurrences out)")
    from .c11 import _anc_walk
    # (where in the scope tree the generator stands is part of what the program says there, not something remembered)
    ALLOWED = ("options", "symbols", "analysis", "current_scope", "current_scope_nx")
    n = 0
    for f in sorted(fx.all_fns("mos_core"), key=lambda f: f.path):
        if f.kind == "closure" or not f.d.get("hir") or "::tests::" in f.path or not f.path.startswith("mos_core::codegen::CodegenContext::"):
            continue
        body = f.hir["body"]
        lets = {}
        for y in lib.hwalk(body):
            if y.get("k") in ("let", "letx") and "init" in y:
                for q in lib.hwalk(y["pat"]):
                    if q.get("k") == "bind":
                        lets.setdefault(q["name"], []).append(y["init"])

        def state_fields(e, depth=0, seen=None, site=None):
            """fields of `self` (other than the allowed ones) that the expression reads, through locals"""
            seen = seen if seen is not None else set()
            out = set()
            for y in lib.hwalk(e):
                if y.get("k") == "field" and lib.hpath(lib.strip(y.get("a", {}))) in ("self", "s") and y.get("name") not in ALLOWED:
                    if "CodegenContext" in str(lib.strip(y.get("a", {})).get("ty", "")) + str(lib.strip(y.get("a", {})).get("aty", "")):
                        out.add(y["name"])
                if y.get("k") == "path" and depth < 3:
                    nm = lib.hpath(y)
                    if nm in lets and nm not in seen:
                        seen.add(nm)
                        for i in lets[nm]:
                            # (a shadowing `let x = match x { … }` whose initialiser contains the call itself is not where the tested value comes from)
                            if site is not None and any(z is site for z in lib.hwalk(i)):
                                continue
                            out |= state_fields(i, depth + 1, seen, site)
            return out
        for x, anc in _anc_walk(body):
            if not (x.get("k") == "mcall" and x.get("name") in ("add_symbol_usage", "add_definition", "set_definition", "remove_definition") and
                    "Analysis" in str(x.get("path", ""))):
                continue
            n += 1
            bad = set()
            for p_, key in anc:
                if p_.get("k") == "if" and key in ("then", "else"):
                    bad |= state_fields(p_["cond"], site=x)
                if p_.get("k") == "match" and key == "arms":
                    bad |= state_fields(p_["scrut"], site=x)
                    for a in p_["arms"]:
                        if a.get("guard") is not None and any(y is x for y in lib.hwalk(a["body"])):
                            bad |= state_fields(a["guard"], site=x)
            key = "%s|%s#%d" % (f.path, x.get("name"), n)
            ctx.inst(rid, key, sample={"fn": f.path, "line": x.get("ln"), "depends_on_context_fields": sorted(bad)})
            if bad:
                ctx.finding(rid, key, "%s records a usage only if the context's %s allow it: what the code generator remembers from earlier (passes, iterations) decides "
                            "what the language server knows about the program — occurrences that were `seen before` are missing from the final usage database" % (
                                f.path.rsplit("::", 1)[-1], " / ".join("`%s`" % b for b in sorted(bad))), "%s:%s" % (f.file, x.get("ln")))
    if n < 2:
        ctx.fail_closed(rid, "fewer than 2 calls that feed the usage database found in CodegenContext (%d)" % n)


def r167(ctx, fx):
    rid = ctx.rule("R16.7", "a symbol's place in the symbol table is the key of what the language server knows about it (definition, usages), and the table hands the place of a "
                   "removed symbol to the next one inserted: while code is generated no symbol is taken out of the table (`SymbolTable::remove` / `remove_all` are called "
                   "by no method of the code generator) — the `index` of a loop that is removed after its iteration gives its place, and its references, to the `index` of "
                   "the next loop")
    n = 0
    hits = []
    for f in sorted(fx.all_fns("mos_core"), key=lambda f: f.path):
        if not f.blocks or "::tests::" in f.path or not f.path.startswith("mos_core::codegen::CodegenContext::"):
            continue
        n += 1
        for bi, t in lib.calls(f):
            p = lib.norm(lib.callee(t)[0] or "")
            if p.endswith(("SymbolTable::remove", "SymbolTable::remove_all")):
                hits.append((f, t.get("line")))
    ctx.inst(rid, "codegen|no-symbol-removed", sample={"methods_of_the_code_generator": n, "removals": [(f.path.rsplit("::", 1)[-1], ln) for f, ln in hits]})
    if n < 40:
        ctx.fail_closed(rid, "fewer than 40 methods of the code generator found (%d)" % n)
    for f, ln in hits:
        ctx.finding(rid, "%s|symbol-removed" % f.path, "%s takes a symbol out of the table while code is generated: its place goes to the next symbol inserted, and go-to-definition, "
                    "references and highlights of the two are mixed up or lost" % f.path.rsplit("::", 1)[-1], "%s:%s" % (f.file, ln))


def run(ctx):
    fx = ctx.facts
    cg = lib.CallGraph(fx)
    r165(ctx, fx)
    r167(ctx, fx)
    r166(ctx, fx)
    r161(ctx, fx)
    r162(ctx, fx, cg)
    r163(ctx, fx)
    r164(ctx, fx)
    ctx.not_decided("which occurrence binds to which definition on concrete programs; that find-references equals the inverse of go-to-definition; document highlights")
