"""C17 — format-document edits reproduce the formatter (structural clauses).

 R17.1 units: a value derived from a UTF-8 byte length / byte offset never becomes an LSP `character` (or a semantic-token
       length / start)                                                                     [taint BYTELEN → lsp_types positions]
 R17.2 formatting answers are only computed when the project has no diagnostics
 R17.3 the language server calls the same formatting::format as `mos format`, with FormattingOptions::default()
 R17.4 edits are emitted in document order by a single forward pass whose position tracker advances over every deleted and
       every unchanged chunk and over no inserted chunk
"""
from . import lib, taint

BYTE_SOURCES = ["str::len", "String::len", "str::find", "str::rfind", "Identifier::len", "str::match_indices", "str::char_indices", "char::len_utf8",
                "methods::len_utf8"]
LEN_CARRIER = taint.make_carrier(taint._INTS)


def r171(ctx, fx, scope_prefix="mos::lsp::formatting", rid_name="R17.1"):
    rid = ctx.rule(rid_name, "label BYTELEN (results of str::len / String::len / str::find / Identifier::len …) must not be stored into lsp_types::Position.character, "
                   "lsp_types::Position.line, SemanticToken.length or SemanticToken.delta_start; chars().count() / encode_utf16().count() produce unlabelled values")
    T = taint.Taint(fx, "BYTELEN", source_calls=BYTE_SOURCES, carrier=LEN_CARRIER,
                    kill=tuple(k for k in taint.DEFAULT_KILL if k != "::len" and k != "::count") + ("Iterator::count", "::is_empty"),
                    local_only=("mos_core::parser::code_map::",))
    SINKS = {"lsp_types::Position": ("line", "character"), "lsp_types::semantic_tokens::SemanticToken": ("delta_line", "delta_start", "length")}
    seen = {}
    n = 0
    for f in sorted(fx.all_fns("mos"), key=lambda f: f.path):
        if "::tests::" in f.path or "::testing" in f.path or not f.path.lstrip("<").startswith("mos::lsp"):
            continue
        in_scope = f.path.lstrip("<").startswith(scope_prefix) if isinstance(scope_prefix, str) else not f.path.lstrip("<").startswith(scope_prefix[0])
        for bi, si, s in lib.stmts(f):
            if s["k"] != "assign":
                continue
            rv = s["rv"]
            hits = []
            if rv["k"] == "agg" and rv.get("adt") in SINKS:
                for i, op in enumerate(rv["ops"]):
                    fld = rv["fields"][i] if i < len(rv.get("fields", [])) else str(i)
                    if fld in SINKS[rv["adt"]]:
                        n += 1
                        if T.op_tainted(f.id, op):
                            hits.append((rv["adt"], fld, op))
            # direct field store  pos.character = x
            for e in (s["dst"].get("p") or []):
                if isinstance(e, dict) and e.get("of") in SINKS and e.get("n") in SINKS[e["of"]]:
                    n += 1
                    srcop = rv.get("op") if rv["k"] in ("use", "cast") else None
                    if srcop is not None and T.op_tainted(f.id, srcop):
                        hits.append((e["of"], e["n"], srcop))
            for adt, fld, op in hits:
                if not in_scope:
                    continue
                seen[f.path] = seen.get(f.path, 0) + 1
                key = "%s|%s.%s#%d" % (f.path, adt.rsplit("::", 1)[1], fld, seen[f.path])
                why = T.explain(f.id, lib.op_place(op)["l"]) if lib.op_place(op) else "?"
                ctx.inst(rid, key, sample={"fn": f.path, "field": "%s.%s" % (adt.rsplit("::", 1)[1], fld), "line": s.get("line"), "flow": why})
                ctx.finding(rid, key, "%s stores a UTF-8 byte length/offset into %s.%s: for text containing non-ASCII characters the positions sent to the client are "
                            "wrong (edits delete or overwrite the wrong characters)" % (f.path, adt.rsplit("::", 1)[1], fld), "%s:%s" % (f.file, s.get("line")), flow=why)
    ctx.extra["position_constructions_examined"] = n
    ctx.inst(rid, "scan", sample={"position_field_stores_examined": n, "labelled_fields": sorted("%s.%s" % k for k in T.fields)})
    if n < 10:
        ctx.fail_closed(rid, "fewer than 10 constructions of LSP positions found in mos::lsp (%d)" % n)


def r172_173(ctx, fx):
    rid2 = ctx.rule("R17.2", "do_formatting computes edits only under `ctx.error.is_empty()`; otherwise it answers None")
    rid3 = ctx.rule("R17.3", "the language server formats with mos_core::formatting::format — the function `mos format` calls — and passes FormattingOptions::default(); "
                    "both formatting request handlers go through the same helper")
    df = fx.fn("mos::lsp::formatting::do_formatting")
    fc = fx.fn("mos::commands::format::format_command")
    if not (df and fc):
        ctx.fail_closed(rid2, "do_formatting / format_command not found")
        return
    k = "do_formatting|guard"
    ctx.inst(rid2, k)
    ok = False
    for n in lib.hwalk(df.hir["body"]):
        if n.get("k") == "if":
            c = lib.hdesc(n["cond"])
            if c[0] == "m" and c[1].endswith("Diagnostics::is_empty") and "'error'" in repr(c):
                inside = any(True for _ in lib.hir_calls(n["then"], "formatting::format"))
                outside = any(True for _ in lib.hir_calls(n.get("else", {}), "formatting::format"))
                if inside and not outside:
                    ok = True
    total = sum(1 for _ in lib.hir_calls(df.hir["body"], "formatting::format"))
    if not ok or total != 1:
        ctx.finding(rid2, k, "the language server formats a buffer although the project has diagnostics (a partially parsed file would be rewritten)", df.where)
    k = "do_formatting|same-formatter"
    ctx.inst(rid3, k)
    lsp_fmt = [lib.hdesc(x["args"][2]) for x, p in lib.hir_calls(df.hir["body"], "mos_core::formatting::format")]
    cli_fmt = [p for x, p in lib.hir_calls(fc.hir["body"], "mos_core::formatting::format")]
    if not lsp_fmt or not cli_fmt:
        ctx.finding(rid3, k, "the CLI and the language server no longer share mos_core::formatting::format", df.where)
    elif lsp_fmt[0][:2] != ("call", "core::default::Default::default") and "default" not in repr(lsp_fmt[0]):
        ctx.finding(rid3, k, "the language server does not format with FormattingOptions::default(): %s" % (lsp_fmt[0],), df.where)
    for hn in ("FormattingRequestHandler", "OnTypeFormattingRequestHandler"):
        fns = [f for f in fx.all_fns("mos") if f.d.get("impl_self") == "mos::lsp::formatting::" + hn and f.d.get("impl_trait") == "mos::lsp::traits::RequestHandler" and f.path.endswith("::handle")]
        k = "%s|helper" % hn
        ctx.inst(rid3, k)
        if len(fns) != 1 or not any(lib.callee(t)[0] == df.path for _, t in lib.calls(fns[0])):
            ctx.finding(rid3, k, "%s does not answer through do_formatting" % hn, fns[0].where if fns else None)


def r174(ctx, fx):
    rid = ctx.rule("R17.4", "get_text_edits: one forward loop over the diff chunks; the position tracker (RangeKeeper::push) is advanced for every Delete and Equal chunk "
                   "and never for an Insert chunk; each edit's range is taken from the tracker *before* it is advanced")
    g = fx.fn("mos::lsp::formatting::get_text_edits")
    if g is None:
        ctx.fail_closed(rid, "get_text_edits not found")
        return
    m = None
    for n in lib.hwalk(g.hir["body"]):
        if n.get("k") == "match" and lib.strip(n["scrut"]).get("k") == "tup":
            m = n
    if m is None:
        ctx.fail_closed(rid, "chunk match not found in get_text_edits")
        return
    for i, a in enumerate(m["arms"]):
        p = a["pat"]
        first = p["pats"][0] if p.get("k") == "tuple" else None
        kind = (lib.pat_key(first) or "") if first else "?"
        kinds = [str(lib.pat_key(q)) for q in p.get("pats", [])]
        chunk_kinds = [k.split("Chunk::")[1].split("(")[0] if "Chunk::" in k else "_" for k in kinds]
        binds_ = [[b["name"] for b in lib.hwalk(q) if b.get("k") == "bind"] for q in p.get("pats", [])]
        pushes = [lib.hdesc(lib.hargs(x)[1]) for x, pp in lib.hir_calls(a["body"], "RangeKeeper::push")]
        ranges = [x for x, pp in lib.hir_calls(a["body"], "RangeKeeper::to_range")]
        key = "get_text_edits|arm%d|%s" % (i, "+".join(chunk_kinds))
        ctx.inst(rid, key, sample={"chunks": chunk_kinds, "advances_over": [repr(x)[:40] for x in pushes]})
        # names bound to Insert chunks must not be pushed; Delete/Equal must be covered by a push
        ins_names = {b for ck, bs in zip(chunk_kinds, binds_) if ck == "Insert" for b in bs}
        del_eq_names = {b for ck, bs in zip(chunk_kinds, binds_) if ck in ("Delete", "Equal") for b in bs}
        pushed_names = set()
        for d in pushes:
            pushed_names |= {t[1] for t in lib.subterms(d) if isinstance(t, tuple) and len(t) == 2 and t[0] == "v"}
        # a let-bound concatenation `let del = format!("{}{}", del, eq)` shadows: resolve through lets
        lets = {}
        expansion_temps = {s["pat"]["name"] for s in lib.hwalk(a["body"]) if s.get("k") == "let" and s["pat"].get("k") == "bind" and (s.get("exp") or s["pat"].get("exp"))}
        expansion_temps |= {"args"}     # the temporaries of format_args!: their users mention the formatted values directly as well
        for s in lib.hwalk(a["body"]):
            if s.get("k") == "let" and s["pat"].get("k") == "bind" and "init" in s and s["pat"]["name"] not in expansion_temps:
                used = {lib.hpath(x) for x in lib.hwalk(s["init"]) if x.get("k") == "path" and (x.get("res") or {}).get("dk") == "Local"} - expansion_temps
                lets.setdefault(s["pat"]["name"], set()).update(used)
        covered = set(pushed_names)
        for nm in list(pushed_names):
            covered |= lets.get(nm, set())
        # what the tracker is advanced over, resolved through the arm's lets down to the names the chunk patterns bind.  A let that shadows a
        # pattern name (`let del = format!("{}{}", del, eq)`) refers to the pattern names in its initialiser.
        def resolve(nm, depth=4, shadow_ok=True):
            if nm in lets and depth:
                out = set()
                for u in lets[nm]:
                    out |= {u} if (u == nm or u not in lets) else resolve(u, depth - 1)
                return out
            return {nm}
        advanced_over = set()
        for nm in pushed_names:
            advanced_over |= resolve(nm)
        ins_pushed = sorted(advanced_over & ins_names)
        if len(chunk_kinds) > 1 and pushes and ins_pushed:
            ctx.finding(rid, key + "|inserted-text", "the position tracker is advanced over text that contains the inserted chunk `%s`: the tracker follows the *old* "
                        "buffer, so every later edit on that line is misplaced (and overlaps this one) whenever a line break sits differently in the old and the "
                        "new text" % ins_pushed[0], "%s:%s" % (g.file, a.get("ln")))
        if len(chunk_kinds) > 1 and pushes and not (del_eq_names <= advanced_over):
            ctx.finding(rid, key + "|consumed-text", "the position tracker is not advanced over all of the consumed chunks %s of a merged edit" % sorted(del_eq_names - advanced_over),
                        "%s:%s" % (g.file, a.get("ln")))
        if chunk_kinds[0] == "Insert" and pushes:
            ctx.finding(rid, key, "the position tracker is advanced over inserted text: every later edit is shifted", "%s:%s" % (g.file, a.get("ln")))
        if chunk_kinds[0] in ("Delete", "Equal") and not (del_eq_names & covered):
            ctx.finding(rid, key, "the position tracker is not advanced over a %s chunk: every later edit is shifted" % chunk_kinds[0], "%s:%s" % (g.file, a.get("ln")))
        if chunk_kinds[0] in ("Delete", "Insert") and len(ranges) != 1:
            ctx.finding(rid, key, "an edit-producing arm must take exactly one range from the tracker", "%s:%s" % (g.file, a.get("ln")))
        if ranges and pushes:
            # to_range before push (statement order = line/col order)
            r0 = (ranges[0].get("ln"), ranges[0].get("col"))
            p0 = min((x.get("ln"), x.get("col")) for x, pp in lib.hir_calls(a["body"], "RangeKeeper::push"))
            if p0 < r0:
                ctx.finding(rid, key, "the edit's range is taken after the tracker was advanced", "%s:%s" % (g.file, a.get("ln")))
    if len(m["arms"]) < 5:
        ctx.fail_closed(rid, "expected 5 chunk arms, found %d" % len(m["arms"]))


def r175(ctx, fx):
    rid = ctx.rule("R17.5", "positions of formatting edits count UTF-16 code units throughout: label CHARCOL (the `column` of a code-map LineCol, which counts "
                   "characters) must not be stored into lsp_types::Position.character inside the formatting module — added to a UTF-16 count it puts every edit "
                   "behind a character outside the BMP one unit too far left")
    T = taint.Taint(fx, "CHARCOL", source_fields=(("code_map::LineCol", "column"),), carrier=LEN_CARRIER,
                    kill=tuple(k for k in taint.DEFAULT_KILL if k != "::len" and k != "::count") + ("::is_empty",))
    n = 0
    seen = {}
    for f in sorted(fx.all_fns("mos"), key=lambda f: f.path):
        if "::tests::" in f.path or not f.path.lstrip("<").startswith("mos::lsp::formatting"):
            continue
        for bi, si, st in lib.stmts(f):
            if st["k"] != "assign":
                continue
            rv = st["rv"]
            hits = []
            if rv["k"] == "agg" and rv.get("adt") == "lsp_types::Position":
                for i, op in enumerate(rv["ops"]):
                    fld = rv["fields"][i] if i < len(rv.get("fields", [])) else str(i)
                    if fld == "character":
                        n += 1
                        if T.op_tainted(f.id, op):
                            hits.append(op)
            for e in (st["dst"].get("p") or []):
                if isinstance(e, dict) and e.get("of") == "lsp_types::Position" and e.get("n") == "character":
                    n += 1
                    srcop = rv.get("op") if rv["k"] in ("use", "cast") else None
                    if srcop is not None and T.op_tainted(f.id, srcop):
                        hits.append(srcop)
            for op in hits:
                seen[f.path] = seen.get(f.path, 0) + 1
                key = "%s|Position.character#%d" % (f.path, seen[f.path])
                ctx.inst(rid, key, sample={"fn": f.path, "line": st.get("line")})
                ctx.finding(rid, key, "%s puts a column that counts characters (code-map LineCol) into the `character` of an edit position, which counts UTF-16 code "
                            "units: an emoji in front of the first difference shifts the edits of that line" % f.path, "%s:%s" % (f.file, st.get("line")))
    ctx.inst(rid, "scan", sample={"position_character_stores_examined": n})
    if n < 2:
        ctx.fail_closed(rid, "fewer than 2 constructions of Position.character found in the formatting module (%d)" % n)


def r176(ctx, fx):
    rid = ctx.rule("R17.6", "the edits are computed against the buffer as the client has it: the first argument of get_text_edits in do_formatting is the stored text of "
                   "the document itself (`File::source()`), not a copy that went through `replace` / `trim` / a helper — ranges computed on a text with other line "
                   "ends or other characters do not cover what differs in the client's text (a `\\r` that is never inside any range stays)")
    df = fx.fn("mos::lsp::formatting::do_formatting")
    if df is None or not df.d.get("hir"):
        ctx.fail_closed(rid, "do_formatting not found")
        return
    calls = [x for x, p in lib.hir_calls(df.hir["body"]) if p and p.endswith("formatting::get_text_edits")]
    key = "do_formatting|diff-against-the-buffer"
    if len(calls) != 1:
        ctx.fail_closed(rid, "expected one call of get_text_edits in do_formatting, found %d" % len(calls))
        return
    lets = {}
    for n in lib.hwalk(df.hir["body"]):
        if n.get("k") in ("let", "letx") and "init" in n and n["pat"].get("k") == "bind":
            lets[n["pat"]["name"]] = n["init"]
    e = lib.strip(lib.hargs(calls[0])[0])
    chain = []
    for _ in range(6):
        chain.append(e)
        nm = lib.hpath(e)
        if nm in lets:
            e = lib.strip(lets[nm])
        else:
            break
    callees = [p for c in chain for x, p in lib.hir_calls(c) if p]
    plain = bool(callees) and all(lib.pm(p, "File::source") or p.endswith(("::deref", "::as_str", "::as_ref", "::borrow")) for p in callees)
    ctx.inst(rid, key, sample={"old_text_comes_from": [p.rsplit("::", 2)[-2] + "::" + p.rsplit("::", 1)[-1] for p in callees]})
    if not plain:
        ctx.finding(rid, key, "do_formatting diffs the formatted text against something other than the stored document text (%s): the edits fit that other text, "
                    "not the buffer the client applies them to" % ", ".join(p.rsplit("::", 1)[-1] for p in callees if not lib.pm(p, "File::source")) or "no source() call",
                    "%s:%s" % (df.file, calls[0].get("ln")))


def r177(ctx, fx):
    rid = ctx.rule("R17.7", "the edits a handler answers are the edits that were computed: in the two formatting handlers nothing cuts, filters or shortens the list that "
                   "do_formatting returned (`take_while`, `filter`, `take`, `skip`, `truncate`, `retain`, `drain`, `pop`, a slice of it) — a prefix of the list is in range, "
                   "ordered and non-overlapping, and leaves the buffer half formatted")
    CUT = ("take_while", "skip_while", "filter", "filter_map", "take", "skip", "truncate", "retain", "drain", "pop", "remove", "split_off", "swap_remove", "step_by", "dedup")
    hs = [f for f in fx.all_fns("mos") if f.d.get("hir") and "::tests::" not in f.path and f.path.startswith(("mos::lsp::formatting::", "<mos::lsp::formatting::")) and
          any(True for _ in lib.hir_calls(f.hir["body"], "formatting::do_formatting"))]
    if len(hs) < 2:
        ctx.fail_closed(rid, "fewer than 2 handlers that call do_formatting found (%d)" % len(hs))
    for f in sorted(hs, key=lambda f: f.path):
        cuts = []
        for x in lib.hwalk(f.hir["body"]):
            if x.get("k") == "mcall" and x.get("name") in CUT:
                rty = str(lib.strip(x["recv"]).get("ty", "")) + str(lib.strip(x["recv"]).get("aty", ""))
                if "TextEdit" in rty:
                    cuts.append((x.get("name"), x.get("ln")))
            if x.get("k") == "index" and "TextEdit" in str(lib.strip(x.get("a", {})).get("ty", "")):
                cuts.append(("slice", x.get("ln")))
        key = "%s|edits-unchanged" % f.path
        ctx.inst(rid, key, sample={"handler": f.path, "cuts": cuts})
        if cuts:
            ctx.finding(rid, key, "%s shortens the list of edits (`%s`) before it answers: the client gets a part of what turns its buffer into the formatted text" % (
                f.path.rstrip(">").rsplit("::", 1)[-1], cuts[0][0]), "%s:%s" % (f.file, cuts[0][1]))


def run(ctx):
    fx = ctx.facts
    r177(ctx, fx)
    r171(ctx, fx)
    r172_173(ctx, fx)
    r174(ctx, fx)
    r175(ctx, fx)
    r176(ctx, fx)
    ctx.not_decided("that applying the edits yields exactly the formatted text on concrete buffers; overlap/ordering of edits on concrete diffs; UTF-16 vs code-point "
                    "counting for characters outside the BMP")
