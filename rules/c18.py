"""C18 — unit-test verdicts reflect the emulated machine state (structural clauses).

 R18.1 pending assertions/traces are immutable during a run: TestRunner.test_elements is written only by the constructor
 R18.2 tables: flag name ↔ status-register mask ↔ documentation; register symbols produced ⊇ consumed; ram16 = lo + 256·hi with lo = first byte
 R18.3 polarity: an assertion fails iff it evaluates to Number(0) or to nothing; success only at a BRK opcode, and only after the
       assertions at that address were evaluated; `mos test` returns 1 iff some test failed and main exits with it
 R18.4 the memory accessors never slice RAM with an unchecked address + length (ram16($ffff))
"""
import json
import os

from . import lib

HERE = os.path.dirname(os.path.abspath(__file__))
TR = "mos::test_runner::TestRunner"


def r181(ctx, fx):
    rid = ctx.rule("R18.1", "field-effect: TestRunner.test_elements is assigned / mutably borrowed only in TestRunner::new — an assertion that fired once is still pending "
                   "when execution reaches its address again (loops, subroutines)")
    adt = fx.adts.get(TR)
    if not adt:
        ctx.fail_closed(rid, "TestRunner not found")
        return
    writers = {}
    for f in fx.all_fns("mos"):
        if "::tests::" in f.path:
            continue
        for of, n, kind, bi, line in lib.writes_of(f):
            if of == TR and n == "test_elements":
                writers.setdefault(f.path, []).append((kind, line))
    ctx.inst(rid, "%s.test_elements|writers" % TR, sample={"writers": sorted(writers)})
    fields = [f_["name"] for f_ in adt["variants"][0]["fields"]]
    if "test_elements" not in fields:
        ctx.fail_closed(rid, "TestRunner has no field test_elements any more (fields: %s)" % fields)
    for w, sites in sorted(writers.items()):
        k = "%s.test_elements|%s" % (TR, w)
        ctx.inst(rid, k)
        if w != TR + "::new":
            ctx.finding(rid, k, "%s mutates the list of pending assertions (%s, line %s): an assertion is consumed the first time execution reaches it — inside a loop it is "
                        "checked in the first iteration only, so a test whose assertion fails later still passes" % (w.rsplit("::", 1)[1], sites[0][0], sites[0][1]),
                        None)


def r182(ctx, fx):
    rid = ctx.rule("R18.2", "ensure_cpu_symbols defines cpu.flags.<name> = flags & <mask> with the masks of the 6502 status register and the documented names; cpu.sp/a/x/y "
                   "are read from the keys TestRunner::registers produces; ram16 = 256·hi + lo with lo the first byte read")
    with open(os.path.join(os.path.dirname(HERE), "ref", "cpu_flags.json")) as fh:
        ref = json.load(fh)
    f = fx.fn("mos_core::codegen::symbols::<impl mos_core::codegen::symbols::SymbolTable<mos_core::codegen::Symbol>>::ensure_cpu_symbols")
    if f is None:
        cands = fx.find("::ensure_cpu_symbols")
        f = cands[0] if len(cands) == 1 else None
    if f is None:
        ctx.fail_closed(rid, "ensure_cpu_symbols not found")
        return
    got_flags, got_regs = {}, {}
    for x in lib.hwalk(f.hir["body"]):
        if x.get("k") == "call" and lib.hpath(x["f"]) == "add" and len(x["args"]) == 4:
            name = lib.hlit(x["args"][1])
            d = lib.hdesc(x["args"][2])
            masks = [t for t in lib.subterms(d) if isinstance(t, tuple) and len(t) == 3 and t[0] == "BitAnd"]
            if masks:
                c = [y[1] for y in masks[0][1:] if isinstance(y, tuple) and y[0] == "c"]
                v = [y[1] for y in masks[0][1:] if isinstance(y, tuple) and y[0] == "v"]
                got_flags[name] = (c[0] if c else None, v[0] if v else None)
            else:
                keys = [t[-1][1] for t in lib.subterms(d) if isinstance(t, tuple) and t and t[0] == "m" and str(t[1]).endswith("HashMap::get") and isinstance(t[-1], tuple)]
                got_regs[name] = keys[0] if keys else None
    for name, mask in ref["flags"].items():
        k = "%s|flag|%s" % (f.path, name)
        ctx.inst(rid, k, sample={"flag": name, "mask": got_flags.get(name)})
        g = got_flags.get(name)
        if g is None or g[0] != mask or g[1] != "flags":
            ctx.finding(rid, k, "cpu.flags.%s is computed as %s; the 6502 status register has it at mask %d" % (name, g, mask), f.where)
    extra = sorted(set(got_flags) - set(ref["flags"]))
    if extra:
        ctx.finding(rid, "%s|flag|extra" % f.path, "undocumented cpu flags: %s" % extra, f.where)
    reg = fx.fn(TR + "::registers")
    produced = set()
    if reg is not None:
        for x, p in lib.hir_calls(reg.hir["body"], "HashMap::insert"):
            v = lib.hlit(x["args"][0]) if lib.hlit(x["args"][0]) is not None else None
            if v is None:
                # "SP".into()
                for y in lib.hwalk(x["args"][0]):
                    if y.get("k") == "lit" and y.get("lk") == "str":
                        v = y["v"]
            getter = [lib.norm(pp) for _, pp in lib.hir_calls(x["args"][1]) if pp and "MOS6502" in pp]
            produced.add(v)
            want_getter = {"SP": "get_stack_pointer", "A": "get_accumulator", "X": "get_x_register", "Y": "get_y_register"}.get(v)
            k = "%s|%s" % (reg.path, v)
            ctx.inst(rid, k, sample={"register": v, "getter": getter})
            if not want_getter or not any(g.endswith(want_getter) for g in getter):
                ctx.finding(rid, k, "register %s is filled from %s" % (v, getter), reg.where)
    else:
        ctx.fail_closed(rid, "TestRunner::registers not found")
    for name, key in ref["registers"].items():
        k = "%s|register|%s" % (f.path, name)
        ctx.inst(rid, k, sample={"symbol": "cpu." + name, "key": got_regs.get(name)})
        if got_regs.get(name) != key:
            ctx.finding(rid, k, "cpu.%s is read from register key %r, must be %r" % (name, got_regs.get(name), key), f.where)
        elif reg is not None and key not in produced:
            ctx.finding(rid, k + "|produced", "cpu.%s reads key %r which TestRunner::registers never produces" % (name, key), f.where)
    # ram16
    rf = [g for g in fx.all_fns("mos") if g.path.endswith("RamFn as mos_core::codegen::evaluator::FunctionCallback>::apply")]
    k = "ram16|byte-order"
    ctx.inst(rid, k)
    if len(rf) != 1:
        ctx.fail_closed(rid, "RamFn::apply not found")
    else:
        g = rf[0]
        lets = {}
        for s in lib.hwalk(g.hir["body"]):
            if s.get("k") == "let" and s["pat"].get("k") == "bind" and "init" in s:
                lets[s["pat"]["name"]] = lib.hdesc(s["init"])
        lo_ok = "first" in repr(lets.get("lo"))
        hi_ok = "('c', 1)" in repr(lets.get("hi")) and "get" in repr(lets.get("hi"))
        comb = False
        for x in lib.hwalk(g.hir["body"]):
            if x.get("k") == "binary" and x["op"] == "Add":
                d = lib.hdesc(x)
                r = repr(d)
                if "('c', 256)" in r and "'hi'" in r and "'lo'" in r:
                    mul = [t for t in lib.subterms(d) if isinstance(t, tuple) and t[0] == "Mul"]
                    if mul and "'hi'" in repr(mul[0]) and "'lo'" not in repr(mul[0]):
                        comb = True
        if not (lo_ok and hi_ok and comb):
            ctx.finding(rid, k, "ram16(a) must be byte[a] + 256·byte[a+1] (lo=first:%s hi=second:%s combine:%s)" % (lo_ok, hi_ok, comb), g.where)


def r183(ctx, fx):
    rid = ctx.rule("R18.3", "execute_instruction: a pending assertion at the current pc fails the test iff its value is Number(0) or None; the BRK-means-success test "
                   "comes after the assertion loop and before the CPU executes; test_command returns Ok(1) iff `failed` is non-empty, Ok(0) otherwise, and `run` exits "
                   "with that code")
    ex = fx.fn(TR + "::execute_instruction")
    if ex is None:
        ctx.fail_closed(rid, "execute_instruction not found")
        return
    k = "%s|failure-condition" % ex.path
    ctx.inst(rid, k)
    cond_ok = False
    cond_node = None
    plain_if = False
    for n in lib.hwalk(ex.hir["body"]):
        if n.get("k") == "if":
            if lib.strip(n["cond"]).get("k") in ("binary", "mcall", "unary") and any(lib.pm(p, "ExecuteResult::TestFailed") for _, p in lib.hir_calls(n["then"])):
                plain_if = True
            d = lib.hdesc(n["cond"])
            r = repr(d)
            if d[0] == "Or" and "SymbolData::Number" in r and "('c', 0)" in r and "Option::is_none" in r and \
                    any(lib.pm(p, "ExecuteResult::TestFailed") for _, p in lib.hir_calls(n["then"])):
                cond_ok = True
                cond_node = n
    # the same as a pattern test: `matches!(r, None | Some(SymbolData::Number(0)))` / a `match` whose failing arms are exactly these two
    recognised = cond_ok or plain_if
    for n in lib.hwalk(ex.hir["body"]):
        fails = None
        if n.get("k") == "if" and lib.strip(n["cond"]).get("k") == "match" and \
                any(lib.pm(p, "ExecuteResult::TestFailed") for _, p in lib.hir_calls(n["then"])):
            m = lib.strip(n["cond"])
            if all(lib.hlit(lib.strip(a["body"])) in (True, False) for a in m["arms"]):
                fails = [a for a in m["arms"] if lib.hlit(lib.strip(a["body"])) is True]
        elif n.get("k") == "match" and n.get("src") == "Normal" and any(
                any(lib.pm(p, "ExecuteResult::TestFailed") for _, p in lib.hir_calls(a["body"])) for a in n["arms"]) and \
                "Option<" in str(lib.strip(n["scrut"]).get("ty", "")):
            fails = [a for a in n["arms"] if any(lib.pm(p, "ExecuteResult::TestFailed") for _, p in lib.hir_calls(a["body"]))]
        if fails is None:
            continue
        recognised = True
        pats = []
        for a in fails:
            pats += [str(v) for v in lib.pat_variants(a["pat"])] + (["guarded"] if a.get("guard") else [])
        is_none = [v for v in pats if v.endswith("Option::None")]
        is_zero = [v for v in pats if "Option::Some(" in v and "SymbolData::Number(" in v and "('lit', 0)" in v]
        if is_none and is_zero and len(pats) == len(is_none) + len(is_zero):
            cond_ok = True
            cond_node = n
    if not cond_ok and not recognised:
        ctx.fail_closed(rid, "the test that makes an assertion fail (a condition or pattern over the evaluated value in front of ExecuteResult::TestFailed) was not found")
    elif not cond_ok:
        ctx.finding(rid, k, "an assertion must fail the test exactly when it evaluates to 0 or cannot be evaluated", ex.where)
    k = "%s|success-at-brk" % ex.path
    ctx.inst(rid, k)
    brk = None
    for n in lib.hwalk(ex.hir["body"]):
        if n.get("k") == "if":
            d = lib.hdesc(n["cond"])
            if d[0] == "Eq" and ("c", 0) in d[1:] and "get_program_counter" in repr(d) and \
                    any(lib.pm(p, "ExecuteResult::TestSuccess") for _, p in lib.hir_calls(n["then"])):
                brk = n
    succ = [x for x, p in lib.hir_calls(ex.hir["body"], "ExecuteResult::TestSuccess")]
    if brk is None or len(succ) != 1:
        ctx.finding(rid, k, "success must be reported only when the opcode at the program counter is BRK (0)", ex.where)
    else:
        ex_calls = [x for x, p in lib.hir_calls(ex.hir["body"]) if p and ("MOS6502" in p) and lib.norm(p).endswith(("::cycle", "::execute_instruction"))]
        after_assert = cond_node is None or cond_node.get("ln", 0) < brk.get("ln", 0)
        before_cpu = all(brk.get("ln", 0) < x.get("ln", 10 ** 9) for x in ex_calls) and ex_calls
        if not (after_assert and before_cpu):
            ctx.finding(rid, k + "|order", "the BRK check must come after the assertions at that address and before the CPU executes", ex.where)
    tc = fx.fn("mos::commands::test::test_command")
    k = "test_command|exit-code"
    ctx.inst(rid, k)
    if tc is None:
        ctx.fail_closed(rid, "test_command not found")
    else:
        tail = lib.strip(tc.hir["body"].get("expr") or {})
        ok = False
        if tail.get("k") == "if":
            d = lib.hdesc(tail["cond"])
            tv = [y.get("v") for y in lib.hwalk(tail["then"]) if y.get("k") == "lit" and y.get("lk") == "int"]
            ev = [y.get("v") for y in lib.hwalk(tail["else"]) if y.get("k") == "lit" and y.get("lk") == "int"]
            # !failed.is_empty() → 1 else 0
            if d[0] == "Not" and "is_empty" in repr(d) and "'failed'" in repr(d) and tv == [1] and ev == [0]:
                ok = True
            if d[0] == "m" and "is_empty" in repr(d) and "'failed'" in repr(d) and tv == [0] and ev == [1]:
                ok = True
        if not ok:
            ctx.finding(rid, k, "`mos test` must return 1 exactly when at least one test failed", tc.where)
        # failed is pushed exactly in the TestFailed case
        k2 = "test_command|failed-push"
        ctx.inst(rid, k2)
        pushes = [x for x in lib.hwalk(tc.hir["body"]) if x.get("k") == "mcall" and x.get("name") == "push" and lib.hpath(x["recv"]) == "failed"]
        if len(pushes) != 1:
            ctx.finding(rid, k2, "`failed` must be extended exactly once per failed test (found %d push sites)" % len(pushes), tc.where)
    run = fx.fn("mos::run")
    k = "run|exit-with-code"
    ctx.inst(rid, k)
    ok = False
    if run is not None:
        for n in lib.hwalk(run.hir["body"]):
            if n.get("k") == "if":
                d = lib.hdesc(n["cond"])
                if d[0] == "Lt" and ("c", 0) in d[1:] and any(lib.pm(p, "process::exit") and lib.hpath(x["args"][0]) == "exit_code" for x, p in lib.hir_calls(n["then"])):
                    ok = True
    if not ok:
        ctx.finding(rid, k, "run() does not exit with the test command's status", run.where if run else None)


def r184(ctx, fx):
    rid = ctx.rule("R18.4", "MemoryAccessor::read implementations do not slice RAM with `address .. address + len` unchecked (ram16($ffff) reads past the 64 KiB array) "
                   "and do not compute `address + len - 1` in u16")
    n = 0
    for f in sorted(fx.all_fns("mos"), key=lambda f: f.path):
        if f.d.get("impl_trait") != "mos::memory_accessor::MemoryAccessor" or not f.path.endswith("::read"):
            continue
        n += 1
        who = (f.d.get("impl_self") or "").rsplit("::", 1)[-1]
        k = "%s|read" % who
        idx = [t for _, t in lib.calls(f) if "Index" in (lib.callee(t)[0] or "") and (lib.callee(t)[0] or "").endswith("::index") and "Range" in t["f"].get("full", "")]
        asserts = [b["term"] for b in f.blocks if b["term"]["k"] == "assert" and not b["cleanup"] and b["term"]["kind"].startswith("Overflow(")]
        u16_over = [a for a in asserts if any((lib.op_place(o) and f.locals[lib.op_place(o)["l"]]["ty"] == "u16") for o in a["ops"])]
        guarded = any(lib.norm(lib.callee(t)[0] or "").endswith(("::get", "::min", "checked_add", "saturating_add")) for _, t in lib.calls(f))
        ctx.inst(rid, k, sample={"impl": who, "range_index_sites": len(idx), "u16_overflow_asserts": len(u16_over), "guarded": guarded})
        if idx and not guarded:
            ctx.finding(rid, k + "|slice", "%s::read slices the RAM array with address..address+len unchecked: `ram16($ffff)` in an assertion panics instead of failing "
                        "the test" % who, "%s:%s" % (f.file, idx[0].get("line")))
        if u16_over:
            ctx.finding(rid, k + "|u16", "%s::read computes the end address in u16 (`address + len - 1`): `ram16($ffff)` overflows" % who,
                        "%s:%s" % (f.file, u16_over[0].get("line")))
    if n < 2:
        ctx.fail_closed(rid, "fewer than 2 MemoryAccessor::read implementations found")


def r185(ctx, fx):
    rid = ctx.rule("R18.5", "every pending assertion / trace is compared with the program counter before each instruction: the scan in execute_instruction starts at "
                   "index 0 unconditionally, runs while idx < test_elements.len(), and the only test that decides whether an element fires is the equality of "
                   "its snapshot pc with the cpu's pc — a pre-filter (address window, early exit) makes assertions outside it silently pass")
    ex = fx.fn("mos::test_runner::TestRunner::execute_instruction")
    if ex is None:
        ctx.fail_closed(rid, "TestRunner::execute_instruction not found")
        return
    key = "execute_instruction|scan"
    # the loop whose condition compares a local with test_elements.len()
    loops = []
    for n in lib.hwalk(ex.hir["body"]):
        if n.get("k") == "loop":
            for i in lib.hwalk(n["body"]):
                if i.get("k") == "if":
                    c = lib.hdesc(i["cond"])
                    if c[0] == "Lt" and "test_elements" in repr(c) and "::len" in repr(c) and c[1][0] == "v":
                        loops.append((n, c[1][1]))
                    break
    if not loops:
        # the other shape: `for element in &self.test_elements { match element { … if <pc test> => … } }`
        fors = [n for n in lib.hwalk(ex.hir["body"]) if n.get("k") == "match" and n.get("src") == "ForLoopDesugar" and lib.strip(n["scrut"]).get("k") == "call" and
                str(lib.hcallee(lib.strip(n["scrut"]))).endswith("into_iter") and "test_elements" in repr(lib.hdesc(lib.strip(n["scrut"])["args"][0]))]
        if not fors:
            ctx.inst(rid, key, nontrivial=False)
            ctx.not_decided("execute_instruction scans test_elements neither with an index loop nor with a for loop: which elements are compared with the pc is not decided")
            return
        it = repr(lib.hdesc(lib.strip(fors[0]["scrut"])["args"][0]))
        ctx.inst(rid, key, sample={"form": "for element in test_elements", "iterated": it[:80]})
        if any(w in it for w in ("::skip", "::take", "::filter", "::step_by", "::rev", "Index::index", "::get", "::split")):
            ctx.finding(rid, key, "the scan for due assertions covers only part of the pending elements (%s): a false assertion outside that part passes silently" % it[:80],
                        ex.where)
        # the loop itself must not sit under a condition (a pre-filter on the pc)
        guarded = [i for i in lib.hwalk(ex.hir["body"]) if i.get("k") == "if" and any(x is fors[0] for x in lib.hwalk(i.get("then", {})))]
        if guarded:
            ctx.finding(rid, key + "|pre-filter", "the scan for due assertions runs only when `%s` holds: assertions at other addresses are never compared with the "
                        "program counter" % repr(lib.hdesc(guarded[0]["cond"]))[:80], "%s:%s" % (ex.file, guarded[0].get("ln")))
        conds = [lib.hdesc(x) for x in lib.hwalk(fors[0]) if x.get("k") == "binary" and x.get("op") == "Eq"]
        if not any("get_program_counter" in repr(c) or "'pc'" in repr(c) for c in conds):
            ctx.finding(rid, key + "|test", "an element no longer fires on equality of its pc with the cpu's program counter", ex.where)
        return
    loop, idx = loops[0]
    init = None
    for n in lib.hwalk(ex.hir["body"]):
        if n.get("k") == "let" and n["pat"].get("k") == "bind" and n["pat"].get("name") == idx and "init" in n:
            init = n["init"]
    ctx.inst(rid, key, sample={"index": idx, "init": repr(lib.hdesc(init))[:60] if init else None})
    if init is None or lib.hlit(init) != 0:
        ctx.finding(rid, key, "the scan for due assertions does not start at index 0 unconditionally (`%s` is initialised with %s): elements before the start — or all "
                    "of them, when a pre-filter sets it to len() — are never compared with the program counter, so a false assertion there passes silently" % (
                        idx, repr(lib.hdesc(init))[:80] if init else "?"), ex.where)
    # no break / return / continue inside the scan other than the loop's own exit
    exits = [x for x in lib.hwalk(loop["body"]) if x.get("k") in ("ret",) or (x.get("k") == "break" and False)]
    if exits:
        ctx.finding(rid, key + "|early-exit", "the scan over the pending assertions can be left before every element was looked at", "%s:%s" % (ex.file, exits[0].get("ln")))
    # the firing test: equality with the cpu's pc only
    conds = [lib.hdesc(x) for x in lib.hwalk(loop["body"]) if x.get("k") == "binary" and x.get("op") in ("Eq",)]
    if not any("get_program_counter" in repr(c) or "'pc'" in repr(c) for c in conds):
        ctx.finding(rid, key + "|test", "an element no longer fires on equality of its pc with the cpu's program counter", ex.where)


def r186(ctx, fx):
    rid = ctx.rule("R18.6", "the emulated memory is filled in the address space the cpu starts in: TestRunner::new sets the program counter from the test's symbol (a "
                   "target address) and loads the bank image where it is *stored*; for relocated segments (`pc = …`) the two differ, so the constructor also "
                   "loads them at an address derived from Segment::target_offset — otherwise a test in such a segment runs a BRK in empty memory and passes")
    new = fx.fn("mos::test_runner::TestRunner::new")
    if new is None:
        ctx.fail_closed(rid, "TestRunner::new not found")
        return
    key = "TestRunner::new|relocated-segments"
    lets = {}
    for n in lib.hwalk(new.hir["body"]):
        if n.get("k") == "let" and n["pat"].get("k") == "bind" and "init" in n:
            lets[n["pat"]["name"]] = n["init"]
    loads = [x for x, p in lib.hir_calls(new.hir["body"], "BasicRam::load_program")]
    setpc = [x for x, p in lib.hir_calls(new.hir["body"]) if p and p.endswith("set_program_counter")]

    def expand(e, depth=3):
        d = repr(lib.hdesc(e))
        if depth:
            for x in lib.hwalk(e):
                if x.get("k") == "path" and (x.get("res") or {}).get("dk") == "Local" and lib.hpath(x) in lets:
                    d += expand(lets[lib.hpath(x)], depth - 1)
        return d
    starts = [expand(lib.hargs(x)[1]) for x in loads]
    ctx.inst(rid, key, sample={"load_program_sites": len(loads), "set_program_counter_sites": len(setpc),
                               "start_arguments_using_target_offset": sum(1 for d in starts if "target_offset" in d)})
    if not loads or not setpc:
        ctx.fail_closed(rid, "load_program / set_program_counter not found in TestRunner::new")
        return
    if not any("target_offset" in d for d in starts):
        ctx.finding(rid, key, "TestRunner::new loads memory at the addresses the bank is stored at only, but starts the cpu at the test's target address: a `.test` "
                    "inside a segment with `pc = …` executes empty memory (BRK) and is reported ok after 0 cycles whatever its assertions say", new.where)


def r187(ctx, fx):
    rid = ctx.rule("R18.7", "a test sees only the bank it is defined in: assertions and traces are matched by address, and two banks may have code at the same address, "
                   "so the test runner keeps — of the elements the code generator collected — those whose segment lies in the bank it loaded (a `retain` / `filter` over "
                   "what remove_test_elements handed out, whose predicate compares a segment's bank), and the code generator records the segment with every element")
    new = fx.fn(TR + "::new")
    if new is None or not new.d.get("hir"):
        ctx.fail_closed(rid, "TestRunner::new not found")
        return
    body = new.hir["body"]
    key = "%s|elements-of-the-bank" % new.path
    takes = [x for x in lib.hwalk(body) if x.get("k") == "mcall" and x.get("name") == "remove_test_elements"]
    if not takes:
        ctx.fail_closed(rid, "TestRunner::new does not take the test elements from the code generator (remove_test_elements)")
        return
    ok = False
    for x in lib.hwalk(body):
        if x.get("k") == "mcall" and x.get("name") in ("retain", "filter", "retain_mut") and x.get("args"):
            clo = lib.strip(x["args"][0])
            if clo.get("k") == "closure":
                d = repr(lib.hdesc(clo["body"]))
                mentions_bank = any((y.get("k") == "field" and y.get("name") == "bank") for y in lib.hwalk(clo["body"]))
                compares = any(y.get("k") == "binary" and y.get("op") in ("Eq", "Ne") for y in lib.hwalk(clo["body"]))
                by_segment = any(y.get("k") == "mcall" and y.get("name") == "segment" for y in lib.hwalk(clo["body"]))
                if mentions_bank and compares and by_segment:
                    ok = True
    ctx.inst(rid, key, sample={"filtered_by_bank": ok})
    if not ok:
        ctx.finding(rid, key, "the test runner keeps every assertion and trace of the program, whatever bank it is in: a test runs into the `.assert` another bank has at "
                    "the same address — it fails on an assertion that is not on its path, or passes one it never reached", new.where)
    # the code generator records the segment
    et = fx.fn("mos_core::codegen::CodegenContext::emit_token")
    key = "emit_token|elements-record-their-segment"
    n_el = 0
    bad = 0
    if et is not None and et.d.get("hir"):
        for x in lib.hwalk(et.hir["body"]):
            if x.get("k") == "struct" and str((x.get("res") or {}).get("path", "")).endswith(("codegen::Assertion", "codegen::Trace")):
                n_el += 1
                seg = [f_ for f_ in x["fields"] if f_["name"] == "segment"]
                if not seg or "current_segment" not in repr(lib.hdesc(seg[0]["e"])):
                    bad += 1
    ctx.inst(rid, key, sample={"elements_built": n_el, "without_the_current_segment": bad})
    if n_el < 2:
        ctx.fail_closed(rid, "the construction of Assertion / Trace elements was not found in emit_token (%d)" % n_el)
    elif bad:
        ctx.finding(rid, key, "a test element is built without the segment it is assembled into: the test runner cannot tell which bank it belongs to", et.where)


def r188(ctx, fx):
    rid = ctx.rule("R18.8", "an assertion is evaluated with the symbols as they are *at the assertion*: what emit_token stores with an `.assert` / `.trace` comes from a "
                   "function that copies the symbol table on every path (`<SymbolTable as Clone>::clone` — must-call with wrapper summaries). A copy that is shared "
                   "between assertions `while nothing changed` is as good as its idea of change: `.var` is re-assigned in place")
    et = fx.fn("mos_core::codegen::CodegenContext::emit_token")
    if et is None:
        ctx.fail_closed(rid, "emit_token not found")
        return
    mc = lib.MustCall(fx, lambda p: "SymbolTable" in p and lib.norm(p).endswith("Clone>::clone") or ("SymbolTable" in p and p.endswith("::clone")), depth=3)
    n = 0
    for bi, t in lib.calls(et):
        p, fr = lib.callee(t)
        if not p or not lib.norm(p).rstrip(">").endswith("snapshot"):
            continue
        g = fx.fns.get(fr.get("rid") or fr.get("id"))
        n += 1
        key = "emit_token|snapshot#%d" % n
        ok = g is not None and g.blocks and mc.holds(g)
        ctx.inst(rid, key, sample={"line": t.get("line"), "through": p, "copies_the_symbol_table_on_every_path": bool(ok)})
        if not ok:
            ctx.finding(rid, key, "the snapshot stored with an assertion comes from `%s`, which does not copy the symbol table on every path: two assertions can share one "
                        "copy, and the second one is evaluated with the symbols of the first — a `.var` given another value in between still has the old one" % (
                            lib.norm(p).rsplit("::", 2)[-2] + "::" + lib.norm(p).rsplit("::", 1)[-1]), "%s:%s" % (et.file, t.get("line")))
    if n < 2:
        ctx.fail_closed(rid, "fewer than 2 snapshots taken in emit_token (%d)" % n)


def run(ctx):
    fx = ctx.facts
    r187(ctx, fx)
    r188(ctx, fx)
    r185(ctx, fx)
    r186(ctx, fx)
    r181(ctx, fx)
    r182(ctx, fx)
    r183(ctx, fx)
    r184(ctx, fx)
    ctx.not_decided("that the assertions evaluated are those on the executed path beyond R18.1; snapshot scoping of symbols; the emulator's instruction semantics "
                    "(external crate emulator_6502); which bank's image is loaded")
    ctx.assume("ref/cpu_flags.json transcribes the 6502 status register layout and docs/src/guide/unit-testing.md")
