"""C19 — the debugger reports where the machine really is (lock-coverage clause only).

 R19.1 (A8, guard liveness) in the machine thread every call that advances the CPU (TestRunner::execute_instruction / step_over / step_out) is
       made while a MutexGuard<MachineRunningState> taken *before* the state was examined is still live — otherwise a `pause` can store
       Stopped(pc) between the test and the step, and the machine executes one more instruction after reporting `stopped`
 R19.2 in pause / next / step_in / step_out the program counter that is stored in Stopped(pc) is read under the state lock that also
       covers the store
 R19.3 breakpoints are checked against the current pc before every instruction of a free run (the check dominates the step in the
       Running arm) with the half-open range test start <= pc < end
"""
from . import lib

ADAPTER = "mos::debugger::adapters::test_runner::TestRunnerAdapter"
STATE_GUARD = "std::sync::poison::mutex::MutexGuard<'_, mos::debugger::adapters::MachineRunningState>"
STEP_FNS = ("TestRunner::execute_instruction", "TestRunner::step_over", "TestRunner::step_out")


def live_guards(fn, guard_ty):
    """forward must-analysis: set of guard locals live at entry of each block (intersection at joins)"""
    guards = [i for i, l in enumerate(fn.locals) if l["ty"] == guard_ty]
    gset = set(guards)
    S = lib.succs(fn)
    n = len(fn.blocks)
    IN = [None] * n
    IN[0] = frozenset()

    def transfer(bi, live):
        live = set(live)
        b = fn.blocks[bi]
        for s in b["stmts"]:
            if s["k"] == "assign":
                # move out of a guard kills it; assignment of a guard-typed local from a move gens it
                rv = s["rv"]
                if rv["k"] == "use" and "move" in rv["op"]:
                    p = rv["op"]["move"]
                    if p["l"] in gset and not p.get("p"):
                        live.discard(p["l"])
                if s["dst"]["l"] in gset and not s["dst"].get("p"):
                    live.add(s["dst"]["l"])
            elif s["k"] == "dead" and s["l"] in gset:
                live.discard(s["l"])
        t = b["term"]
        outs = {}
        if t["k"] == "call":
            for a in t["args"]:
                if "move" in a and a["move"]["l"] in gset and not a["move"].get("p"):
                    live.discard(a["move"]["l"])
            after = set(live)
            if t["dst"]["l"] in gset and not t["dst"].get("p"):
                after.add(t["dst"]["l"])
            if t.get("target") is not None:
                outs[t["target"]] = after
        elif t["k"] == "drop":
            after = set(live)
            if t["place"]["l"] in gset and not t["place"].get("p"):
                after.discard(t["place"]["l"])
            outs[t["target"]] = after
        else:
            for s_ in S[bi]:
                outs[s_] = set(live)
        return live, outs
    work = [0]
    AT_TERM = {}
    while work:
        bi = work.pop()
        live_at_term, outs = transfer(bi, IN[bi])
        AT_TERM[bi] = live_at_term
        for s_, o in outs.items():
            if fn.blocks[s_]["cleanup"]:
                continue
            new = frozenset(o) if IN[s_] is None else IN[s_] & frozenset(o)
            if IN[s_] is None or new != IN[s_]:
                IN[s_] = new
                work.append(s_)
    return AT_TERM, guards


def machine_thread(fx):
    """by role: the closure passed to thread::spawn inside the test-runner adapter that calls execute_instruction"""
    out = []
    for f in fx.all_fns("mos"):
        if f.kind == "closure" and f.path.startswith(ADAPTER) and any(lib.pm(lib.callee(t)[0], "TestRunner::execute_instruction") for _, t in lib.calls(f)):
            out.append(f)
    return out


def r191(ctx, fx):
    rid = ctx.rule("R19.1", "guard liveness in the machine thread: at every call of TestRunner::execute_instruction / step_over / step_out a "
                   "MutexGuard<MachineRunningState> is live (must-analysis over the MIR CFG; gen = guard local assigned, kill = drop / move / StorageDead)")
    ths = machine_thread(fx)
    if len(ths) != 1:
        ctx.fail_closed(rid, "machine thread closure not found uniquely (%d candidates)" % len(ths))
        return
    f = ths[0]
    at_term, guards = live_guards(f, STATE_GUARD)
    locks = [bi for bi, t in lib.calls(f) if lib.pm(lib.callee(t)[0], "Mutex::lock") and "MachineRunningState" in t["f"].get("full", "") + f.locals[t["dst"]["l"]]["ty"]]
    ctx.inst(rid, "%s|state-guards" % f.path, sample={"guard_locals": len(guards), "lock_sites": len(locks)})
    if not guards:
        ctx.fail_closed(rid, "no MutexGuard<MachineRunningState> local in the machine thread")
        return
    n = 0
    for bi, t in lib.calls(f):
        p = lib.callee(t)[0]
        if not any(lib.pm(p, s) for s in STEP_FNS):
            continue
        n += 1
        live = at_term.get(bi, set())
        key = "%s|%s#%d" % (f.path, lib.norm(p).rsplit("::", 1)[1], n)
        ctx.inst(rid, key, sample={"call": lib.norm(p).rsplit("::", 1)[1], "line": t.get("line"), "live_state_guards": sorted(live)})
        if not live:
            ctx.finding(rid, key, "the machine thread advances the CPU (%s, line %s) without holding the running-state lock: the state it acted on was copied out of a "
                        "temporary guard, so `pause` can store Stopped(pc) in between and one more instruction runs after `stopped` was reported" % (
                            lib.norm(p).rsplit("::", 1)[1], t.get("line")), "%s:%s" % (f.file, t.get("line")))
    if n < 1:
        ctx.fail_closed(rid, "no CPU-advancing call found in the machine thread")


def r192(ctx, fx):
    rid = ctx.rule("R19.2", "stopping and stepping happen under the running-state lock: the read of the CPU's program counter that is stored as Stopped(pc) happens while "
                   "a state guard is live — in pause() itself, or in a helper every call of which is made with a state guard live; next/step_in/step_out hold "
                   "a state guard while the CPU steps (as the machine thread does: a step that arrives while the machine runs freely must not slip in between the "
                   "machine thread's look at the breakpoints and the instruction it executes next) and stop through pause() / that helper afterwards")
    meth = {}
    helpers = []
    for g in fx.all_fns("mos"):
        if g.d.get("impl_self") != ADAPTER or g.kind == "closure" or not g.blocks:
            continue
        if g.d.get("impl_trait") == "mos::debugger::adapters::MachineAdapter":
            meth[g.path.rsplit("::", 1)[-1]] = g
        elif not g.d.get("impl_trait"):
            calls = [lib.norm(lib.callee(t)[0] or "") for _, t in lib.calls(g)]
            if any(c.endswith("get_program_counter") for c in calls) and any("MachineRunningState" in (l.get("ty") or "") and "&mut" in (l.get("ty") or "")
                                                                              for l in g.locals[1:g.argc + 1]):
                helpers.append(g)
    f = meth.get("pause")
    if f is None:
        ctx.fail_closed(rid, "TestRunnerAdapter::pause not found")
        return
    hp = {h.path for h in helpers}

    def is_stop(c):
        return c.endswith("::pause") or any(lib.norm(h) == c or c.endswith("::" + h.rsplit("::", 1)[-1]) for h in hp)
    at_term, guards = live_guards(f, STATE_GUARD)
    reads = [(bi, t) for bi, t in lib.calls(f) if lib.norm(lib.callee(t)[0] or "").endswith("get_program_counter")]
    via = [(bi, t) for bi, t in lib.calls(f) if any(lib.norm(lib.callee(t)[0] or "").endswith("::" + h.rsplit("::", 1)[-1]) for h in hp)]
    key = "%s|pc-read" % f.path
    ctx.inst(rid, key, sample={"pc_reads": len(reads), "through_helper": len(via), "state_guard_locals_in_pause": len(guards)})
    if not reads and not via:
        ctx.fail_closed(rid, "pause() neither reads the program counter nor calls a helper that does")
    for bi, t in reads + via:
        if not at_term.get(bi):
            ctx.finding(rid, key, "pause() reads the program counter before taking the running-state lock and stores Stopped(pc) afterwards: the machine thread can "
                        "execute in between, so the reported frame is not where the machine is", "%s:%s" % (f.file, t.get("line")))
    for nm in ("next", "step_in", "step_out"):
        g = meth.get(nm)
        k = "%s|%s-stops" % (ADAPTER, nm)
        ctx.inst(rid, k)
        if g is None:
            ctx.fail_closed(rid, "%s not found" % nm)
            continue
        calls = [lib.norm(lib.callee(t)[0] or "") for _, t in lib.calls(g)]
        step = [i for i, c in enumerate(calls) if any(c.endswith(s.split("::")[1]) and "TestRunner" in c for s in STEP_FNS)]
        pz = [i for i, c in enumerate(calls) if is_stop(c)]
        if not step or not pz or min(pz) < max(step):
            ctx.finding(rid, k, "%s must perform its step and then stop through pause()" % nm, g.where)
        at, gs = live_guards(g, STATE_GUARD)
        k2 = "%s|%s-steps-under-the-state-lock" % (ADAPTER, nm)
        bare = [t.get("line") for bi, t in lib.calls(g) if any(lib.pm(lib.callee(t)[0], s) for s in STEP_FNS) and not at.get(bi)]
        ctx.inst(rid, k2, sample={"method": nm, "state_guard_locals": len(gs), "steps_without_a_live_guard": len(bare)})
        if bare:
            ctx.finding(rid, k2, "%s advances the CPU without holding the running-state lock: sent while the machine runs freely, the step can execute between the "
                        "machine thread's breakpoint test and its own step, which then executes an instruction it has not looked at — a breakpoint there is run "
                        "over" % nm, "%s:%s" % (g.file, bare[0]))
        # the helper is called with the guard still live
        for bi, t in lib.calls(g):
            if any(lib.norm(lib.callee(t)[0] or "").endswith("::" + h.rsplit("::", 1)[-1]) for h in hp) and not at.get(bi):
                ctx.finding(rid, k + "|helper-without-guard", "%s stores Stopped(pc) through a helper without holding the running-state lock" % nm,
                            "%s:%s" % (g.file, t.get("line")))


def r193(ctx, fx):
    rid = ctx.rule("R19.3", "free run: in the Running arm the breakpoint test (start <= pc && end > pc over the current breakpoints) dominates the instruction step, "
                   "and hitting one stores Stopped(pc) and skips the step (`continue`)")
    ths = machine_thread(fx)
    if len(ths) != 1:
        ctx.fail_closed(rid, "machine thread closure not found")
        return
    f = ths[0]
    steps = [bi for bi, t in lib.calls(f) if lib.pm(lib.callee(t)[0], "TestRunner::execute_instruction")]
    anys = [bi for bi, t in lib.calls(f) if lib.pm(lib.callee(t)[0], "Iterator::any")]
    key = "%s|bp-check-dominates-step" % f.path
    ctx.inst(rid, key, sample={"steps": len(steps), "breakpoint_tests": len(anys)})
    if not anys:
        ctx.finding(rid, key, "the machine thread no longer tests breakpoints", f.where)
        return
    # the `any` sits under `last_checked_pc != Some(pc) && !no_debug`; the step must be reachable only through the block that read the pc
    pcs = [bi for bi, t in lib.calls(f) if lib.norm(lib.callee(t)[0] or "").endswith("get_program_counter")]
    for s in steps:
        if not pcs or not any(lib.dominates(f, p, s) for p in pcs):
            ctx.finding(rid, key, "an instruction can be executed without the program counter having been compared with the breakpoints first", f.where)
    # the range test inside the any-closure
    clos = [g for g in fx.all_fns("mos") if g.kind == "closure" and g.path.startswith(f.path + "::{closure")]
    ok = False
    for c in clos:
        cmps = [s["rv"]["op"] for _, _, s in lib.stmts(c) if s["k"] == "assign" and s["rv"]["k"] == "binop"]
        callsc = [lib.norm(lib.callee(t)[0] or "") for _, t in lib.calls(c)]
        if any(x.endswith("PartialOrd::le") for x in callsc) and any(x.endswith("PartialOrd::gt") for x in callsc):
            ok = True
    k2 = "%s|range-test" % f.path
    ctx.inst(rid, k2)
    if not ok:
        ctx.finding(rid, k2, "the breakpoint test must be `range.start <= pc && range.end > pc`", f.where)
    # stopping stores Stopped and sends the event
    k3 = "%s|stop-on-hit" % f.path
    ctx.inst(rid, k3)
    sends = [bi for bi, t in lib.calls(f) if lib.pm(lib.callee(t)[0], "Sender::send")]
    stores = [bi for bi, si, s in lib.stmts(f) if s["k"] == "assign" and s["rv"]["k"] == "agg" and s["rv"].get("variant") == "Stopped"]
    if not stores or not sends:
        ctx.finding(rid, k3, "hitting a breakpoint must store Stopped(pc) and notify the session", f.where)


def r194(ctx, fx):
    rid = ctx.rule("R19.4", "the breakpoint test of the machine thread reads the shared breakpoint list under its lock at the moment of the test — the sequence it "
                   "searches is a MutexGuard of that list acquired in the same iteration, not a private copy refreshed on some signal (publishing the signal "
                   "before the data loses a breakpoint for good); the exemption that lets `continue` leave a breakpoint ends after one executed instruction")
    ths = machine_thread(fx)
    if len(ths) != 1:
        ctx.fail_closed(rid, "machine thread closure not found uniquely (%d candidates)" % len(ths))
        return
    f = ths[0]
    owner = fx.fns.get(f.d.get("parent"))
    hir = None
    if owner is not None and owner.d.get("hir"):
        for n in lib.hwalk(owner.hir["body"]):
            if n.get("k") == "closure" and n.get("id") == f.id:
                hir = n
    if hir is None:
        ctx.fail_closed(rid, "HIR of the machine thread closure not found")
        return
    key = "%s|breakpoint-test" % f.path
    lets = {n["pat"]["name"]: n["init"] for n in lib.hwalk(hir) if n.get("k") == "let" and n["pat"].get("k") == "bind" and "init" in n}
    # the test: `.any(|bp| … <= pc && … > pc)` — a search whose predicate compares with the local `pc`
    tests = [x for x in lib.hwalk(hir) if x.get("k") == "mcall" and x.get("name") in ("any", "find", "position", "all") and x.get("args") and
             any(y.get("k") == "binary" and y.get("op") in ("Le", "Lt", "Ge", "Gt") and any(z.get("k") == "path" and lib.hpath(z) == "pc" for z in lib.hwalk(y))
                 for y in lib.hwalk(x["args"][0]))]
    ctx.inst(rid, key, sample={"tests": len(tests)})
    if len(tests) != 1:
        ctx.fail_closed(rid, "expected one breakpoint range test (`.any(|bp| bp.range …)`) in the machine thread, found %d" % len(tests))
        return
    recv = tests[0]["recv"]
    roots = {lib.hpath(y) for y in lib.hwalk(recv) if y.get("k") == "path" and (y.get("res") or {}).get("dk") == "Local"}
    locked = any(nm in lets and any(True for x, p in lib.hir_calls(lets[nm]) if p and lib.pm(p, "Mutex::lock")) and
                 "MachineBreakpoint" in (lib.strip(lets[nm]).get("ty") or "") for nm in roots) or any(True for x, p in lib.hir_calls(recv) if p and lib.pm(p, "Mutex::lock"))
    if not locked:
        ctx.finding(rid, key, "the breakpoint test searches `%s`, which is not the locked shared breakpoint list: a setBreakpoints that races with the refresh of that "
                    "copy is lost until the next one, and the machine runs over a verified breakpoint" % "/".join(sorted(r for r in roots if r)), f.where)
    # what exempts an instruction from the test is the address the machine was halted at, nothing coarser: every conjunct of the condition that guards the
    # test, other than the `no_debug` switch, compares something with the current `pc`
    from .c11 import _anc_walk
    key3 = "%s|exemption-by-address" % f.path
    guard = None
    for x, anc in _anc_walk(hir):
        if x is tests[0]:
            ifs = [p_ for p_, k_ in anc if p_.get("k") == "if" and k_ == "then"]
            # the innermost `if` around the test that is not the test's own `if`
            for p_ in reversed(ifs):        # innermost first
                if not any(y is tests[0] for y in lib.hwalk(p_["cond"])) and p_.get("src") not in ("While", "WhileLoop"):
                    guard = p_
                    break
    conj = []
    if guard is not None:
        def split(c):
            c = lib.strip(c)
            if c.get("k") == "binary" and c.get("op") == "And":
                split(c["l"])
                split(c["r"])
            else:
                conj.append(c)
        split(guard["cond"])
    coarse = []
    for c in conj:
        names = {lib.hpath(y) for y in lib.hwalk(c) if y.get("k") == "path" and (y.get("res") or {}).get("dk") == "Local"}
        if names & {"no_debug", "thread_no_debug"} or any(str(n_).endswith("no_debug") for n_ in names if n_):
            continue
        if "pc" in names and any(y.get("k") == "binary" and y.get("op") in ("Eq", "Ne") for y in lib.hwalk(c)):
            continue
        coarse.append(sorted(n_ for n_ in names if n_))
    ctx.inst(rid, key3, sample={"conditions_of_the_test": len(conj), "not_bound_to_the_pc": coarse})
    if coarse:
        ctx.finding(rid, key3, "the breakpoint test is skipped on a condition that does not compare with the program counter (%s): whatever sets it without the machine "
                    "having been halted *at this address* — the wait for `configurationDone`, a `pause` somewhere else — lets the machine run over a breakpoint on "
                    "the instruction it starts at" % ", ".join("/".join(c_) for c_ in coarse), "%s:%s" % (f.file, guard.get("ln")))
    # the exemption variable: assigned None (reset) after the step
    key2 = "%s|exemption-ends" % f.path
    ctx.inst(rid, key2)
    ex_line = min([x.get("ln") or 0 for x, p in lib.hir_calls(hir, "TestRunner::execute_instruction")] or [0])
    resets = [x for x in lib.hwalk(hir) if x.get("k") == "assign" and lib.hpath(x["l"]) == "last_checked_pc" and lib.hpath(lib.strip(x["r"])) and
              str(lib.hpath(lib.strip(x["r"]))).endswith("None") and (x.get("ln") or 0) > ex_line]
    uses_exemption = any(lib.hpath(y) == "last_checked_pc" for y in lib.hwalk(hir) if y.get("k") == "path")
    if uses_exemption and not resets:
        ctx.finding(rid, key2, "the breakpoint check is skipped while the pc equals the last checked one, and that memory is never cleared after an instruction was "
                    "executed: a breakpoint on an instruction that jumps to itself is hit once and then executed for ever", f.where)


def r195(ctx, fx):
    rid = ctx.rule("R19.5", "stepping follows the call depth (regression guards): step_over ends when the pc *and* the stack pointer are back; step_out does not take "
                   "the return address from the stack (data may lie on top of it) but counts jsr/rts; the adapter replaces only the breakpoints of the source "
                   "file a setBreakpoints request is about, as its VICE sibling does")
    so = fx.fn("mos::test_runner::TestRunner::step_over")
    sout = fx.fn("mos::test_runner::TestRunner::step_out")
    if so is None or sout is None:
        ctx.fail_closed(rid, "TestRunner::step_over / step_out not found")
        return
    key = "step_over|stack"
    ctx.inst(rid, key)
    conds = [repr(lib.hdesc(n["cond"])) for n in lib.hwalk(so.hir["body"]) if n.get("k") == "if"]
    if not any("get_program_counter" in c and "get_stack_pointer" in c for c in conds):
        ctx.finding(rid, key, "`next` over a jsr ends as soon as the pc equals the address after the jsr: with recursion a nested invocation gets there first and the "
                    "step ends inside the subroutine", so.where)
    key = "step_out|return-address"
    ctx.inst(rid, key)
    reads_stack = any(n.get("k") == "index" and "get_stack_pointer" in repr(lib.hdesc(n)) for n in lib.hwalk(sout.hir["body"]))
    if reads_stack:
        ctx.finding(rid, key, "stepOut reads its target from the top of the stack: after a `pha` in the subroutine that is not the return address and the machine "
                    "runs to the end of the test", sout.where)
    # the loop of stepOut pairs calls with returns; how far the stack has grown or shrunk says nothing about the call depth (the subroutine may hold
    # data of its own on the stack when the request arrives, and pop it before it calls on)
    key = "step_out|call-depth"
    loops = [n for n in lib.hwalk(sout.hir["body"]) if n.get("k") == "loop"]
    opcodes = set()
    sp_in_loop = []
    for lp in loops:
        for n in lib.hwalk(lp):
            if n.get("k") == "match":
                for a in n["arms"]:
                    for q in lib.hwalk(a["pat"]):
                        if q.get("k") == "lit" and isinstance(q.get("v"), int):
                            opcodes.add(q["v"])
                    g = a.get("guard")
                    if g is not None and "get_stack_pointer" in repr(lib.hdesc(g)):
                        sp_in_loop.append(a.get("ln") or n.get("ln"))
            if n.get("k") == "if" and "get_stack_pointer" in repr(lib.hdesc(n["cond"])):
                sp_in_loop.append(n.get("ln"))
            if n.get("k") == "binary" and n.get("op") in ("Eq", "Ne") and isinstance(lib.hlit(n["r"]), int) and "opcode" in repr(lib.hdesc(n["l"])):
                opcodes.add(lib.hlit(n["r"]))
    ctx.inst(rid, key, sample={"opcodes_distinguished_in_the_loop": sorted(opcodes), "stack_pointer_tests_in_the_loop": len(sp_in_loop)})
    if not loops:
        ctx.fail_closed(rid, "step_out has no loop")
    else:
        if not {0x20, 0x60} <= opcodes:
            ctx.finding(rid, key, "stepOut does not tell `jsr` ($20) and `rts` ($60) apart while it runs: the first `rts` of a subroutine called on the way is taken "
                        "for the return of the subroutine the machine was halted in", sout.where)
        if sp_in_loop:
            ctx.finding(rid, key + "|stack-pointer", "stepOut decides by the stack pointer when it is done: a subroutine that was halted with data of its own on the stack "
                        "(`pha`), pops it and then calls another one is left at that inner `rts` — the stack is above the remembered level while the call "
                        "depth is unchanged", "%s:%s" % (sout.file, sp_in_loop[0]))
    sb = [f for f in fx.all_fns("mos") if f.path.endswith("::set_breakpoints") and "test_runner" in f.path and f.d.get("hir")]
    key = "TestRunnerAdapter::set_breakpoints|per-source"
    ctx.inst(rid, key)
    if len(sb) != 1:
        ctx.fail_closed(rid, "TestRunnerAdapter::set_breakpoints not found")
    else:
        uses_path = any(True for x in lib.hwalk(sb[0].hir["body"]) if x.get("k") == "mcall" and x.get("name") in ("retain", "filter", "drain_filter", "partition") and
                        any(y.get("k") == "path" and lib.hpath(y) == "source_path" for y in lib.hwalk(x)))
        if not uses_path:
            ctx.finding(rid, key, "the test runner adapter replaces all breakpoints on every setBreakpoints request: the client sends one request per source file, so only "
                        "the breakpoints of the file sent last exist and those of the other files are run over", sb[0].where)


def r196(ctx, fx):
    rid = ctx.rule("R19.6", "what `evaluate` shows is the machine's state at the moment of the request: on every path from the entry of the evaluation helper to the "
                   "call of Evaluator::evaluate_expression the registers and the flags are fetched from the machine adapter and written into the `cpu.*` symbols "
                   "(MachineAdapter::registers, MachineAdapter::flags, SymbolTable::ensure_cpu_symbols: MIR must-pass) — a refresh that is skipped `when nothing "
                   "can have changed` shows the registers of an earlier stop at the same address")
    fns = [f for f in fx.all_fns("mos") if "::tests::" not in f.path and f.blocks and f.path.startswith("mos::debugger") and
           any(lib.pm(lib.callee(t)[0], "Evaluator::<'a>::evaluate_expression") or lib.norm(lib.callee(t)[0] or "").endswith("Evaluator::evaluate_expression")
               for _, t in lib.calls(f))]
    if not fns:
        ctx.fail_closed(rid, "no function of the debugger evaluates an expression")
        return
    for f in sorted(fns, key=lambda f: f.path):
        evs = [bi for bi, t in lib.calls(f) if lib.norm(lib.callee(t)[0] or "").endswith("evaluate_expression")]
        key = "%s|fresh-registers" % f.path
        miss = []
        for what in ("MachineAdapter::registers", "MachineAdapter::flags", "ensure_cpu_symbols"):
            # direct calls, or calls of a workspace helper on all of whose success paths the call happens (wrapper summaries, error exits excepted)
            def pred(p, what=what):
                return (lib.norm(p).endswith(what.split("::")[-1]) and what.split("::")[0] in p) or lib.norm(p).endswith("::" + what)
            through = lib.MustCall(fx, pred, depth=2).call_blocks(f)
            if not through or not all(lib.must_pass(f, through, e) for e in evs):
                miss.append(what)
        ctx.inst(rid, key, sample={"fn": f.path, "evaluations": len(evs), "not_on_every_path": miss})
        if miss:
            ctx.finding(rid, key, "%s can evaluate an expression without having fetched %s on that path: `cpu.a` / `cpu.x` / `cpu.flags.*` then show what they were at "
                        "an earlier request (two stops at the same address, in a loop, look alike to a state-keyed shortcut)" % (
                            f.path.rsplit("::", 1)[-1], " / ".join(m.rsplit("::", 1)[-1] for m in miss)), f.where)


def r197(ctx, fx):
    rid = ctx.rule("R19.7", "one source line can stand for several address ranges (a line of a macro invoked twice, of a loop body, of a file imported twice) and "
                   "setBreakpoints hands the machine one MachineBreakpoint per range: the machine keeps all of them — a list, or a map whose key contains the range; a map "
                   "keyed by file and line keeps the last range of a line only, and the machine runs through the other copies without stopping")
    fns = [f for f in fx.all_fns("mos") if f.d.get("hir") and "::tests::" not in f.path and f.path.rstrip(">").endswith("::set_breakpoints") and "debugger::adapters" in f.path]
    if not fns:
        ctx.fail_closed(rid, "no set_breakpoints of a machine adapter found")
        return
    n = 0
    for f in sorted(fns, key=lambda f: f.path):
        stores = []
        for x in lib.hwalk(f.hir["body"]):
            if x.get("k") == "mcall" and x.get("name") in ("insert", "extend", "push", "entry", "append"):
                ty = str(lib.strip(x["recv"]).get("ty", "")) + " " + str(lib.strip(x["recv"]).get("aty", ""))
                if "MachineBreakpoint" in ty:
                    stores.append((x, ty))
        key = "%s|keeps-every-range" % f.path
        ctx.inst(rid, key, sample={"fn": f.path, "stores": [(x.get("name"), ty[:100]) for x, ty in stores]})
        for x, ty in stores:
            n += 1
            if "Map<" in ty:
                k0 = ty.split("Map<", 1)[1]
                k0 = k0.split("MachineBreakpoint", 1)[0].rsplit(", ", 1)[0]
                if "Range" not in k0 and "ProgramCounter" not in k0:
                    ctx.finding(rid, key, "%s keeps the breakpoints in a map keyed by `%s`: of the address ranges one source line stands for (a macro invoked twice, a "
                                "loop, a file imported twice) only the last one stays, the machine executes the others without stopping" % (
                                    f.path.rstrip(">").rsplit("::", 1)[-1], k0.strip(" ,")[:60]), "%s:%s" % (f.file, x.get("ln")))
    if n < 1:
        ctx.fail_closed(rid, "no store of MachineBreakpoints found in a set_breakpoints")


def adapter_backed_ram_guarded(fx):
    """True iff create_machine registers the adapter-backed ram() only where the adapter has no program of its own (used by C20 R20.13 too)"""
    class _Ctx:
        def __init__(self):
            self.bad = False

        def rule(self, *a):
            return "x"

        def inst(self, *a, **k):
            pass

        def finding(self, *a, **k):
            self.bad = True

        def fail_closed(self, *a, **k):
            self.bad = True
    c = _Ctx()
    r198(c, fx)
    return not c.bad


def r198(ctx, fx):
    rid = ctx.rule("R19.8", "the machine thread of the test runner evaluates assertions while it executes, holding the running state; a request holds the adapter and then "
                   "asks for the running state. So nothing the machine thread evaluates may take the adapter's lock: the debug session registers its adapter-backed "
                   "`ram()` only for a machine without a program of its own (`adapter.codegen()` is None) — the test runner keeps the `ram()` that reads its memory directly")
    cm = fx.fn("mos::debugger::DebugSession::create_machine")
    if cm is None or not cm.d.get("hir"):
        ctx.fail_closed(rid, "DebugSession::create_machine not found")
        return
    from .c11 import _anc_walk
    body = cm.hir["body"]
    own = set()
    for n in lib.hwalk(body):
        if n.get("k") in ("let", "letx") and "init" in n and any(y.get("k") == "mcall" and y.get("name") == "codegen" and
                                                                 "MachineAdapter" in str(lib.strip(y["recv"]).get("ty", "")) + str(lib.strip(y["recv"]).get("aty", ""))
                                                                 for y in lib.hwalk(n["init"])):
            own |= {q["name"] for q in lib.hwalk(n["pat"]) if q.get("k") == "bind"}
    sites = 0
    for x, anc in _anc_walk(body):
        if not (x.get("k") == "call" and str(lib.hcallee(x) or "").endswith("ensure_ram_fn")):
            continue
        sites += 1
        guarded = False
        for p_, key in anc:
            if p_.get("k") == "if" and key == "else":
                c = lib.strip(p_["cond"])
                if c.get("k") == "letx" and "Option::Some" in repr(lib.pat_variants(c["pat"])) and (
                        lib.hpath(lib.strip(c["init"])) in own or any(y.get("k") == "mcall" and y.get("name") == "codegen" for y in lib.hwalk(c["init"]))):
                    guarded = True
            if p_.get("k") == "match" and key == "arms":
                pass
        # match form: the arm that holds the call has the pattern None
        for p_, key in anc:
            if p_.get("k") == "match" and (lib.hpath(lib.strip(p_["scrut"])) in own or any(y.get("k") == "mcall" and y.get("name") == "codegen" for y in lib.hwalk(p_["scrut"]))):
                for a in p_["arms"]:
                    if any(y is x for y in lib.hwalk(a["body"])) and any(str(v).endswith("Option::None") for v in lib.pat_variants(a["pat"])):
                        guarded = True
        k = "create_machine|adapter-backed-ram#%d" % sites
        ctx.inst(rid, k, sample={"line": x.get("ln"), "only_without_own_program": guarded})
        if not guarded:
            ctx.finding(rid, k, "create_machine registers the `ram()` that goes through the adapter's lock for every machine, the test runner too: a running test that "
                        "asserts on `ram(..)` and a `pause` (a step, a look at the running state) wait for each other for ever — the request is never answered and "
                        "the language server does not exit", "%s:%s" % (cm.file, x.get("ln")))
    if sites < 1:
        ctx.fail_closed(rid, "create_machine does not register a `ram()` (ensure_ram_fn) any more")


def run(ctx):
    fx = ctx.facts
    r197(ctx, fx)
    r198(ctx, fx)
    r194(ctx, fx)
    r195(ctx, fx)
    r196(ctx, fx)
    r191(ctx, fx)
    r192(ctx, fx)
    r193(ctx, fx)
    ctx.not_decided("stepping sequences on concrete programs, breakpoint line → address mapping, all other interleavings of the session, machine "
                    "and poller threads; the VICE back-end")
