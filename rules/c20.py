"""C20 — shutdown is clean in every session state (structural clauses).

 R20.1 no force-unwrapped Arc::try_unwrap on an Arc of which a clone escapes to another long-lived owner
 R20.2 no thread that is joined on the shutdown path blocks in TcpListener::accept without a timeout / non-blocking mode / wake-up
 R20.3 `shutdown` notifies every registered shutdown handler before answering; the debug session selects on that notification
"""
from . import lib


def r201(ctx, fx, cg):
    rid = ctx.rule("R20.1", "Arc::try_unwrap(x) whose failure is turned into a panic (`.ok().unwrap()`, `.unwrap()`, `.expect()`) is only applied to an Arc whose "
                   "clones do not outlive the call: if the owner hands out clones through an accessor (`fn …(&self) -> Arc<T> { self.x.clone() }`) that another "
                   "long-lived object stores, the unwrap fails at shutdown")
    n = 0
    scanned = 0
    for f in sorted(fx.all_fns("mos"), key=lambda f: f.path):
        if not f.d.get("hir") or "::tests::" in f.path:
            continue
        scanned += 1
        cnt = 0
        for x in lib.hwalk(f.hir["body"]):
            if x.get("k") == "mcall" and x.get("name") in ("unwrap", "expect"):
                # receiver chain contains Arc::try_unwrap(<field of self>)
                r0 = lib.strip(x["recv"])
                if r0.get("k") == "mcall" and r0.get("name") == "ok":
                    r0 = lib.strip(r0["recv"])
                if not (r0.get("k") == "call" and lib.pm(lib.hcallee(r0), "Arc::try_unwrap")):
                    continue
                tu = [r0]
                arg = lib.hdesc(tu[0]["args"][0])
                n += 1
                cnt += 1
                key = "%s|try_unwrap#%d" % (f.path, cnt)
                field = arg[1] if arg[0] == "f" else None
                owner_ty = f.d.get("impl_self")
                escapes = []
                if field and owner_ty:
                    # accessors of the same type that return a clone of that field
                    for g in fx.all_fns("mos"):
                        if g.d.get("impl_self") == owner_ty and g.d.get("hir") and g is not f:
                            tail = lib.hdesc(g.hir["body"].get("expr") or {})
                            if tail[0] == "m" and str(tail[1]).endswith("Clone::clone") and tail[2][:2] == ("f", field) and g.ret_ty.startswith("alloc::sync::Arc<"):
                                callers = [fx.fns[c].path for c in cg.callers.get(g.id, ()) if "::tests::" not in fx.fns[c].path and fx.fns[c].d.get("impl_self") != owner_ty]
                                if callers:
                                    escapes.append((g.path, sorted(callers)))
                ctx.inst(rid, key, sample={"fn": f.path, "arc": repr(arg), "clone_handed_out_by": [e[0] for e in escapes], "to": [c for e in escapes for c in e[1]][:3]})
                if escapes:
                    ctx.finding(rid, key, "%s force-unwraps Arc::try_unwrap(self.%s) although %s hands a clone to %s, which keeps it for the lifetime of the process: "
                                "after `shutdown`/`exit` the unwrap panics and the process ends with status 101 instead of 0" % (
                                    f.path, field, escapes[0][0].rsplit("::", 1)[1] + "()", escapes[0][1][0]), "%s:%s" % (f.file, x.get("ln")))
    # zero sites is the goal (the one site the pinned tree had was repaired); the reverting mutant keeps the rule honest
    ctx.inst(rid, "scan", sample={"force_unwrapped_try_unwrap_sites": n, "functions_scanned": scanned}, nontrivial=n > 0)
    if scanned < 500:
        ctx.fail_closed(rid, "only %d functions of crate mos scanned for Arc::try_unwrap" % scanned)


def r202(ctx, fx, cg):
    rid = ctx.rule("R20.2", "a thread whose JoinHandle is joined on the path from the `lsp` command must not be able to sit in a blocking TcpListener::accept: the "
                   "function that accepts must set the listener non-blocking / use a timeout, or the joiner must wake it up")
    lc = fx.fn("mos::commands::lsp::lsp_command")
    if lc is None:
        ctx.fail_closed(rid, "lsp_command not found")
        return
    reach = cg.reach([lc.id])
    joins = []
    for i in reach:
        g = fx.fns[i]
        for _, t in lib.calls(g):
            if lib.pm(lib.callee(t)[0], "JoinHandle::join"):
                joins.append(g.path)
    accepts = []
    for g in fx.all_fns("mos"):
        if "::tests::" in g.path:
            continue
        for _, t in lib.calls(g):
            if lib.pm(lib.callee(t)[0], "TcpListener::accept"):
                accepts.append(g)
    ctx.inst(rid, "join-sites", sample={"joins_reachable_from_lsp_command": sorted(set(joins))})
    if not accepts:
        ctx.fail_closed(rid, "no TcpListener::accept found (anchor moved)")
        return
    # threads spawned on that path: closures passed to thread::spawn reachable from lsp_command
    spawned = set()
    for i in reach:
        g = fx.fns[i]
        for _, t in lib.calls(g):
            cp = lib.norm(lib.callee(t)[0] or "")
            if cp.startswith("std::thread") and cp.endswith("::spawn"):
                for r in g.refs:
                    if r.get("closure") and r["id"] in fx.fns:
                        spawned.add(r["id"])
    for a in accepts:
        key = "%s|accept" % a.path
        unblock = []
        acc_blocks = [bi for bi, t in lib.calls(a) if lib.pm(lib.callee(t)[0], "TcpListener::accept")]
        for bi, t in lib.calls(a):
            cp = lib.callee(t)[0] or ""
            # the *listener* is switched to non-blocking mode (argument `true`) on every path to the accept
            if lib.pm(cp, "TcpListener::set_nonblocking") and len(t["args"]) > 1:
                c = lib.op_const(t["args"][1])
                is_true = c is not None and (c.get("bool") is True or c.get("int") == 1 or str(c.get("disp", "")).strip() == "true")
                if is_true and all(lib.must_pass(a, [bi], ab) for ab in acc_blocks):
                    unblock.append(lib.norm(cp))
        in_joined_thread = any(a.id in cg.reach([s]) for s in spawned)
        ctx.inst(rid, key, sample={"fn": a.path, "reached_from_spawned_thread": in_joined_thread, "unblocking_calls": unblock})
        if in_joined_thread and joins and not unblock:
            ctx.finding(rid, key, "%s blocks in TcpListener::accept with no timeout; it runs on a thread that `lsp_command` joins after the language server stopped: "
                        "with no debugger attached the join never returns and the process stays behind" % a.path, a.where)


def r203(ctx, fx, cg):
    rid = ctx.rule("R20.3", "handle_message: for the `shutdown` request invoke_shutdown_handlers() precedes handle_shutdown(); DebugSession::start registers a shutdown "
                   "handler and leaves its loop when it fires")
    hm = fx.fn("mos::lsp::LspServer::handle_message")
    key = "handle_message|notify-before-answer"
    ctx.inst(rid, key)
    if hm is None:
        ctx.fail_closed(rid, "LspServer::handle_message not found")
    else:
        inv = [bi for bi, t in lib.calls(hm) if lib.pm(lib.callee(t)[0], "LspContext::invoke_shutdown_handlers")]
        hs = [bi for bi, t in lib.calls(hm) if lib.pm(lib.callee(t)[0], "Connection::handle_shutdown")]
        if not inv or not hs or not all(lib.must_pass(hm, inv, h) for h in hs):
            ctx.finding(rid, key, "the shutdown request is answered without first notifying the registered shutdown handlers (the debug server would never learn of it)", hm.where)
    ds = fx.fn("mos::debugger::DebugSession::start")
    key = "DebugSession::start|listens-for-shutdown"
    ctx.inst(rid, key)
    if ds is None:
        ctx.fail_closed(rid, "DebugSession::start not found")
    else:
        callees = {lib.norm(lib.callee(t)[0] or "") for _, t in lib.calls(ds)}
        if not any(c.endswith("LspContext::add_shutdown_handler") for c in callees) or not any(c.endswith("Select::recv") for c in callees):
            ctx.finding(rid, key, "the debug session does not wait on the language server's shutdown notification", ds.where)


BLOCKING = ("Receiver::recv", "JoinHandle::join", "Condvar::wait", "Barrier::wait", "Select::select", "Select::ready", "TcpListener::accept")


def r204(ctx, fx, cg):
    rid = ctx.rule("R20.4", "answering `shutdown` never waits on another thread: nothing reachable from LspContext::invoke_shutdown_handlers calls an unbounded blocking "
                   "primitive (channel recv without timeout, join, condvar wait, accept) — a session thread that is itself stuck (or waits for the context "
                   "lock the caller holds) would keep the request unanswered forever")
    inv = fx.fn("mos::lsp::LspContext::invoke_shutdown_handlers")
    if inv is None:
        ctx.fail_closed(rid, "LspContext::invoke_shutdown_handlers not found")
        return
    reach = cg.reach([inv.id])
    n = 0
    for fid in sorted(reach, key=lambda i: fx.fns[i].path):
        f = fx.fns[fid]
        if f.crate != "mos":
            continue
        n += 1
        k0 = 0
        for bi, t in lib.calls(f):
            p = lib.callee(t)[0]
            if p and any(lib.pm(p, b) or lib.norm(p).endswith("::" + b.split("::")[-1]) and b.split("::")[0] in p for b in BLOCKING):
                k0 += 1
                key = "%s|%s#%d" % (f.path, lib.norm(p).rsplit("::", 2)[-2] + "::" + lib.norm(p).rsplit("::", 1)[-1], k0)
                ctx.inst(rid, key)
                ctx.finding(rid, key, "%s, on the path that answers `shutdown`, blocks in %s with no timeout: if the other side never lets go — e.g. a debug "
                            "session thread that is deadlocked or paused — `shutdown` is never answered and the process never terminates" % (
                                f.path.rsplit("::", 1)[-1], lib.norm(p)), "%s:%s" % (f.file, t.get("line")))
        if k0 == 0:
            ctx.inst(rid, f.path, nontrivial=False)
    ctx.inst(rid, "invoke_shutdown_handlers|reach", sample={"functions_on_the_shutdown_path": n})
    if n < 1:
        ctx.fail_closed(rid, "the shutdown path is empty")


def r205(ctx, fx):
    from . import locks
    rid = ctx.rule("R20.5", "no thread of the server asks for a lock it already holds (std's Mutex and RwLock are not re-entrant): in no body is a MutexGuard / "
                   "RwLockWriteGuard of T acquired through the same owner while a guard of T is definitely still alive — e.g. `if let … = m.adapter().state()? "
                   "{ m.adapter_mut()… }`, where the read guard of the scrutinee lives to the end of the `if let`")
    n = 0
    withg = 0
    seen = {}
    for f in sorted(fx.all_fns("mos"), key=lambda f: f.path):
        if "::tests::" in f.path or "::testing" in f.path or not f.blocks:
            continue
        n += 1
        gl = locks.guard_locals(f)
        if len(gl) >= 2:
            withg += 1
        res = locks.self_deadlocks(f)
        if not res:
            ctx.inst(rid, f.path, nontrivial=len(gl) >= 2)
        for bi, line, held, acquired, T in res:
            owner = f
            while owner.kind == "closure" and owner.d.get("parent") in fx.fns:
                owner = fx.fns[owner.d["parent"]]
            seen[owner.path] = seen.get(owner.path, 0) + 1
            key = "%s|%s-while-%s#%d" % (owner.path, acquired, held, seen[owner.path])
            ctx.inst(rid, key)
            ctx.finding(rid, key, "%s acquires a %s of `%s` while a %s of the same lock, taken through the same owner, is still alive: the thread blocks on itself "
                        "for ever (and everyone waiting for it — `shutdown` is never answered)" % (owner.path.rsplit("::", 1)[-1], acquired, T[-60:], held),
                        "%s:%s" % (f.file, line))
    ctx.extra["lock_bodies"] = {"bodies": n, "bodies_with_two_or_more_guards": withg}
    if n < 800 or withg < 40:
        ctx.fail_closed(rid, "guard census below what was counted by hand (%d bodies, %d with two or more guards)" % (n, withg))


def r206(ctx, fx):
    rid = ctx.rule("R20.6", "a selected channel operation is completed in every arm: crossbeam's SelectedOperation panics when it is dropped without recv/send, so an "
                   "arm of `match oper.index()` that only breaks out of the session loop kills the debug thread — and the join of that thread turns the process's "
                   "exit status into 101")
    n = 0
    for f in sorted(fx.all_fns("mos"), key=lambda f: f.path):
        if not f.d.get("hir") or "::tests::" in f.path or not any("SelectedOperation" in l["ty"] for l in f.locals):
            continue
        for m in lib.hwalk(f.hir["body"]):
            if m.get("k") != "match":
                continue
            sc = lib.strip(m["scrut"])
            if not (sc.get("k") == "mcall" and sc.get("name") == "index" and "SelectedOperation" in (lib.strip(sc["recv"]).get("ty") or "")):
                continue
            oper = lib.hpath(sc["recv"])
            for i, a in enumerate(m["arms"]):
                n += 1
                key = "%s|select-arm#%d" % (f.path, i)
                done = any(x.get("k") == "mcall" and x.get("name") in ("recv", "send") and lib.hpath(x["recv"]) == oper for x in lib.hwalk(a["body"]))
                diverges = any(x.get("k") == "call" and "panic" in str(lib.hcallee(x)) for x in lib.hwalk(a["body"])) or "panic" in repr(lib.hdesc(a["body"]))
                ctx.inst(rid, key, sample={"fn": f.path, "arm": i, "completes": done})
                if not done and not diverges:
                    ctx.finding(rid, key, "arm %d of the select in %s leaves the selected operation uncompleted: the thread panics (`dropped SelectedOperation without "
                                "completing the operation`) — for the shutdown arm of the debug session this makes `mos lsp` end with status 101 whenever a "
                                "debugger is attached" % (i, f.path.rsplit("::", 1)[-1]), "%s:%s" % (f.file, a.get("ln")))
    if n < 3:
        ctx.fail_closed(rid, "fewer than 3 select arms found (%d)" % n)


UNTIMED_WAITS = ("Receiver::recv", "Receiver<T>::recv", "Condvar::wait", "Barrier::wait", "Select::select", "Select::ready", "TcpListener::accept", "JoinHandle::join")


def r207(ctx, fx):
    rid = ctx.rule("R20.7", "a thread that its owner joins can be woken by its owner: for every type that both spawns a thread and joins it (spawn and "
                   "JoinHandle::join in methods of the same type), the body of the spawned closure itself — what it runs between looks at the flag its owner "
                   "sets — contains no wait without a timeout (channel `recv`, `Condvar::wait`, `select`, `accept`, `join`) unless the joining method, on "
                   "every path to the join, sends on a channel of the same message type. A thread parked in `recv()` on a channel whose sender the joiner "
                   "itself keeps never sees the flag; the join, and with it shutdown, never returns")
    by_owner = {}
    for f in sorted(fx.all_fns("mos"), key=lambda f: f.path):
        if "::tests::" in f.path or "::testing" in f.path or not f.blocks:
            continue
        owner_fn = f
        while owner_fn.kind == "closure" and owner_fn.d.get("parent") in fx.fns:
            owner_fn = fx.fns[owner_fn.d["parent"]]
        ty = owner_fn.d.get("impl_self")
        if not ty:
            continue
        for bi, t in lib.calls(f):
            p = lib.norm(lib.callee(t)[0] or "")
            if p.endswith("JoinHandle::join"):
                by_owner.setdefault(ty, {"spawn": [], "join": []})["join"].append((f, bi, t))
            elif (p.startswith("std::thread") and p.endswith("::spawn")) or p.endswith("Builder::spawn"):
                by_owner.setdefault(ty, {"spawn": [], "join": []})["spawn"].append((f, bi, t))
    pairs = 0
    for ty, d in sorted(by_owner.items()):
        if not d["spawn"] or not d["join"]:
            continue
        pairs += 1
        short = ty.rsplit("::", 1)[-1]
        for g, bi, t in d["spawn"]:
            aty = g.locals[lib.op_local(t["args"][0])]["ty"] if t.get("args") and lib.op_local(t["args"][0]) is not None else ""
            clos = [c for c in fx.fns.values() if c.kind == "closure" and c.path.startswith(g.path + "::{closure") and ("@%s:" % c.where) in aty.replace(": ", ":")]
            key = "%s|joined-thread" % short
            waits = []
            for c in clos:
                for b in lib.owned(fx, c):
                    for bj, t2 in lib.calls(b):
                        p2 = lib.norm(lib.callee(t2)[0] or "")
                        if any(p2.endswith(w) or (w.split("::")[0] in p2 and p2.endswith("::" + w.split("::")[-1])) for w in UNTIMED_WAITS) and "recv_timeout" not in p2 \
                                and "try_recv" not in p2:
                            full = lib.callee(t2)[1].get("full", "")
                            waits.append((p2, t2.get("line"), full, b))
            ctx.inst(rid, key, sample={"type": ty, "spawned_in": g.path, "joined_in": sorted({j[0].path for j in d["join"]}), "closures": [c.path for c in clos],
                                       "untimed_waits_in_the_thread_body": [w[0] for w in waits]})
            if not clos:
                ctx.fail_closed(rid, "the closure spawned in %s was not identified" % g.path)
                continue
            for p2, line, full, b in waits:
                # does every joiner wake it?  a send / try_send on a Sender (of any channel flavour) on every path to the join
                woken = True
                for jf, jb, jt in d["join"]:
                    sends = [bk for bk, t3 in lib.calls(jf) if lib.norm(lib.callee(t3)[0] or "").endswith(("Sender::send", "Sender::try_send", "Sender<T>::send",
                                                                                                             "Sender<T>::try_send", "SyncSender::send"))]
                    if not sends or not lib.must_pass(jf, sends, jb):
                        woken = False
                if not woken:
                    ctx.finding(rid, "%s|%s" % (key, p2.rsplit("::", 2)[-2] + "::" + p2.rsplit("::", 1)[-1]),
                                "the thread spawned in %s waits in %s without a timeout (line %s) and %s joins it without waking it: when the thread sits in that wait "
                                "the join never returns — `disconnect` is never answered and a later `shutdown` hangs behind it" % (
                                    g.path.rsplit("::", 2)[-2] + "::" + g.path.rsplit("::", 1)[-1], p2.rsplit("::", 2)[-2] + "::" + p2.rsplit("::", 1)[-1], line,
                                    " / ".join(sorted({j[0].path.rsplit("::", 2)[-2] + "::" + j[0].path.rsplit("::", 1)[-1] for j in d["join"]}))),
                                "%s:%s" % (b.file, line))
    if pairs < 2:
        ctx.fail_closed(rid, "fewer than 2 types that spawn and join a thread found (%d; DebugServer and Machine were counted)" % pairs)


# explicit panics (panic!, unimplemented!, unreachable!, assert!) in code a debug session can reach, one line of reason each
PANIC_OK = {
    "mos::debugger::DebugSession::start": (1, "`_ =>` of the match on the index of the selected operation: only the three registered operations exist"),
    "mos::debugger::adapters::vice::find_available_port": (1, "no free TCP port on the machine at all (VICE back-end)"),
    "mos::debugger::adapters::vice::protocol::ViceResponse::read": (3, "framing of the VICE binary monitor protocol (VICE back-end, not a client of ours)"),
}
JOIN_UNWRAP_OK = {
    "mos::debugger::adapters::Machine::join": "the session thread joins its own poller: a poller that panicked ends the session, which DebugServer::join reports without "
                                               "passing it on",
}


def r208(ctx, fx, cg):
    rid = ctx.rule("R20.8", "what happens in a debug session does not decide the exit status: (a) no `unwrap` / `expect` on the result of JoinHandle::join outside the "
                   "tabled session-internal site — DebugServer::join, which the `lsp` command calls after `exit`, must survive a debugger thread that panicked; "
                   "(b) no explicit panic (panic!, unimplemented!, unreachable!, assert!) in code reachable from DebugSession::start except the tabled sites — a "
                   "request with an unknown reference, a message that is not a request, a port in use or a `launch` without configuration is an error answer; (c) LspContext::config() is never force-unwrapped")
    n = 0
    for f in sorted(fx.all_fns("mos"), key=lambda f: f.path):
        if "::tests::" in f.path or "::testing" in f.path or not f.blocks:
            continue
        for bi, t in lib.calls(f):
            if not lib.norm(lib.callee(t)[0] or "").endswith("JoinHandle::join"):
                continue
            n += 1
            dst = t["dst"]["l"] if t.get("dst") else None
            forced = False
            for bj, t2 in lib.calls(f):
                p2 = lib.norm(lib.callee(t2)[0] or "")
                if p2.endswith(("Result::<T, E>::unwrap", "Result::<T, E>::expect", "Result::unwrap", "Result::expect")) and t2.get("args") and \
                        lib.op_local(t2["args"][0]) == dst:
                    forced = True
            key = "%s|join-result" % f.path
            ctx.inst(rid, key, sample={"fn": f.path, "forced": forced, "tabled": f.path in JOIN_UNWRAP_OK})
            if forced and f.path not in JOIN_UNWRAP_OK:
                ctx.finding(rid, key, "%s force-unwraps the result of joining a thread: if that thread panicked at any time before (a request it could not cope with), "
                            "the process ends with status 101 after an orderly `shutdown` and `exit`" % f.path.rsplit("::", 2)[-2:][0] + "::" + f.path.rsplit("::", 1)[-1],
                            "%s:%s" % (f.file, t.get("line")))
    if n < 2:
        ctx.fail_closed(rid, "fewer than 2 JoinHandle::join sites found (%d)" % n)
    ds = fx.fn("mos::debugger::DebugSession::start")
    if ds is None:
        ctx.fail_closed(rid, "DebugSession::start not found")
        return
    reach = cg.reach([ds.id])
    sites = 0
    per_owner = {}
    for fid in sorted(reach, key=lambda i: fx.fns[i].path):
        f = fx.fns[fid]
        if f.crate != "mos" or "::tests::" in f.path or "::testing" in f.path:
            continue
        owner = f
        while owner.kind == "closure" and owner.d.get("parent") in fx.fns:
            owner = fx.fns[owner.d["parent"]]
        for bi, t in lib.calls(f):
            p = lib.norm(lib.callee(t)[0] or "")
            if "panicking::" in p or "begin_panic" in p:
                per_owner[owner.path] = per_owner.get(owner.path, 0) + 1
                cnt = per_owner[owner.path]
                sites += 1
                ok = PANIC_OK.get(owner.path)
                key = "%s|panic#%d" % (owner.path, cnt)
                ctx.inst(rid, key, sample={"fn": f.path, "line": t.get("line"), "tabled": bool(ok and cnt <= ok[0])})
                if not (ok and cnt <= ok[0]):
                    ctx.finding(rid, key, "%s, reachable from the debug session's message loop, panics explicitly (line %s): the debugger thread dies on a request it "
                                "could have answered with an error, and with it every later debug session of this server" % (f.path, t.get("line")),
                                "%s:%s" % (f.file, t.get("line")))
    # (c) the configuration may be missing (no mos.toml, or one that does not parse)
    cfgs = 0
    for f in sorted(fx.all_fns("mos"), key=lambda f: f.path):
        if "::tests::" in f.path or "::testing" in f.path or not f.blocks:
            continue
        for bi, t in lib.calls(f):
            if not lib.pm(lib.callee(t)[0], "LspContext::config"):
                continue
            cfgs += 1
            dst = t["dst"]["l"] if t.get("dst") else None
            key = "%s|config" % f.path
            forced = any(lib.norm(lib.callee(t2)[0] or "").endswith(("Option::<T>::unwrap", "Option::<T>::expect", "Option::unwrap", "Option::expect")) and t2.get("args") and
                         lib.op_local(t2["args"][0]) == dst for _, t2 in lib.calls(f))
            ctx.inst(rid, key, sample={"fn": f.path, "forced": forced})
            if forced:
                ctx.finding(rid, key, "%s force-unwraps LspContext::config(): without a (valid) mos.toml the thread panics — holding the lock of the language server's "
                            "context, which takes the language server down with it" % f.path, "%s:%s" % (f.file, t.get("line")))
    if cfgs < 2:
        ctx.fail_closed(rid, "fewer than 2 callers of LspContext::config found (%d)" % cfgs)
    ctx.inst(rid, "DebugSession::start|reach", sample={"functions": len(reach), "explicit_panic_sites": sites})
    if len(reach) < 300:
        ctx.fail_closed(rid, "fewer than 300 functions reachable from DebugSession::start (%d)" % len(reach))


def r209(ctx, fx):
    rid = ctx.rule("R20.9", "nobody misses the shutdown: LspContext::invoke_shutdown_handlers records in the shutdown manager that it has run, and add_shutdown_handler "
                   "reads that record and signals a handler that is registered afterwards at once — a debug client that connects between `shutdown` and `exit` "
                   "would otherwise keep its session, and the process, alive")
    inv = fx.fn("mos::lsp::LspContext::invoke_shutdown_handlers")
    add = fx.fn("mos::lsp::LspContext::add_shutdown_handler")
    if inv is None or add is None:
        ctx.fail_closed(rid, "invoke_shutdown_handlers / add_shutdown_handler not found")
        return
    SM = "mos::lsp::ShutdownManager"
    written = {n for of, n, kind, _, _ in lib.writes_of(inv) if of == SM and kind == "assign"}
    read = set()
    for b in add.blocks:
        for st in b["stmts"] + [b["term"]]:
            for pl in _places(st):
                for e in (pl.get("p") or []):
                    if isinstance(e, dict) and e.get("of") == SM and "n" in e:
                        read.add(e["n"])
    flag = sorted((written & read) - {"handlers"})
    sends = [bi for bi, t in lib.calls(add) if lib.norm(lib.callee(t)[0] or "").endswith(("Sender::send", "Sender<T>::send", "Sender::try_send", "Sender<T>::try_send"))]
    key = "ShutdownManager|late-registration"
    ctx.inst(rid, key, sample={"record_written_by_invoke": sorted(written), "read_by_add": sorted(read), "flag": flag, "signals_at_once": bool(sends)})
    if not flag or not sends:
        ctx.finding(rid, key, "a shutdown handler registered after the handlers were invoked is never signalled (%s): a debug session that starts between `shutdown` and "
                    "`exit` never learns of the shutdown and the joined debugger thread keeps the process alive" % (
                        "no record of the invocation that add_shutdown_handler reads" if not flag else "add_shutdown_handler does not send"), add.where)


def _places(x):
    out = []

    def go(v):
        if isinstance(v, dict):
            if "l" in v and isinstance(v.get("l"), int):
                out.append(v)
            for w in v.values():
                go(w)
        elif isinstance(v, list):
            for w in v:
                go(w)
    go(x)
    return out


def r2010(ctx, fx, cg):
    rid = ctx.rule("R20.10", "a thread that its owner joins does not sleep for long: every `thread::sleep` reachable from the closure of a joined thread (the debugger "
                   "thread, the machine poller) takes a constant duration — `Duration::from_millis/secs(<literal>)` of at most one second, or a named constant. A duration that is "
                   "computed (a back-off that grows, a `remaining` that is not cut into steps) is a wait the joiner cannot cut short: `exit` after `shutdown` "
                   "takes as long as the sleep that happens to be in progress")
    owners = {}
    for f in fx.all_fns("mos"):
        if "::tests::" in f.path or "::testing" in f.path or not f.blocks:
            continue
        o = f
        while o.kind == "closure" and o.d.get("parent") in fx.fns:
            o = fx.fns[o.d["parent"]]
        ty = o.d.get("impl_self")
        if not ty:
            continue
        for bi, t in lib.calls(f):
            p = lib.norm(lib.callee(t)[0] or "")
            if p.endswith("JoinHandle::join"):
                owners.setdefault(ty, {"spawn": [], "join": 0})["join"] += 1
            elif (p.startswith("std::thread") and p.endswith("::spawn")) or p.endswith("Builder::spawn"):
                owners.setdefault(ty, {"spawn": [], "join": 0})["spawn"].append((f, t))
    n = 0
    seen = set()
    for ty, d in sorted(owners.items()):
        if not d["spawn"] or not d["join"]:
            continue
        for g, t in d["spawn"]:
            aty = g.locals[lib.op_local(t["args"][0])]["ty"] if t.get("args") and lib.op_local(t["args"][0]) is not None else ""
            clos = [c for c in fx.fns.values() if c.kind == "closure" and c.path.startswith(g.path + "::{closure") and ("@%s:" % c.where) in aty.replace(": ", ":")]
            for c in clos:
                for fid in sorted(cg.reach([c.id]), key=lambda i: fx.fns[i].path):
                    f = fx.fns[fid]
                    if f.crate != "mos" or "::tests::" in f.path or not f.blocks:
                        continue
                    du = None
                    k0 = 0
                    for bi, t2 in lib.calls(f):
                        p2 = lib.norm(lib.callee(t2)[0] or "")
                        if not (p2.endswith("thread::sleep") or p2.endswith("thread::functions::sleep")):
                            continue
                        k0 += 1
                        key = "%s|sleep#%d" % (f.path, k0)
                        if key in seen:
                            continue
                        seen.add(key)
                        n += 1
                        du = du or lib.DefUse(f)
                        a = lib.op_local(t2["args"][0]) if t2.get("args") else None
                        dd = du.single_def(a) if a is not None else None
                        for _ in range(6):      # through copies / moves of the value
                            if dd and dd[2] == "assign" and dd[3]["rv"]["k"] == "use" and lib.op_local(dd[3]["rv"]["op"]) is not None:
                                dd = du.single_def(lib.op_local(dd[3]["rv"]["op"]))
                            else:
                                break
                        ms = None
                        if dd and dd[2] == "call":
                            cp = lib.norm(lib.callee(dd[3])[0] or "")
                            cst = lib.op_const(dd[3]["args"][0]) if dd[3].get("args") else None
                            if cst is not None and cst.get("int") is not None:
                                unit = {"from_millis": 1, "from_secs": 1000, "from_micros": 0.001, "from_nanos": 0.000001}.get(cp.rsplit("::", 1)[-1])
                                if unit is not None:
                                    ms = cst["int"] * unit
                        named = t2.get("args") and lib.op_const(t2["args"][0]) is not None     # a `const` of type Duration: fixed at compile time
                        # `d.min(<constant>)`: cut into steps of a fixed size
                        if dd and dd[2] == "call" and lib.norm(lib.callee(dd[3])[0] or "").endswith("::min") and \
                                any(lib.op_const(a_) is not None for a_ in dd[3].get("args", [])):
                            named = True
                        ctx.inst(rid, key, sample={"fn": f.path, "line": t2.get("line"), "milliseconds": ms, "named_constant": bool(named),
                                                   "joined_thread_of": ty.rsplit("::", 1)[-1]})
                        if named and ms is None:
                            continue
                        if ms is None or ms > 1000:
                            ctx.finding(rid, key, "%s, which runs on a thread that %s joins, sleeps for %s (line %s): when the joiner asks the thread to stop it answers "
                                        "only after the sleep in progress — `mos lsp` stays for that long after `exit`" % (
                                            f.path.rsplit("::", 2)[-2] + "::" + f.path.rsplit("::", 1)[-1], ty.rsplit("::", 1)[-1],
                                            "a computed duration" if ms is None else "%d ms" % ms, t2.get("line")), "%s:%s" % (f.file, t2.get("line")))
    if n < 4:
        ctx.fail_closed(rid, "fewer than 4 sleeps reachable from joined threads found (%d; 7 were counted)" % n)


def r2011(ctx, fx, cg):
    rid = ctx.rule("R20.11", "while it waits for a client, the debugger thread reads nothing from a socket without a limit: the function that accepts connections "
                   "(the caller of TcpListener::accept) and what it calls on the same thread contain no TcpStream::peek / read / read_exact / read_to_end / "
                   "read_line, unless the same function sets a read timeout on the stream — a blocking read on a client that says nothing is a wait that neither "
                   "the shutdown flag nor the shutdown handlers (not registered yet) can end")
    acc = [g for g in fx.all_fns("mos") if "::tests::" not in g.path and g.blocks and any(lib.pm(lib.callee(t)[0], "TcpListener::accept") for _, t in lib.calls(g))]
    if not acc:
        ctx.fail_closed(rid, "no caller of TcpListener::accept found")
        return
    READS = ("TcpStream::peek", "::read", "::read_exact", "::read_to_end", "::read_to_string", "::read_line", "::read_until", "::fill_buf")
    for a in sorted(acc, key=lambda g: g.path):
        todo = [a]
        seen = {a.id}
        bodies = []
        while todo:
            g = todo.pop()
            bodies.append(g)
            if len(bodies) > 12:
                break
            for _, t in lib.calls(g):
                p, fr = lib.callee(t)
                h = fx.fns.get(fr.get("rid") or fr.get("id")) if p else None
                if h is not None and h.id not in seen and h.crate == "mos" and h.kind != "closure" and h.blocks and h.path.startswith("mos::debugger::connection"):
                    seen.add(h.id)
                    todo.append(h)
        k0 = 0
        for g in bodies:
            has_timeout = any(lib.norm(lib.callee(t)[0] or "").endswith("set_read_timeout") for _, t in lib.calls(g))
            for _, t in lib.calls(g):
                pn = lib.norm(lib.callee(t)[0] or "")
                full = lib.callee(t)[1].get("full", "") or ""
                rl = lib.op_local(t["args"][0]) if t.get("args") else None
                rty = g.locals[rl]["ty"] if rl is not None else ""
                if not any(pn.endswith(r) for r in READS) or "TcpStream" not in (rty + full + pn):
                    continue
                k0 += 1
                key = "%s|socket-read#%d" % (a.path, k0)
                ctx.inst(rid, key, sample={"fn": g.path, "call": pn.rsplit("::", 2)[-2] + "::" + pn.rsplit("::", 1)[-1], "line": t.get("line"), "read_timeout_set": has_timeout})
                if not has_timeout:
                    ctx.finding(rid, key, "%s, on the debugger thread before a session exists, reads from the socket with `%s` and no read timeout: a client that connects "
                                "and sends nothing keeps the thread there, `exit` after `shutdown` never ends and the port stays open" % (
                                    g.path.rsplit("::", 1)[-1], pn.rsplit("::", 1)[-1]), "%s:%s" % (g.file, t.get("line")))
        ctx.inst(rid, "%s|scan" % a.path, sample={"bodies_on_the_accepting_thread": [g.path for g in bodies], "socket_reads": k0})


def r2012(ctx, fx, cg):
    rid = ctx.rule("R20.12", "waiting for a thread happens where the thread has been told to end, not wherever a value goes out of scope: no `Drop::drop` of the workspace "
                   "reaches JoinHandle::join. A destructor runs on every way out — also on the error returns (`lsp.start()?`) that skip the orderly shutdown, where the "
                   "shutdown handlers were not invoked and a running debug session, which watches its handler channel and not the server's flag, is never told to stop: "
                   "the process waits for it for ever. The debugger thread is joined by DebugServer::join, which is only called behind the language server's orderly end")
    drops = [f for f in fx.all_fns() if f.blocks and "::tests::" not in f.path and "as core::ops::drop::Drop>::drop" in f.path.replace("std::ops", "core::ops")]
    drops = [f for f in drops if f.path.lstrip("<").startswith(("mos::", "mos_core::"))]
    n = 0
    for f in sorted(drops, key=lambda f: f.path):
        n += 1
        reach = cg.reach([f.id])
        joins = []
        for i in reach:
            g = fx.fns[i]
            for bi, t in lib.calls(g):
                p = lib.norm(lib.callee(t)[0] or "")
                if p.endswith("JoinHandle<T>::join") or p.endswith("JoinHandle::join"):
                    joins.append("%s:%s" % (g.path.rsplit("::", 2)[-2] + "::" + g.path.rsplit("::", 1)[-1], t.get("line")))
        key = "%s|joins-no-thread" % f.path
        ctx.inst(rid, key, sample={"drop": f.path, "functions_reached": len(reach), "joins": joins})
        if joins:
            ctx.finding(rid, key, "%s waits for a thread (%s): it runs on every way out of the scope, also where the thread was never told to end — with a debug client "
                        "connected and the language server leaving through an error return, the process never exits" % (
                            f.path.split(" as ")[0].lstrip("<").rsplit("::", 1)[-1] + "::drop", joins[0]), f.where)
    ctx.inst(rid, "drop-impls", sample={"count": n})
    # the call of DebugServer::join follows the language server's start on every path
    lc = [f for f in fx.all_fns("mos") if f.blocks and "::tests::" not in f.path and
          any(lib.norm(lib.callee(t)[0] or "").endswith("DebugServer::join") for _, t in lib.calls(f))]
    if not lc:
        ctx.fail_closed(rid, "no caller of DebugServer::join found")
    for f in lc:
        starts = [bi for bi, t in lib.calls(f) if lib.norm(lib.callee(t)[0] or "").endswith("LspServer::start")]
        for bi, t in lib.calls(f):
            if lib.norm(lib.callee(t)[0] or "").endswith("DebugServer::join"):
                key = "%s|join-behind-the-orderly-end" % f.path
                ok = bool(starts) and lib.must_pass(f, starts, bi)
                ctx.inst(rid, key, sample={"fn": f.path, "line": t.get("line"), "behind_LspServer_start": ok})
                if not ok:
                    ctx.finding(rid, key, "%s waits for the debugger thread on a path that does not come from the language server's main loop: nobody has invoked the "
                                "shutdown handlers there" % f.path.rsplit("::", 1)[-1], "%s:%s" % (f.file, t.get("line")))


ACCESSOR = "MachineAdapterMemoryAccessor as mos::memory_accessor::MemoryAccessor>::read"
# call edges the class-hierarchy resolution adds that cannot be taken
LOCK_INFEASIBLE = [
    ("mos::debugger::MachineAdapterMemoryAccessor", ACCESSOR,
     "the receiver of that `read` is a `dyn MachineAdapter`; MachineAdapterMemoryAccessor implements MemoryAccessor (a supertrait) but is no MachineAdapter"),
]
# code that never reaches a callee, however many calls lie between
LOCK_CONTEXT_CUTS = [
    ("mos::test_runner::", ACCESSOR,
     "the test runner evaluates with the `ram()` it registered itself, which reads its memory directly; the adapter-backed accessor is registered only for machines "
     "without a program of their own (C19 R19.8 checks that on every run)"),
    ("mos::debugger::adapters::test_runner::", ACCESSOR, "as above: the adapter of the test runner executes through the test runner"),
]
# pairs of lock classes taken in both orders, read one by one: (A, B) sorted -> reason
LOCK_PAIRS_OK = {
    ("Box<dyn MachineAdapter + Send + Sync>", "Box<dyn MemoryAccessor + Send + Sync>"):
        "two mutexes of one type: under the adapter the test runner's accessor is locked (TestRunnerAdapter::next -> assertion -> ram()); the adapter is taken under an "
        "accessor's mutex only by the adapter-backed accessor, which the test runner never gets (R19.8)",
    ("Box<dyn MachineAdapter + Send + Sync>", "CodegenContext"):
        "two mutexes of one type: under the adapter the test runner's own program is locked (assertions during `next` / `stepIn`); the adapter is taken under a program "
        "only through the adapter-backed ram(), registered on the language server's program for machines without their own (R19.8), whose `next` locks no program",
}


def r2013(ctx, fx, cg):
    from . import lockorder
    rid = ctx.rule("R20.13", "lock order across threads (analysis A11, rules/lockorder.py): for every body, the lock classes (the type behind a Mutex / RwLock guard) that "
                   "may be acquired — directly or in anything the callee can reach, `dyn` calls resolved over all implementations — while a guard is must-alive give "
                   "an edge held -> acquired. Two classes with edges in both directions whose witnesses can run on different threads (closures handed to thread::spawn, "
                   "`main`) are two threads waiting for each other; a class re-acquired through a callee while an exclusive guard of it is held is one thread waiting "
                   "for itself. Every such pair is in a table with the reason why the instances or the paths differ, or it is a finding: a request that is never "
                   "answered, and a language server that does not exit")
    # the context cuts and the two tabled pairs rest on one fact, which is checked here and not taken on trust
    from .c19 import adapter_backed_ram_guarded
    premise = adapter_backed_ram_guarded(fx)
    ctx.inst(rid, "premise", sample={"adapter_backed_ram_only_for_machines_without_a_program": premise})
    L = lockorder.LockOrder(fx, cg, LOCK_INFEASIBLE, LOCK_CONTEXT_CUTS if premise else ())
    ctx.inst(rid, "graph", sample={"bodies_with_guards": L.n_bodies, "edges_between_lock_classes": len(L.edges), "thread_entry_points": sorted(set(L.roots.values())),
                                   "infeasible_edges_removed": dict(L.removed), "functions_under_a_context_cut": dict(L.cut)})
    if L.n_bodies < 60 or len(L.edges) < 20 or len(L.roots) < 6:
        ctx.fail_closed(rid, "the lock graph lost its anchors: %d bodies with guards, %d edges, %d thread entry points" % (L.n_bodies, len(L.edges), len(L.roots)))
    for i, (pre, suf, _) in enumerate(LOCK_INFEASIBLE):
        if not L.removed.get(i):
            ctx.fail_closed(rid, "the tabled infeasible call edge %s -> …%s no longer exists: the table entry must go" % (pre, suf[-40:]))

    def wit(x):
        return "%s:%s (calls %s) [%s]" % (x[0].path.rsplit("::", 2)[-2].split(" as ")[0].lstrip("<") + "::" + x[0].path.rsplit("::", 1)[-1].rstrip(">"), x[1],
                                        "::".join(x[2]), ", ".join(sorted(L.thread_of.get(x[0].id, {"?"}))))
    for a, b, w, w2, verdict in L.cycles():
        sa, sb = lockorder.short(a), lockorder.short(b)
        key = "%s <-> %s" % (sa, sb) if a != b else "%s re-acquired" % sa
        tab = LOCK_PAIRS_OK.get((sa, sb)) if premise else None
        ctx.inst(rid, key, sample={"verdict": verdict, "tabled": bool(tab), "held_then_acquired": [wit(x) for x in w[:3]], "the_other_way": [wit(x) for x in w2[:3]]})
        if verdict == "same-thread" or tab:
            continue
        if a == b:
            ctx.finding(rid, key, "a guard of `%s` is held at %s, and what is called there can lock `%s` again: std's locks are not re-entrant, the thread waits for itself"
                        % (sa, wit(w[0]), sa), w[0][0].where)
        else:
            ctx.finding(rid, key, "`%s` is locked while `%s` is held at %s, and the other way round at %s: when the two run at the same time each waits for the lock the "
                        "other holds — the request is never answered, no later one either, and `shutdown` + `exit` does not end the process" % (
                            sb, sa, wit(w[0]), wit(w2[0])), w[0][0].where)


def r2014(ctx, fx):
    from . import locks, lockorder
    rid = ctx.rule("R20.14", "the debugger borrows the language server's context for a look, not for work: in `mos::debugger` no call is made while a guard of `LspContext` "
                   "is must-alive except methods of the context itself and the standard library's plumbing. A panic under that guard (launching a machine for a "
                   "`testCaseName` that names a macro) poisons the mutex the main loop locks for every message — `shutdown` is then answered by a panic and the "
                   "process ends with status 101")
    n = 0
    j = 0
    for f in sorted(fx.all_fns("mos"), key=lambda f: f.path):
        if not f.blocks or "::tests::" in f.path or not f.path.lstrip("<").startswith("mos::debugger"):
            continue
        gl = locks.guard_locals(f)
        mine = {l for l in gl if (lockorder.guard_of(f.locals[l]["ty"]) or ("", ""))[1].endswith("LspContext")}
        if not mine:
            continue
        at = locks.must_live(f, set(gl))
        for bi, t in lib.calls(f):
            if not (set(at.get(bi, ())) & mine):
                continue
            p, fr = lib.callee(t)
            p = p or ""
            gid = fr.get("rid") or fr.get("id")
            ws = gid in fx.fns and fx.fns[gid].path.lstrip("<").startswith(("mos::", "mos_core::"))
            own = "LspContext" in p or "lsp::" in lib.norm(p) and "LspParsingSource" in p
            n += 1
            key = "%s|under-the-context#%d" % (f.path, n)
            ctx.inst(rid, key, sample={"fn": f.path, "line": t.get("line"), "callee": lib.norm(p)[-70:], "workspace_function_outside_the_context": bool(ws and not own)})
            if ws and not own:
                j += 1
                ctx.finding(rid, "%s|work-under-the-context#%d" % (f.path, j),
                            "%s calls `%s` while it holds the language server's context: if that panics (a launch for a `testCaseName` that is a macro does), the mutex "
                            "is poisoned, the main loop's next `lock().unwrap()` panics, `shutdown` gets no answer and the exit status is 101" % (
                                f.path.rstrip(">").rsplit("::", 1)[-1], lib.norm(p).rsplit("::", 2)[-2] + "::" + lib.norm(p).rsplit("::", 1)[-1]), "%s:%s" % (f.file, t.get("line")))
    if n < 3:
        ctx.fail_closed(rid, "fewer than 3 calls under a guard of the language server's context found in the debugger (%d)" % n)


def run(ctx):
    fx = ctx.facts
    cg = lib.CallGraph(fx)
    r2013(ctx, fx, cg)
    r2014(ctx, fx)
    r206(ctx, fx)
    r204(ctx, fx, cg)
    r205(ctx, fx)
    r207(ctx, fx)
    r208(ctx, fx, cg)
    r209(ctx, fx)
    r2010(ctx, fx, cg)
    r2011(ctx, fx, cg)
    r2012(ctx, fx, cg)
    r201(ctx, fx, cg)
    r202(ctx, fx, cg)
    r203(ctx, fx, cg)
    ctx.not_decided("promptness; sockets left bound; behaviour with a debugger attached and a test running or paused; closing the client's end of the pipe without `shutdown`")
