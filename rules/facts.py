"""Fact extraction orchestration and loading.

The facts are produced by the `mosfacts` rustc driver (engine/mosfacts) from the
*current working tree* of the repository.  They are cached under
/verif/.cache/<sha256 of the tree's sources>/<profile>/ so that all checks share
one extraction; any edit to a source file changes the key.
"""
import fcntl
import hashlib
import json
import os
import pickle
import shutil
import subprocess
import sys
import time

VERIF = os.path.dirname(os.path.dirname(os.path.abspath(__file__)))
REPO = os.environ.get("MOSVERIF_REPO", "/repo")
CACHE = os.path.join(VERIF, ".cache")
DRIVER = os.path.join(VERIF, "engine", "mosfacts", "target", "release", "mosfacts")
WORKSPACE_CRATES = ("mos_core", "mos", "mos_testing")

PROFILES = {
    # shipped configuration as `cargo check` sees it (debug assertions + overflow checks on)
    "dev": {"rustflags": "", "cargo": []},
    # release-like MIR: what `cargo build --release` ships
    "rel": {"rustflags": "-C overflow-checks=off -C debug-assertions=off", "cargo": []},
    # census only: every target including tests
    "all": {"rustflags": "", "cargo": ["--all-targets"]},
}


def tree_key(repo=REPO):
    h = hashlib.sha256()
    files = []
    for root, dirs, fs in os.walk(repo):
        dirs[:] = sorted(d for d in dirs if d not in ("target", ".git", "node_modules", "vscode", "docs"))
        for f in sorted(fs):
            if f.endswith(".rs") or f in ("Cargo.toml", "Cargo.lock"):
                files.append(os.path.join(root, f))
    for f in files:
        h.update(os.path.relpath(f, repo).encode())
        h.update(b"\0")
        with open(f, "rb") as fh:
            h.update(fh.read())
        h.update(b"\0")
    # the driver is part of the key: a rebuilt driver invalidates old facts
    try:
        st = os.stat(DRIVER)
        h.update(("%d:%d" % (st.st_size, int(st.st_mtime))).encode())
    except OSError:
        pass
    return h.hexdigest()[:24], len(files)


def _prune(keep):
    try:
        ents = [os.path.join(CACHE, e) for e in os.listdir(CACHE)]
    except OSError:
        return
    ents = [e for e in ents if os.path.isdir(e)]
    ents.sort(key=lambda e: os.stat(e).st_mtime, reverse=True)
    for e in ents[4:]:
        if os.path.basename(e) != keep:
            shutil.rmtree(e, ignore_errors=True)


def extract(repo, out, profile):
    """run the driver over `repo`, facts into `out` (fresh target dir, removed afterwards)"""
    if not os.access(DRIVER, os.X_OK):
        raise SystemExit("mosfacts driver not built: run MANIFEST.setup_cmd")
    p = PROFILES[profile]
    env = dict(os.environ)
    env["MOSFACTS_RUSTFLAGS"] = p["rustflags"]
    t0 = time.time()
    r = subprocess.run(
        [os.path.join(VERIF, "engine", "run_extract.sh"), repo, out, profile] + p["cargo"],
        env=env, stdout=subprocess.PIPE, stderr=subprocess.STDOUT, text=True)
    if r.returncode != 0:
        sys.stdout.write(r.stdout)
        raise SystemExit("fact extraction failed (the tree does not compile?)")
    return time.time() - t0


def ensure(profile="dev", repo=REPO):
    """returns (dir with facts, cache key, number of source files hashed, seconds spent extracting)"""
    os.makedirs(CACHE, exist_ok=True)
    key, nfiles = tree_key(repo)
    if repo != REPO:
        key = "x" + key
    d = os.path.join(CACHE, key, profile)
    lock = open(os.path.join(CACHE, ".lock"), "w")
    fcntl.flock(lock, fcntl.LOCK_EX)
    spent = 0.0
    try:
        if not os.path.exists(os.path.join(d, "DONE")):
            shutil.rmtree(d, ignore_errors=True)
            os.makedirs(d)
            spent = extract(repo, d, profile)
            need = ["mos_core.rlib.json", "mos.executable.json"]
            for n in need:
                if not os.path.exists(os.path.join(d, n)):
                    raise SystemExit("fact extraction produced no %s (driver skipped?)" % n)
            with open(os.path.join(d, "DONE"), "w") as f:
                f.write("%f\n" % spent)
            _prune(key)
        os.utime(os.path.join(CACHE, key))
    finally:
        fcntl.flock(lock, fcntl.LOCK_UN)
        lock.close()
    return d, key, nfiles, spent


class Fn:
    __slots__ = ("d", "crate", "_succ", "_idom", "_pred")

    def __init__(self, d, crate):
        self.d = d
        self.crate = crate
        self._succ = None
        self._idom = None
        self._pred = None

    def __getattr__(self, k):
        try:
            return self.d[k]
        except KeyError:
            raise AttributeError(k)

    @property
    def where(self):
        return "%s:%s" % (self.d["file"], self.d["lo"])

    def __repr__(self):
        return "<fn %s>" % self.d["path"]


class Facts:
    def __init__(self, d, profile, kinds=("rlib", "executable")):
        self.dir = d
        self.profile = profile
        self.crates = {}
        self.fns = {}         # id -> Fn
        self.by_path = {}     # path -> [Fn]
        self.adts = {}        # path -> adt dict
        self.impls = []
        self.test_crates = {}
        for fn in sorted(os.listdir(d)):
            if not fn.endswith(".json"):
                continue
            crate, kind, _ = fn.rsplit(".", 2)
            pk = os.path.join(d, fn[:-5] + ".pickle")
            if os.path.exists(pk):
                with open(pk, "rb") as f:
                    data = pickle.load(f)
            else:
                with open(os.path.join(d, fn)) as f:
                    data = json.load(f)
                tmp = pk + ".%d" % os.getpid()
                with open(tmp, "wb") as f:
                    pickle.dump(data, f, protocol=pickle.HIGHEST_PROTOCOL)
                os.replace(tmp, pk)
            if kind not in kinds:
                self.test_crates[(crate, kind)] = data
                continue
            self.crates[crate] = data
            for a in data["adts"]:
                self.adts[a["path"]] = a
            for i in data["impls"]:
                i["crate"] = crate
                self.impls.append(i)
            for f in data["fns"]:
                o = Fn(f, crate)
                self.fns[f["id"]] = o
                self.by_path.setdefault(f["path"], []).append(o)

    def fn(self, path):
        """unique function with exactly this pretty path"""
        l = self.by_path.get(path, [])
        return l[0] if len(l) == 1 else None

    def find(self, suffix, crate=None):
        return [f for p, l in self.by_path.items() if p.endswith(suffix) for f in l
                if crate is None or f.crate == crate]

    def all_fns(self, crate=None):
        for f in self.fns.values():
            if crate is None or f.crate == crate:
                yield f


_loaded = {}


def load(profile="dev", repo=REPO):
    k = (profile, repo)
    if k not in _loaded:
        d, key, nfiles, spent = ensure(profile, repo)
        f = Facts(d, profile, kinds=("rlib", "executable"))
        f.key = key
        f.nfiles = nfiles
        f.extract_s = spent
        _loaded[k] = f
    return _loaded[k]
