"""Extraction of the nom combinator grammar from typed HIR (A6).

A parser function's body is turned into a small grammar term:
  ("seq", [g…])            nom::sequence::tuple / pair
  ("alt", [g…])            nom::branch::alt
  ("opt"|"many0"|"many1"|"not"|"recognize"|"all_consuming"|"located", g)
  ("ws", g) / ("mws", g)   single-line / multi-line leading trivia wrapper
  ("char", c) ("tag", s, nocase:bool) ("isa", s) ("noneof", s) ("rest",) ("prim", name)
  ("nt", fn path)          reference to another parser function
  ("map", g, closure)      nom map / map_once / mos map_once; closure is the HIR closure node
  ("expect", g, msg)
  ("seplist1", sep, g)
  ("call", path, [g…])     any other call whose arguments are parsers (e.g. arg_list)
  ("?", description)       unrecognised
Every term is a tuple whose last element may be a dict {"ln":…} with the source line.
"""
from . import lib

SEQ = ("nom::sequence::tuple", "nom::sequence::pair")
WRAP1 = {
    "nom::combinator::opt": "opt", "nom::multi::many0": "many0", "nom::multi::many1": "many1",
    "nom::combinator::not": "not", "nom::combinator::recognize": "recognize",
    "nom::combinator::all_consuming": "all_consuming",
    "mos_core::parser::located": "located", "mos_core::parser::ws": "ws", "mos_core::parser::mws": "mws",
}
MAPS = ("nom::combinator::map", "mos_core::parser::map_once")
PRIMS = {
    "nom::character::complete::alpha1": "alpha1", "nom::character::complete::alphanumeric1": "alphanumeric1",
    "nom::character::complete::hex_digit1": "hex_digit1", "nom::character::complete::space1": "space1",
    "nom::combinator::rest": "rest",
}


class Env:
    """let-bound names of the enclosing function body → init expression"""

    def __init__(self, body):
        self.lets = {}
        for n in lib.hwalk(body):
            if n.get("k") == "let" and n.get("pat", {}).get("k") == "bind" and "init" in n:
                self.lets.setdefault(n["pat"]["name"], n["init"])


def _lit_arg(x, i=0):
    a = x["args"]
    if len(a) > i:
        return lib.hlit(a[i])
    return None


def to_grammar(x, env, depth=0):
    x = lib.strip(x)
    if not isinstance(x, dict) or depth > 40:
        return ("?", "depth")
    k = x.get("k")
    ln = {"ln": x.get("ln")}
    if k == "path":
        r = x.get("res") or {}
        if r.get("dk") == "Local":
            init = env.lets.get(r["name"])
            if init is not None:
                return to_grammar(init, env, depth + 1)
            return ("?", "local " + r["name"], ln)
        p = r.get("path")
        if p in PRIMS:
            return ("prim", PRIMS[p], ln)
        return ("nt", p, ln)
    if k == "closure":
        # |input| inner(input)  — a forwarding closure;  or || parser  — a thunk
        b = lib.strip(x["body"])
        # { let a = …; let b = …; tail }  — the lets are in env already
        while isinstance(b, dict) and b.get("k") == "block" and b.get("expr") is not None and \
                all(st.get("k") == "let" for st in b.get("stmts", [])):
            b = lib.strip(b["expr"])
        if isinstance(b, dict) and b.get("k") == "call" and len(b["args"]) == 1 and \
                lib.strip(b["args"][0]).get("k") == "path" and \
                (lib.strip(b["args"][0]).get("res") or {}).get("dk") == "Local" and x.get("params"):
            return to_grammar(b["f"], env, depth + 1)
        if not x.get("params"):
            return to_grammar(b, env, depth + 1)
        if len(x.get("params", [])) == 1 and x["params"][0].get("k") == "bind" and isinstance(b, dict):
            pname = x["params"][0]["name"]

            def is_param(a):
                a = lib.strip(a)
                return a.get("k") == "path" and (a.get("res") or {}).get("name") == pname
            # |input| P(…)(input)
            if b.get("k") == "call" and len(b["args"]) == 1 and is_param(b["args"][0]):
                return to_grammar(b["f"], env, depth + 1)
            # |input| helper(input, a, b)
            if b.get("k") == "call" and b["args"] and is_param(b["args"][0]):
                f = lib.strip(b["f"])
                p = (f.get("res") or {}).get("path") if f.get("k") == "path" else None
                if p:
                    return ("call", p, [to_grammar(a, env, depth + 1) for a in b["args"][1:]], ln)
        return ("closure", x, ln)
    if k == "call":
        f = lib.strip(x["f"])
        p = (f.get("res") or {}).get("path") if f.get("k") == "path" else None
        args = x["args"]
        if f.get("k") == "path" and (f.get("res") or {}).get("dk") == "Local":
            # call of a local closure (thunk): optional_suffix()
            init = env.lets.get(f["res"]["name"])
            if init is not None and lib.strip(init).get("k") == "closure" and not args:
                return to_grammar(lib.strip(init)["body"], env, depth + 1)
            return ("?", "call local " + f["res"]["name"], ln)
        if p in SEQ:
            if len(args) == 1 and lib.strip(args[0]).get("k") == "tup":
                return ("seq", [to_grammar(e, env, depth + 1) for e in lib.strip(args[0])["es"]], ln)
            return ("seq", [to_grammar(e, env, depth + 1) for e in args], ln)
        if p == "nom::branch::alt":
            t = lib.strip(args[0])
            es = t["es"] if t.get("k") == "tup" else args
            return ("alt", [to_grammar(e, env, depth + 1) for e in es], ln)
        if p in WRAP1:
            return (WRAP1[p], to_grammar(args[0], env, depth + 1), ln)
        if p in MAPS:
            return ("map", to_grammar(args[0], env, depth + 1), lib.strip(args[1]), ln)
        if p == "mos_core::parser::expect":
            return ("expect", to_grammar(args[0], env, depth + 1), lib.hlit(args[1]), ln)
        if p == "nom::character::complete::char":
            return ("char", _lit_arg(x), ln)
        if p == "nom::bytes::complete::tag":
            v = _lit_arg(x)
            return ("tag", v, False, ln) if v is not None else ("tagvar", lib.hpath(args[0]), False, ln)
        if p == "nom::bytes::complete::tag_no_case":
            v = _lit_arg(x)
            return ("tag", v, True, ln) if v is not None else ("tagvar", lib.hpath(args[0]), True, ln)
        if p == "nom::bytes::complete::is_a":
            return ("isa", _lit_arg(x), ln)
        if p == "nom::bytes::complete::is_not":
            return ("isnot", _lit_arg(x), ln)
        if p == "nom::character::complete::none_of":
            return ("noneof", _lit_arg(x), ln)
        if p == "nom::multi::separated_list1":
            return ("seplist1", to_grammar(args[0], env, depth + 1), to_grammar(args[1], env, depth + 1), ln)
        if p == "mos_core::parser::value":
            return ("value", args[0], ln)
        if p in ("nom::bytes::complete::take_till1", "nom::bytes::complete::take_till",
                 "nom::bytes::complete::take"):
            return ("prim", p.rsplit("::", 1)[1], ln)
        # `parser(input)` application at the end of a function: f(args)(input)
        if f.get("k") == "call":
            return to_grammar(f, env, depth + 1)
        if p is not None:
            gs = []
            for a in args:
                sa = lib.strip(a)
                if sa.get("k") == "path" and (sa.get("res") or {}).get("dk") == "Local" and \
                        (sa.get("res") or {}).get("name") not in env.lets:
                    continue   # the `input` parameter being forwarded
                if sa.get("k") == "lit":
                    gs.append(("lit", sa.get("v"), {"ln": sa.get("ln")}))
                    continue
                gs.append(to_grammar(a, env, depth + 1))
            return ("call", p, gs, ln)
        return ("?", "call", ln)
    if k == "mcall":
        return ("?", "mcall " + str(x.get("path")), ln)
    if k == "block":
        if x.get("expr") is not None:
            return to_grammar(x["expr"], env, depth + 1)
    return ("?", str(k), ln)


def fn_grammar(fn):
    """grammar of a parser function `fn name(input) -> IResult<…> { combinator(input) }`"""
    if not fn.d.get("hir"):
        return None
    body = fn.hir["body"]
    env = Env(body)
    tail = body.get("expr") if body.get("k") == "block" else body
    if tail is None:
        return ("?", "no tail")
    return to_grammar(tail, env)


def walk(g):
    """all sub-terms of a grammar term, pre-order"""
    stack = [g]
    while stack:
        t = stack.pop()
        if not isinstance(t, tuple):
            continue
        yield t
        for c in reversed(t[1:]):
            if isinstance(c, tuple):
                stack.append(c)
            elif isinstance(c, list):
                for e in reversed(c):
                    if isinstance(e, tuple):
                        stack.append(e)


def strip_trivia(g):
    """look through ws/mws/located/recognize/expect wrappers"""
    while isinstance(g, tuple) and g[0] in ("ws", "mws", "located", "recognize", "expect"):
        g = g[1]
    return g


def short(g):
    if not isinstance(g, tuple):
        return str(g)
    h = g[0]
    if h in ("seq", "alt"):
        return "%s(%s)" % (h, ", ".join(short(e) for e in g[1]))
    if h in ("opt", "many0", "many1", "not", "recognize", "located", "ws", "mws", "all_consuming"):
        return "%s(%s)" % (h, short(g[1]))
    if h == "map":
        return "map(%s)" % short(g[1])
    if h == "expect":
        return "expect(%s,%r)" % (short(g[1]), g[2])
    if h == "char":
        return repr(g[1])
    if h == "tag":
        return ("tag_no_case" if g[2] else "tag") + "(%r)" % g[1]
    if h == "nt":
        return str(g[1]).rsplit("::", 1)[-1]
    if h == "call":
        return "%s(%s)" % (g[1].rsplit("::", 1)[-1], ", ".join(short(e) for e in g[2]))
    if h == "seplist1":
        return "seplist1(%s,%s)" % (short(g[1]), short(g[2]))
    return "%s:%s" % (h, g[1] if len(g) > 1 and not isinstance(g[1], dict) else "")


def applied_parsers(fn):
    """for functions written in `let (input, x) = P(args)(input)?;` style: the grammar terms of
    every curried application P(…)(input) in source order"""
    if not fn.d.get("hir"):
        return []
    body = fn.hir["body"]
    env = Env(body)
    out = []
    for n in lib.hwalk(body):
        if n.get("k") == "call" and lib.strip(n["f"]).get("k") == "call" and len(n["args"]) == 1:
            out.append(to_grammar(n["f"], env))
        elif n.get("k") == "call" and lib.strip(n["f"]).get("k") == "path" and len(n["args"]) == 1 and \
                ((lib.strip(n["f"]).get("res") or {}).get("path") or "").startswith("mos_core::parser::") and \
                (lib.strip(n["args"][0]).get("res") or {}).get("dk") == "Local":
            out.append(to_grammar(n["f"], env))
    return out


def unlook(t):
    """`terminated(X, not(Y))` matches the text of X and looks ahead for Y without consuming it: for questions about the matched text it is X"""
    while isinstance(t, tuple) and t[0] == "call" and str(t[1]).endswith("sequence::terminated") and isinstance(t[2], list) and len(t[2]) == 2 and \
            isinstance(t[2][1], tuple) and t[2][1][0] in ("not", "peek"):
        t = t[2][0]
    return t
