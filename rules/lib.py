"""Generic analyses over the mosfacts JSON (DESIGN.md §2.2): CFG, dominance,
must-pass-through, call graph (calls ∪ references ∪ CHA), HIR walking,
field effects, local def/use."""
from collections import defaultdict, deque

import re

_GEN = re.compile(r"::<[^<>]*>")
_GEN_KEEP_IMPL = re.compile(r"::<(?!impl )[^<>]*>|(?<=[A-Za-z0-9_\]])<[^<>]*>")


def norm_keep_impl(p):
    if not p:
        return p
    prev = None
    while prev != p:
        prev = p
        p = _GEN_KEEP_IMPL.sub("", p)
    return p



def norm(p):
    """path without generic argument lists: SymbolTable::<S>::update_data → SymbolTable::update_data
    (impl headers like `<impl Foo>` / `<T as Trait>` are kept)"""
    if not p:
        return p
    prev = None
    while prev != p:
        prev = p
        p = _GEN.sub("", p)
    return p


_AS = re.compile(r"^<.* as ([^<>]+)>::([A-Za-z0-9_]+)$")
_IMPL = re.compile(r"::<impl ([^<> ]+) for [^<>]*>::([A-Za-z0-9_]+)$")


def pm(p, suffix):
    """does (normalised) path p end with the path suffix (on a `::` boundary)?
    `<T as Trait>::method` also matches the suffix `Trait::method`."""
    if not p:
        return False
    raw = p
    p = norm(p)
    if p == suffix or p.endswith("::" + suffix) or (suffix.startswith("<") and p.endswith(suffix)):
        return True
    m = _AS.match(p) or _IMPL.search(norm_keep_impl(raw))
    if m:
        q = "%s::%s" % (m.group(1), m.group(2))
        return q == suffix or q.endswith("::" + suffix)
    return False


# ---------------------------------------------------------------- MIR / CFG


def term_succ(t, cleanup=False):
    k = t["k"]
    out = []
    if k == "goto":
        out.append(t["target"])
    elif k == "switch":
        out.extend(b for _, b in t["targets"])
        out.append(t["otherwise"])
    elif k in ("drop", "assert"):
        out.append(t["target"])
    elif k == "call":
        if t.get("target") is not None:
            out.append(t["target"])
    if cleanup and t.get("unwind") is not None:
        out.append(t["unwind"])
    return out


def succs(fn):
    if fn._succ is None:
        fn._succ = [term_succ(b["term"]) for b in fn.blocks]
    return fn._succ


def preds(fn):
    if fn._pred is None:
        p = [[] for _ in fn.blocks]
        for i, ss in enumerate(succs(fn)):
            for s in ss:
                p[s].append(i)
        fn._pred = p
    return fn._pred


def reachable(fn, start=0, removed=()):
    """blocks reachable from `start` over non-cleanup edges, not entering `removed`"""
    removed = set(removed)
    if start in removed:
        return set()
    seen = {start}
    q = deque([start])
    S = succs(fn)
    while q:
        b = q.popleft()
        for s in S[b]:
            if s not in seen and s not in removed:
                seen.add(s)
                q.append(s)
    return seen


def rpo(fn):
    S = succs(fn)
    seen = set()
    order = []
    stack = [(0, iter(S[0]))]
    seen.add(0)
    while stack:
        b, it = stack[-1]
        adv = False
        for s in it:
            if s not in seen:
                seen.add(s)
                stack.append((s, iter(S[s])))
                adv = True
                break
        if not adv:
            order.append(b)
            stack.pop()
    order.reverse()
    return order


def idoms(fn):
    """immediate dominators (Cooper-Harvey-Kennedy) over non-cleanup edges"""
    if fn._idom is not None:
        return fn._idom
    order = rpo(fn)
    num = {b: i for i, b in enumerate(order)}
    P = preds(fn)
    idom = {0: 0}
    changed = True
    while changed:
        changed = False
        for b in order[1:]:
            new = None
            for p in P[b]:
                if p in idom and p in num:
                    if new is None:
                        new = p
                    else:
                        a, c = p, new
                        while a != c:
                            while num[a] > num[c]:
                                a = idom[a]
                            while num[c] > num[a]:
                                c = idom[c]
                        new = a
            if new is not None and idom.get(b) != new:
                idom[b] = new
                changed = True
    fn._idom = idom
    return idom


def dominates(fn, a, b):
    """block a dominates block b"""
    idom = idoms(fn)
    if b not in idom:
        return False
    while True:
        if a == b:
            return True
        if b == 0:
            return False
        b = idom[b]


def must_pass(fn, through, target, start=0):
    """every non-cleanup path start→target passes a block in `through`"""
    through = set(through)
    if target in through:
        return True
    return target not in reachable(fn, start, removed=through)


def return_blocks(fn):
    return [i for i, b in enumerate(fn.blocks) if b["term"]["k"] == "return" and not b["cleanup"]]


class MustCall:
    """must-pass-through with wrapper summaries: `holds(fn)` iff every path from fn's entry to a normal return passes a call whose (resolved) callee
    satisfies `pred(path)` or is itself a workspace function for which `holds` is true (depth-bounded, cycles count as False).
    `escaping(fn)` lists the return blocks that can be reached without such a call."""

    def __init__(self, facts, pred, depth=4, absent=()):
        """absent: path suffixes of Option-returning functions whose `None` means "there is nothing to do the obligation for" (e.g. the client named
        a document that is not a file); the `None` successor of a switch on such a result counts as passed"""
        self.fx = facts
        self.pred = pred
        self.depth = depth
        self.absent = tuple(absent)
        self.memo = {}

    def absent_blocks(self, fn):
        out = set()
        if not self.absent:
            return out
        opt = set()
        for bi, t in calls(fn):
            p = callee(t)[0]
            if p and any(pm(p, a) for a in self.absent) and not t["dst"].get("p"):
                opt.add(t["dst"]["l"])
        if not opt:
            return out
        # locals holding the discriminant of such a result
        discr = {}
        for bi, si, st in stmts(fn):
            if st["k"] == "assign" and st["rv"].get("k") == "discr" and st["rv"]["place"]["l"] in opt and not st["rv"]["place"].get("p"):
                discr[st["dst"]["l"]] = st["rv"]["place"]["l"]
        for bi, b in enumerate(fn.blocks):
            t = b["term"]
            if t["k"] == "switch":
                l = op_local(t["discr"])
                if l in discr:
                    vals = dict((v, tb) for v, tb in t.get("targets", []))
                    if 0 in vals:
                        out.add(vals[0])
                    elif 1 in vals and t.get("otherwise") is not None:
                        out.add(t["otherwise"])
        return out

    def call_blocks(self, fn, depth=None, stack=()):
        depth = self.depth if depth is None else depth
        out = []
        for bi, t in calls(fn):
            p, fr = callee(t)
            if p is None:
                continue
            if self.pred(p):
                out.append(bi)
                continue
            gid = fr.get("rid") or fr.get("id")
            g = self.fx.fns.get(gid)
            if g is not None and g.blocks and depth > 0 and gid not in stack and self.holds(g, depth - 1, stack + (fn.id,)):
                out.append(bi)
        return out

    @staticmethod
    def error_exit_blocks(fn):
        """blocks that build the error result: `?` (FromResidual::from_residual) or `_0 = Err(..)`; paths through them are not success returns"""
        out = set()
        for bi, t in calls(fn):
            p = callee(t)[0]
            if p and "FromResidual" in p and p.endswith("::from_residual"):
                out.add(bi)
        for bi, si, st in stmts(fn):
            if st["k"] == "assign" and st["dst"].get("l") == 0 and not st["dst"].get("p") and st["rv"].get("k") == "agg" and \
                    str(st["rv"].get("variant", "")) in ("Err", "1") and "Result" in str(st["rv"].get("adt", "")):
                out.add(bi)
        return out

    def escaping(self, fn, depth=None, stack=(), starts=(0,)):
        through = set(self.call_blocks(fn, depth, stack)) | self.error_exit_blocks(fn) | self.absent_blocks(fn)
        live = set()
        for st in starts:
            if st not in through:
                live |= reachable(fn, st, removed=through)
        return [r for r in return_blocks(fn) if r in live and r not in through]

    def holds(self, fn, depth=None, stack=()):
        depth = self.depth if depth is None else depth
        k = (fn.id, depth)
        if k not in self.memo:
            self.memo[k] = False
            self.memo[k] = bool(return_blocks(fn)) and not self.escaping(fn, depth, stack)
        return self.memo[k]


# ---------------------------------------------------------------- operands / places


def op_place(op):
    if op is None:
        return None
    return op.get("copy") or op.get("move")


def op_local(op):
    """local index if the operand is a bare local"""
    p = op_place(op)
    if p is not None and not p.get("p"):
        return p["l"]
    return None


def op_const(op):
    return op.get("const") if op else None


def const_int(op):
    c = op_const(op)
    if c is not None and "int" in c:
        return c["int"]
    return None


def const_str(op):
    c = op_const(op)
    if c is not None and "str" in c:
        return c["str"]
    return None


def place_fields(p):
    """names of the field projections of a place, outermost first"""
    return [e["n"] for e in (p.get("p") or []) if isinstance(e, dict) and "n" in e]


def callee(t):
    """(pretty path of the resolved callee or the declared one, the fn-ref dict)"""
    f = t["f"]
    if "indirect" in f:
        return None, f
    return f.get("rpath") or f["path"], f


def ncallee(t):
    return norm(callee(t)[0])


def calls(fn, cleanup=False):
    for i, b in enumerate(fn.blocks):
        if b["cleanup"] and not cleanup:
            continue
        t = b["term"]
        if t["k"] == "call":
            yield i, t


def stmts(fn, cleanup=False):
    for i, b in enumerate(fn.blocks):
        if b["cleanup"] and not cleanup:
            continue
        for j, s in enumerate(b["stmts"]):
            yield i, j, s


def local_ty(fn, l):
    return fn.locals[l]["ty"]


def local_name(fn, l):
    return fn.locals[l].get("name")


def param_index(fn, ty_part):
    """0-based index (self = 0) of the unique parameter whose type contains `ty_part`, or None"""
    hit = [i - 1 for i in range(1, fn.argc + 1) if ty_part in (local_ty(fn, i) or "")]
    return hit[0] if len(hit) == 1 else None


class DefUse:
    """definitions of locals: assignments (rvalue) and call destinations"""

    def __init__(self, fn):
        self.fn = fn
        self.defs = defaultdict(list)  # local -> [(bi, si|None, kind, payload)]
        for bi, b in enumerate(fn.blocks):
            for si, s in enumerate(b["stmts"]):
                if s["k"] == "assign":
                    self.defs[s["dst"]["l"]].append((bi, si, "assign", s))
            t = b["term"]
            if t["k"] == "call":
                self.defs[t["dst"]["l"]].append((bi, None, "call", t))

    def single_def(self, l):
        d = [x for x in self.defs.get(l, []) if not x[3].get("dst", {}).get("p")]
        return d[0] if len(d) == 1 else None

    def origin(self, l, depth=12):
        """follow plain copies/moves/refs/derefs back to the defining statement of a temp.
        returns (kind, payload) of the first non-trivial definition, or ('param', idx) / None"""
        seen = set()
        while depth > 0 and l not in seen:
            seen.add(l)
            depth -= 1
            if 1 <= l <= self.fn.argc:
                return ("param", l)
            d = self.single_def(l)
            if d is None:
                return None
            _, _, kind, pl = d
            if kind == "call":
                return ("call", pl)
            rv = pl["rv"]
            if rv["k"] == "use":
                p = op_place(rv["op"])
                if p is not None:
                    if p.get("p") and any(isinstance(e, dict) and "n" in e for e in p["p"]):
                        return ("field", pl)
                    l = p["l"]
                    continue
                return ("const", pl)
            if rv["k"] in ("ref", "copy_for_deref"):
                p = rv["place"]
                if p.get("p") and any(isinstance(e, dict) and "n" in e for e in p["p"]):
                    return ("field", pl)
                l = p["l"]
                continue
            if rv["k"] == "cast":
                p = op_place(rv["op"])
                if p is not None and not p.get("p"):
                    l = p["l"]
                    continue
            return (rv["k"], pl)
        return None


# ---------------------------------------------------------------- call graph


class CallGraph:
    """calls ∪ references ∪ CHA(dyn/unresolved trait calls over workspace impls)"""

    def __init__(self, facts):
        self.facts = facts
        self.out = defaultdict(set)     # fn id -> set(fn id)  (workspace fns only)
        self.ext = defaultdict(set)     # fn id -> set(pretty path) of non-workspace callees
        self.callers = defaultdict(set)
        # trait item path -> impl method ids (workspace impls)
        self.trait_impls = defaultdict(set)
        for im in facts.impls:
            for m in im["methods"]:
                if m.get("trait_item"):
                    self.trait_impls[m["trait_item"]].add(m["id"])
        for f in facts.fns.values():
            fid = f.id
            for _, t in calls(f, cleanup=True):
                self._edge(fid, t["f"])
            for r in f.refs:
                self._edge(fid, r)
            # a closure is (conservatively) callable from where it is created
        for a, bs in self.out.items():
            for b in bs:
                self.callers[b].add(a)

    def _edge(self, fid, fr):
        if "indirect" in fr:
            return
        rid = fr.get("rid") or fr["id"]
        if rid in self.facts.fns:
            self.out[fid].add(rid)
        else:
            self.ext[fid].add(fr.get("rpath") or fr["path"])
        # unresolved or virtual trait method → every workspace impl
        if fr.get("rkind") == "virtual" or ("rid" not in fr and fr.get("trait")) or \
                (fr.get("trait") and (fr.get("rid") == fr.get("id"))):
            for mid in self.trait_impls.get(fr["path"], ()):
                if mid in self.facts.fns:
                    self.out[fid].add(mid)

    def reach(self, roots, stop=()):
        """ids of workspace fns reachable from roots (ids), not expanding `stop`"""
        seen = set(roots)
        q = deque(roots)
        stop = set(stop)
        while q:
            a = q.popleft()
            if a in stop:
                continue
            for b in self.out.get(a, ()):
                if b not in seen:
                    seen.add(b)
                    q.append(b)
        return seen

    def path(self, root, target):
        """one call path root→target as list of ids (BFS), or None"""
        prev = {root: None}
        q = deque([root])
        while q:
            a = q.popleft()
            if a == target:
                out = []
                while a is not None:
                    out.append(a)
                    a = prev[a]
                return out[::-1]
            for b in sorted(self.out.get(a, ())):
                if b not in prev:
                    prev[b] = a
                    q.append(b)
        return None


# ---------------------------------------------------------------- HIR


def hwalk(n):
    """every dict node of a HIR s-expression, pre-order"""
    stack = [n]
    while stack:
        x = stack.pop()
        if isinstance(x, dict):
            yield x
            for v in reversed(list(x.values())):
                if isinstance(v, (dict, list)):
                    stack.append(v)
        elif isinstance(x, list):
            for v in reversed(x):
                if isinstance(v, (dict, list)):
                    stack.append(v)


def hir_calls(n, path_suffix=None):
    """HIR call / method-call nodes, optionally filtered by callee path suffix"""
    for x in hwalk(n):
        k = x.get("k")
        if k == "call":
            f = x["f"]
            p = (f.get("res") or {}).get("path") if f.get("k") == "path" else None
            if path_suffix is None or pm(p, path_suffix):
                yield x, p
        elif k == "mcall":
            p = x.get("path")
            if path_suffix is None or pm(p, path_suffix):
                yield x, p


def hcallee(x):
    if x.get("k") == "call":
        f = x["f"]
        if f.get("k") == "path":
            return (f.get("res") or {}).get("path")
        return None
    if x.get("k") == "mcall":
        return x.get("path")
    return None


def hargs(x):
    """arguments of a call / method call (receiver first for methods)"""
    if x.get("k") == "call":
        return x["args"]
    if x.get("k") == "mcall":
        return [x["recv"]] + x["args"]
    return []


def strip(x):
    """look through blocks with a single tail expression, address-of, casts"""
    while isinstance(x, dict):
        k = x.get("k")
        if k == "block" and not x.get("stmts") and x.get("expr") is not None:
            x = x["expr"]
        elif k == "addrof":
            x = x["a"]
        else:
            break
    return x


def hlit(x):
    x = strip(x)
    if isinstance(x, dict) and x.get("k") == "lit":
        return x.get("v")
    return None


def hpath(x):
    x = strip(x)
    if isinstance(x, dict) and x.get("k") == "path":
        r = x.get("res") or {}
        return r.get("path") or r.get("name")
    return None


def pat_variants(p):
    """resolved variant paths mentioned by a pattern, expanding or-patterns: list of alternatives,
    each alternative the resolved path (or a structural description)"""
    k = p.get("k")
    if k == "or":
        out = []
        for q in p["pats"]:
            out.extend(pat_variants(q))
        return out
    return [pat_key(p)]


def pat_key(p):
    k = p.get("k")
    if k == "path":
        return p["res"].get("path")
    if k in ("tstruct", "struct"):
        inner = p.get("pats") or [f["pat"] for f in p.get("fields", [])]
        base = p["res"].get("path")
        if k == "tstruct" and inner:
            return "%s(%s)" % (base, ",".join(str(pat_key(q)) for q in inner))
        return base
    if k == "wild":
        return "_"
    if k == "bind":
        return "_" if not p.get("sub") else pat_key(p["sub"])
    if k == "tuple":
        return tuple(pat_key(q) for q in p["pats"])
    if k == "lit":
        return ("lit", p.get("v"))
    if k == "ref":
        return pat_key(p["sub"])
    return "?" + str(k)


# ---------------------------------------------------------------- field effects (A3)


def writes_of(fn):
    """(adt path, field name, kind, block, line) for every assignment to / &mut borrow of / mutable
    method call on a place that passes through a named field.  kind ∈ assign|mutborrow"""
    out = []
    for bi, si, s in stmts(fn):
        if s["k"] != "assign":
            continue
        for e in (s["dst"].get("p") or []):
            if isinstance(e, dict) and "n" in e and e["of"] not in ("tuple", "closure", ""):
                out.append((e["of"], e["n"], "assign", bi, s.get("line")))
        rv = s["rv"]
        if rv["k"] in ("ref", "rawptr") and rv.get("mut"):
            for e in (rv["place"].get("p") or []):
                if isinstance(e, dict) and "n" in e and e["of"] not in ("tuple", "closure", ""):
                    out.append((e["of"], e["n"], "mutborrow", bi, s.get("line")))
    for bi, t in calls(fn):
        for e in (t["dst"].get("p") or []):
            if isinstance(e, dict) and "n" in e and e["of"] not in ("tuple", "closure", ""):
                out.append((e["of"], e["n"], "assign", bi, t.get("line")))
    return out


# ---------------------------------------------------------------- expression descriptors

_COMM = {"Add", "Mul", "BitXor", "BitAnd", "BitOr", "Eq", "Ne", "And", "Or"}
_FLIP = {"Gt": "Lt", "Ge": "Le"}
_METHOD_OPS = {"add": "Add", "sub": "Sub", "mul": "Mul", "div": "Div", "rem": "Rem", "shl": "Shl", "shr": "Shr"}


def subterms(d):
    """all nested tuples of a descriptor"""
    out = [d]
    if isinstance(d, tuple):
        for x in d:
            if isinstance(x, tuple):
                out.extend(subterms(x))
    return out


def hdesc(e, depth=0):
    """canonical nested-tuple description of a small HIR expression: commutative operands sorted,
    `a > b` rewritten to `b < a`, derefs / borrows / blocks looked through"""
    e = strip(e)
    if not isinstance(e, dict) or depth > 12:
        return ("?",)
    k = e.get("k")
    if k == "path":
        return ("v", hpath(e))
    if k == "lit":
        return ("c", e.get("v"))
    if k == "unary":
        if e["op"] == "Deref":
            return hdesc(e["a"], depth + 1)
        if e["op"] == "Neg" and hlit(e["a"]) is not None:
            return ("c", -hlit(e["a"]))
        return (e["op"], hdesc(e["a"], depth + 1))
    if k == "binary":
        op = e["op"]
        l, r = hdesc(e["l"], depth + 1), hdesc(e["r"], depth + 1)
        if op in _FLIP:
            op, l, r = _FLIP[op], r, l
        if op in _COMM:
            l, r = sorted((l, r), key=repr)
        return (op, l, r)
    if k == "cast":
        return ("cast", e.get("ty"), hdesc(e["a"], depth + 1))
    if k == "field":
        return ("f", e["name"], hdesc(e["a"], depth + 1))
    if k == "index":
        return ("idx", hdesc(e["a"], depth + 1), hdesc(e["i"], depth + 1))
    if k == "mcall":
        nm = e.get("name") or ""
        # a.checked_add(b) / wrapping_ / saturating_ on a primitive integer is the operation `a + b` (overflow behaviour aside)
        if (e.get("path") or "").startswith("core::num::<impl ") and len(e["args"]) == 1 and "_" in nm:
            pre, op = nm.split("_", 1)
            if pre in ("checked", "wrapping", "saturating") and op in _METHOD_OPS:
                op = _METHOD_OPS[op]
                l, r = hdesc(e["recv"], depth + 1), hdesc(e["args"][0], depth + 1)
                if op in _COMM:
                    l, r = sorted((l, r), key=repr)
                return (op, l, r)
        return ("m", norm(e.get("path")), hdesc(e["recv"], depth + 1)) + tuple(hdesc(a, depth + 1) for a in e["args"])
    if k == "call":
        return ("call", norm(hcallee(e))) + tuple(hdesc(a, depth + 1) for a in e["args"])
    if k == "tup":
        return ("tup",) + tuple(hdesc(a, depth + 1) for a in e["es"])
    return ("?", k)


def refdesc(r, names):
    """reference semantics (JSON list) → the same canonical form; `names` maps lhs/rhs/val to local names"""
    if isinstance(r, str):
        return ("v", names.get(r, r))
    if isinstance(r, int):
        return ("c", r)
    op = r[0]
    if op == "bool":
        return ("cast", "i64", refdesc(r[1], names))
    if len(r) == 2:
        return (op, refdesc(r[1], names))
    l, rr = refdesc(r[1], names), refdesc(r[2], names)
    if op in _FLIP:
        op, l, rr = _FLIP[op], rr, l
    if op in _COMM:
        l, rr = sorted((l, rr), key=repr)
    return (op, l, rr)


def owned(fx, fn):
    """fn plus its (nested) closures"""
    return [fn] + [c for c in fx.fns.values() if c.kind == "closure" and c.path.startswith(fn.path + "::{closure")]
