"""A11 — lock order across threads (used by C20 R20.13).

A10 (locks.py) finds a second acquisition of a lock in a body that already holds it.  This analysis looks across bodies and threads:

* lock class      = the type T behind a MutexGuard / RwLockReadGuard / RwLockWriteGuard (instances of one type are not told apart);
* may_acquire(f)  = the classes f or anything it can call acquires (call graph with class-hierarchy resolution of `dyn` calls, closures handed to a call
                    count as called by it), computed after removing the call edges listed as infeasible, each with a reason;
* edge A -> B     = some body holds a guard of A (must-alive at the terminator, as in A10) at a call that may acquire B; the witness is the body, the line and
                    the callee;
* thread(w)       = the thread entry points (closures handed to thread::spawn, `main`) from which the witness body is reachable.

Reported: a pair A -> B, B -> A (A != B) whose witnesses can run on different threads — two threads that take the two locks in opposite order wait for each other
for ever — and A -> A through a call (the inner acquisition is in a callee), on any thread, when one of the two guards is exclusive.  A pair whose witnesses all
belong to one and the same single thread is not a deadlock.  What remains is compared with a table of pairs read one by one."""
import re
from collections import defaultdict
from . import lib, locks

GUARD_RE = re.compile(r"(RwLockReadGuard|RwLockWriteGuard|MutexGuard)<'_, ")


def guard_of(ty):
    m = GUARD_RE.search(ty)
    if not m:
        return None
    i, depth, out = m.end(), 0, ""
    while i < len(ty):
        ch = ty[i]
        if ch in "<([":
            depth += 1
        if ch in ">)]":
            if depth == 0:
                break
            depth -= 1
        out += ch
        i += 1
    return m.group(1), re.sub(r"'\w+ ?", "", out).strip()


def short(c):
    return re.sub(r"\b(\w+::)+", "", c)


ACQUIRE = ("Mutex::lock", "RwLock::read", "RwLock::write", "Mutex::try_lock", "RwLock::try_read", "RwLock::try_write")


class LockOrder:
    def __init__(self, fx, cg, infeasible=(), context_cuts=()):
        """infeasible: [(caller path prefix, callee path suffix, reason)] — call edges that the class-hierarchy resolution adds and that cannot be taken;
        context_cuts: [(path prefix, callee path suffix, reason)] — code under the prefix never reaches the callee, through however many calls"""
        self.fx, self.cg = fx, cg
        self.infeasible = list(infeasible)
        self.context_cuts = list(context_cuts)
        self.removed = defaultdict(int)
        self.cut = defaultdict(int)
        self.fns = [f for f in fx.all_fns() if f.blocks and "::tests::" not in f.path and "::testing" not in f.path]
        self._summaries()
        self._edges()
        self._threads()

    # ------------------------------------------------------------------ call targets
    def _allowed(self, caller, gid):
        g = self.fx.fns[gid]
        for i, (pre, suf, _) in enumerate(self.infeasible):
            if caller.path.lstrip("<").startswith(pre) and lib.norm(g.path).rstrip(">").endswith(suf):
                self.removed[i] += 1
                return False
        return True

    def targets(self, f, t):
        fr = t["f"]
        out = set()
        if "indirect" in fr:
            return out
        rid = fr.get("rid") or fr.get("id")
        if rid in self.fx.fns:
            out.add(rid)
        if fr.get("rkind") == "virtual" or ("rid" not in fr and fr.get("trait")) or (fr.get("trait") and fr.get("rid") == fr.get("id")):
            for mid in self.cg.trait_impls.get(fr["path"], ()):
                if mid in self.fx.fns:
                    out.add(mid)
        # closures handed to the call
        for a in t["args"]:
            pl = lib.op_place(a)
            if pl is None:
                continue
            for _, _, st in lib.stmts(f):
                if st["k"] == "assign" and st["dst"]["l"] == pl["l"] and st["rv"].get("k") == "agg" and st["rv"].get("ak") == "closure" and \
                        st["rv"]["closure"] in self.fx.fns:
                    out.add(st["rv"]["closure"])
        return {g for g in out if self._allowed(f, g)}

    # ------------------------------------------------------------------ summaries
    def _summaries(self):
        self.direct = defaultdict(set)
        self.succ = defaultdict(set)
        for f in self.fns:
            for bi, t in lib.calls(f):
                p = lib.norm(lib.callee(t)[0] or "")
                if p.endswith(ACQUIRE):
                    g = guard_of(f.locals[t["dst"]["l"]]["ty"])
                    if g:
                        self.direct[f.id].add((g[1], g[0]))
                self.succ[f.id] |= self.targets(f, t)
        def fix(skip=(), pinned=None):
            may = {f.id: set(self.direct.get(f.id, ())) for f in self.fns}
            if pinned:
                may.update(pinned)
            changed = True
            while changed:
                changed = False
                for f in self.fns:
                    if pinned and f.id in pinned:
                        continue
                    for g in self.succ[f.id]:
                        if g in skip:
                            continue
                        if g in may and not may[g] <= may[f.id]:
                            may[f.id] |= may[g]
                            changed = True
            return may
        # context cuts: whatever runs under `prefix` never reaches `callee` (however many calls lie between): the summaries of those functions are computed
        # on the graph without the callee and pinned; everybody else's summary is computed on top of them
        pinned = {}
        for i, (pre, suf, _) in enumerate(self.context_cuts):
            skip = {g.id for g in self.fns if lib.norm(g.path).rstrip(">").endswith(suf)}
            if not skip:
                continue
            m = fix(skip=skip)
            for f in self.fns:
                if f.path.lstrip("<").startswith(pre):
                    pinned[f.id] = m[f.id] if f.id not in pinned else (pinned[f.id] & m[f.id])
                    self.cut[i] += 1
        self.may = fix(pinned=pinned)

    # ------------------------------------------------------------------ edges
    def _edges(self):
        self.edges = defaultdict(list)     # (held class, acquired class) -> [(fn, line, callee, held kind, acquired kind, direct)]
        self.n_bodies = 0
        for f in self.fns:
            gl = locks.guard_locals(f)
            if not gl:
                continue
            self.n_bodies += 1
            at = locks.must_live(f, set(gl))
            for bi, t in lib.calls(f):
                held = [(guard_of(f.locals[h]["ty"]), h) for h in at.get(bi, ()) if h in gl]
                held = [(g, h) for g, h in held if g]
                if not held:
                    continue
                p = lib.norm(lib.callee(t)[0] or "")
                acq = set()
                direct = False
                if p.endswith(ACQUIRE):
                    g = guard_of(f.locals[t["dst"]["l"]]["ty"])
                    if g:
                        acq.add((g[1], g[0]))
                        direct = True
                for gid in self.targets(f, t):
                    acq |= self.may.get(gid, set())
                for (hk, hc), _ in held:
                    for ac, ak in acq:
                        self.edges[(hc, ac)].append((f, t.get("line"), p.rsplit("::", 2)[-2:], hk, ak, direct))

    # ------------------------------------------------------------------ threads
    def _threads(self):
        roots = {}
        for f in self.fns:
            for bi, t in lib.calls(f):
                p = lib.norm(lib.callee(t)[0] or "")
                if p.endswith(("thread::spawn", "thread::functions::spawn", "Builder::spawn", "thread::scope")):
                    for a in t["args"]:
                        pl = lib.op_place(a)
                        if pl is None:
                            continue
                        for _, _, st in lib.stmts(f):
                            if st["k"] == "assign" and st["dst"]["l"] == pl["l"] and st["rv"].get("k") == "agg" and st["rv"].get("ak") == "closure":
                                cid = st["rv"]["closure"]
                                if cid in self.fx.fns:
                                    roots[cid] = "thread spawned in %s" % f.path.rsplit("::", 2)[-2] + "::" + f.path.rsplit("::", 1)[-1]
        m = self.fx.fn("mos::main")
        if m is not None:
            roots[m.id] = "main"
        self.roots = roots
        self.thread_of = defaultdict(set)
        for rid, name in roots.items():
            # reach over the call graph without the infeasible edges
            seen = {rid}
            work = [rid]
            while work:
                a = work.pop()
                for b in self.succ.get(a, ()) | {x for x in self.cg.out.get(a, ()) if x in self.fx.fns and self.fx.fns[x].kind == "closure"}:
                    if b not in seen and (b not in roots or b == rid):
                        seen.add(b)
                        work.append(b)
            for x in seen:
                self.thread_of[x].add(name)

    # ------------------------------------------------------------------ verdicts
    def cycles(self):
        """[(A, B, witnesses A->B, witnesses B->A, verdict)] for A <= B"""
        out = []
        for (a, b), w in sorted(self.edges.items()):
            if a == b:
                # through a callee only (the direct form is A10's), exclusive on either side
                ws = [x for x in w if not x[5] and ("Read" not in x[3] or "Read" not in x[4])]
                if ws:
                    out.append((a, b, ws, [], "self"))
                continue
            if a < b and (b, a) in self.edges:
                w2 = self.edges[(b, a)]
                t1 = set().union(*[self.thread_of.get(x[0].id, {"?"}) for x in w]) if w else set()
                t2 = set().union(*[self.thread_of.get(x[0].id, {"?"}) for x in w2]) if w2 else set()
                one_thread = len(t1 | t2) == 1 and "?" not in (t1 | t2)
                out.append((a, b, w, w2, "same-thread" if one_thread else "cross-thread"))
        return out
