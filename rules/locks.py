"""Self-deadlock detection (used by C19/C20): a thread that asks for a lock it already holds never gets it.

For every body: guards = locals whose type is MutexGuard / RwLockReadGuard / RwLockWriteGuard of some T.  A forward *must* analysis (the one of C19's
lock-coverage rule, generalised) gives the guards that are definitely alive before each terminator.  A call that produces a new guard of the same T —
exclusive (mutex, write) or shared-while-an-exclusive-one-is-held — through the *same receiver* (same root local and field path of the lock's owner)
while such a guard is alive is reported.  std's RwLock and Mutex are not re-entrant; `read` while holding `read` is allowed by the rule.
"""
import re
from . import lib

GUARD = re.compile(r"(RwLockReadGuard|RwLockWriteGuard|MutexGuard)<'_, (.*)>$")


def guard_locals(fn):
    out = {}
    for i, l in enumerate(fn.locals):
        m = GUARD.search(l["ty"])
        if m:
            out[i] = (m.group(1), m.group(2))
    return out


def must_live(fn, gset):
    S = lib.succs(fn)
    n = len(fn.blocks)
    IN = [None] * n
    IN[0] = frozenset()

    def transfer(bi, live):
        live = set(live)
        b = fn.blocks[bi]
        for s in b["stmts"]:
            if s["k"] == "assign":
                rv = s["rv"]
                if rv["k"] == "use" and "move" in rv["op"]:
                    p = rv["op"]["move"]
                    if p["l"] in gset and not p.get("p"):
                        live.discard(p["l"])
                if s["dst"]["l"] in gset and not s["dst"].get("p"):
                    live.add(s["dst"]["l"])
            elif s["k"] == "dead" and s["l"] in gset:
                live.discard(s["l"])
        t = b["term"]
        outs = {}
        if t["k"] == "call":
            for a in t["args"]:
                if "move" in a and a["move"]["l"] in gset and not a["move"].get("p"):
                    live.discard(a["move"]["l"])
            after = set(live)
            if t["dst"]["l"] in gset and not t["dst"].get("p"):
                after.add(t["dst"]["l"])
            if t.get("target") is not None:
                outs[t["target"]] = after
        elif t["k"] == "drop":
            after = set(live)
            if t["place"]["l"] in gset and not t["place"].get("p"):
                after.discard(t["place"]["l"])
            outs[t["target"]] = after
        else:
            for s_ in S[bi]:
                outs[s_] = set(live)
        return live, outs
    work = [0]
    AT_TERM = {}
    while work:
        bi = work.pop()
        live_at_term, outs = transfer(bi, IN[bi])
        AT_TERM[bi] = live_at_term
        for s_, o in outs.items():
            if fn.blocks[s_]["cleanup"]:
                continue
            new = frozenset(o) if IN[s_] is None else IN[s_] & frozenset(o)
            if IN[s_] is None or new != IN[s_]:
                IN[s_] = new
                work.append(s_)
    return AT_TERM


def receiver_root(fn, du, op, depth=8):
    """(root local, tuple of field names) of the place the first argument of an acquiring call refers to, through refs / copies / Deref::deref calls"""
    p = lib.op_place(op)
    path = []
    while p is not None and depth > 0:
        depth -= 1
        path = [e["n"] for e in (p.get("p") or []) if isinstance(e, dict) and "n" in e] + path
        l = p["l"]
        if 1 <= l <= fn.argc:
            return (l, tuple(path))
        d = du.single_def(l)
        if d is None:
            return (l, tuple(path))
        _, _, kind, pl = d
        if kind == "call":
            cp = lib.callee(pl)[0] or ""
            if cp.endswith("::deref") or cp.endswith("::deref_mut") or cp.endswith("::as_ref") or cp.endswith("::borrow") or cp.endswith("::clone"):
                p = lib.op_place(pl["args"][0]) if pl["args"] else None
                continue
            return (l, tuple(path))
        rv = pl["rv"]
        if rv["k"] in ("ref", "copy_for_deref", "rawptr"):
            p = rv["place"]
        elif rv["k"] in ("use", "cast"):
            p = lib.op_place(rv["op"])
        else:
            return (l, tuple(path))
    return None


def self_deadlocks(fn):
    """[(block, line, held guard kind, acquired guard kind, T)]"""
    gl = guard_locals(fn)
    if len(gl) < 2:
        return []
    at = must_live(fn, set(gl))
    du = lib.DefUse(fn)
    acq = {}   # guard local -> (block, receiver root)
    for bi, t in lib.calls(fn):
        d = t["dst"]["l"]
        if d in gl and not t["dst"].get("p") and t["args"]:
            acq[d] = (bi, receiver_root(fn, du, t["args"][0]))
    # guards produced by `.unwrap()` of a LockResult: the acquiring call is the one that produced the LockResult
    for g in gl:
        if g in acq:
            bi, root = acq[g]
            t = fn.blocks[bi]["term"]
            cp = lib.callee(t)[0] or ""
            if cp.endswith("::unwrap") or cp.endswith("::expect"):
                src = lib.op_local(t["args"][0])
                d = du.single_def(src) if src is not None else None
                if d is not None and d[2] == "call" and d[3]["args"]:
                    acq[g] = (bi, receiver_root(fn, du, d[3]["args"][0]))
    out = []
    for g, (bi, root) in sorted(acq.items()):
        kind, T = gl[g]
        for h in sorted(at.get(bi, ())):
            if h == g or h not in gl or gl[h][1] != T:
                continue
            hk = gl[h][0]
            exclusive = kind in ("MutexGuard", "RwLockWriteGuard") or hk in ("MutexGuard", "RwLockWriteGuard")
            if not exclusive:
                continue
            hroot = acq.get(h, (None, None))[1]
            if root is None or hroot is None or root != hroot:
                continue
            out.append((bi, fn.blocks[bi]["term"].get("line"), hk, kind, T))
    return out
