"""A9 — state across re-entry (DESIGN §10).

The code generator is re-entrant: `emit_token` runs nested activations of itself for the body of a scope, loop, macro, import, segment
block, `.if` branch … .  A field of the (single) context that one activation *overwrites* before it starts a nested activation and *reads*
after the nested activation returned holds, at the read, whatever the innermost activation wrote last — unless the field is written
again (restored) on every path between the nested activation and the read.  The rule reports

    W : whole-field overwrite of field F        (direct `x.F = v`, or a call to a leaf helper whose body does that to F)
    C : a call that may re-enter emit_token     (callee reaches emit_token, or an indirect / generic closure call)
    R : a read of F                             (direct, or a call to a leaf helper whose body reads F)

with W ⇝ C ⇝ R in the control-flow graph of one body (function or closure) and some path C ⇝ R that passes no other overwrite of F.

Pushes/inserts through `&mut` (stacks, maps, the append-only source map itself) are not overwrites and are not reported: what nested
activations add to them is meant to be seen afterwards.
"""
from . import lib


def _places(x, skip_dst=True):
    """every place {l, p} in a statement / terminator except the assignment destination"""
    out = []

    def rec(n, key=None):
        if isinstance(n, dict):
            if "l" in n and "p" in n and isinstance(n.get("l"), int):
                out.append(n)
                return
            for k, v in n.items():
                if skip_dst and k == "dst":
                    continue
                rec(v, k)
        elif isinstance(n, list):
            for v in n:
                rec(v, key)
    rec(x)
    return out


def _fields(place):
    return [(e["of"], e["n"]) for e in (place.get("p") or []) if isinstance(e, dict) and "n" in e and e.get("of") not in ("tuple", "closure", "", None)]


def _rooted_in_param(fn, du, place):
    """the place is reached from a parameter (or a closure capture) through field projections, derefs and plain reference copies only — not through a
    reference some call returned (an element of a container: `self.graph[nx].data`), whose identity a field-based analysis cannot tell apart"""
    if any(not (e == "deref" or (isinstance(e, dict) and ("n" in e or "downcast" in e))) for e in (place.get("p") or [])):
        return False
    l = place["l"]
    for _ in range(8):
        if 1 <= l <= fn.argc:
            return True
        d = du.single_def(l)
        if d is None or d[2] != "assign":
            return False
        rv = d[3]["rv"]
        if rv["k"] in ("ref", "copy_for_deref", "rawptr"):
            q = rv["place"]
        elif rv["k"] == "use" and lib.op_place(rv["op"]) is not None:
            q = lib.op_place(rv["op"])
        else:
            return False
        if any(not (e == "deref" or (isinstance(e, dict) and ("n" in e or "downcast" in e))) for e in (q.get("p") or [])):
            return False
        l = q["l"]
    return False


def direct_overwrites(fn):
    """{(adt, field): [block…]} for `place.F = v` where F is the last named field of the destination and the destination is a part of a parameter"""
    out = {}
    du = lib.DefUse(fn)
    for bi, si, s in lib.stmts(fn):
        if s["k"] == "assign":
            fl = _fields(s["dst"])
            # only whole-field overwrites: the projection ends at the field (no index / deref / downcast after it)
            p = s["dst"].get("p") or []
            if fl and isinstance(p[-1], dict) and "n" in p[-1] and _rooted_in_param(fn, du, s["dst"]):
                out.setdefault(fl[-1], []).append(bi)
    for bi, t in lib.calls(fn):
        fl = _fields(t["dst"])
        p = t["dst"].get("p") or []
        if fl and isinstance(p[-1], dict) and "n" in p[-1] and _rooted_in_param(fn, du, t["dst"]):
            out.setdefault(fl[-1], []).append(bi)
    return out


def direct_reads(fn):
    out = {}
    for bi, b in enumerate(fn.blocks):
        if b["cleanup"]:
            continue
        for s in b["stmts"]:
            for pl in _places(s):
                for f in _fields(pl)[-1:]:
                    out.setdefault(f, []).append(bi)
            # a mutable borrow of a field is not counted as a read of the scalar (it is how collections are updated)
        for pl in _places(b["term"]):
            for f in _fields(pl)[-1:]:
                out.setdefault(f, []).append(bi)
    return out


class Reentry:
    def __init__(self, fx, cg, entry, scope_prefix="mos_core::codegen"):
        self.fx = fx
        self.entry = entry
        # functions from which the entry is reachable (they may start a nested activation)
        self.re = {entry.id}
        work = [entry.id]
        while work:
            x = work.pop()
            for y in cg.callers.get(x, ()):
                if y not in self.re:
                    self.re.add(y)
                    work.append(y)
        # bodies that a nested activation can execute again: reachable from the entry (closures through their creation sites)
        inside = cg.reach([entry.id])
        self.bodies = [f for f in fx.all_fns("mos_core") if f.blocks and f.path.lstrip("<").startswith(scope_prefix) and f.id in inside
                       and "::tests::" not in f.path and "::testing" not in f.path]
        self._w = {}
        self._r = {}
        # ADTs of which the context holds exactly one instance: the context itself and what it embeds by value (also through Option / Box).  A field
        # of an ADT that lives in a container (a symbol's data, a definition's location, a segment's pc) exists once per element; a field-based
        # analysis cannot tell the elements apart, so those are left out.
        self.singletons = set()
        ctx_adt = None
        for l in entry.locals[1:2]:
            t = l["ty"].replace("&mut ", "").replace("&", "").strip()
            ctx_adt = t
        work = [ctx_adt] if ctx_adt in fx.adts else []
        while work:
            a = work.pop()
            if a in self.singletons:
                continue
            self.singletons.add(a)
            for v in fx.adts[a]["variants"][:1]:
                for fld in v["fields"]:
                    ty = fld["ty"]
                    for wrap in ("core::option::Option<", "alloc::boxed::Box<"):
                        if ty.startswith(wrap) and ty.endswith(">"):
                            ty = ty[len(wrap):-1]
                    if ty in fx.adts and ty not in self.singletons:
                        work.append(ty)

    def leaf_summary(self, g, depth=2):
        """(overwrites, reads) of a helper that cannot re-enter: its own and those of non-re-entrant callees"""
        if g.id in self._w:
            return self._w[g.id], self._r[g.id]
        self._w[g.id], self._r[g.id] = set(), set()
        w = set(direct_overwrites(g))
        r = set(direct_reads(g))
        if depth > 0:
            for bi, t in lib.calls(g):
                p, fr = lib.callee(t)
                h = self.fx.fns.get(fr.get("rid") or fr.get("id")) if p else None
                if h is not None and h.blocks and h.id not in self.re and h.crate == "mos_core":
                    w2, r2 = self.leaf_summary(h, depth - 1)
                    w |= w2
                    r |= r2
        self._w[g.id], self._r[g.id] = w, r
        return w, r

    def may_reenter(self, t):
        p, fr = lib.callee(t)
        if p is None:
            return True            # indirect call
        gid = fr.get("rid") or fr.get("id")
        if gid in self.re:
            return True
        # a generic closure parameter called through FnOnce/FnMut/Fn
        if ("FnOnce" in p or "FnMut" in p or "::Fn" in p) and ("call_once" in p or "call_mut" in p or p.endswith("::call")):
            return gid not in self.fx.fns
        return False

    @staticmethod
    def self_restoring(body, field, w):
        """save/restore discipline: the value of `field` is copied to a local before the overwrite in block w and every path from w to a
        return of the body passes an assignment of that local back to the field — nested activations then leave the field as they found it"""
        du = lib.DefUse(body)
        restores = set()
        for bi, si, s in lib.stmts(body):
            if s["k"] != "assign" or _fields(s["dst"])[-1:] != [field]:
                continue
            rv = s["rv"]
            if rv["k"] != "use":
                continue
            l = lib.op_local(rv["op"])
            if l is None:
                continue
            d = du.single_def(l)
            # look through plain copies of locals (`_101 = copy _5`)
            for _ in range(4):
                if d is not None and d[2] == "assign" and d[3]["rv"]["k"] == "use" and lib.op_local(d[3]["rv"]["op"]) is not None:
                    d = du.single_def(lib.op_local(d[3]["rv"]["op"]))
                else:
                    break
            if d is None or d[2] != "assign":
                continue
            src = d[3]["rv"]
            if src["k"] == "use" and lib.op_place(src["op"]) is not None and _fields(lib.op_place(src["op"]))[-1:] == [field] and lib.dominates(body, d[0], w):
                restores.add(bi)
        restores.discard(w)
        if not restores:
            return False
        start = [x for x in lib.succs(body)[w]]
        rets = lib.return_blocks(body)
        return bool(rets) and all(all(lib.must_pass(body, restores, r, start=st) for st in start) for r in rets)

    def analyse(self, body):
        """[(field, w_block, c_block, r_block)] for one body"""
        W = {k: set(v) for k, v in direct_overwrites(body).items()}
        R = {k: set(v) for k, v in direct_reads(body).items()}
        C = set()
        for bi, t in lib.calls(body):
            if self.may_reenter(t):
                C.add(bi)
                continue
            p, fr = lib.callee(t)
            g = self.fx.fns.get(fr.get("rid") or fr.get("id")) if p else None
            if g is not None and g.blocks and g.crate == "mos_core":
                w, r = self.leaf_summary(g)
                for f in w:
                    W.setdefault(f, set()).add(bi)
                for f in r:
                    R.setdefault(f, set()).add(bi)
        out = []
        if not C:
            return out
        succ = lib.succs(body)

        def reach_from(b, removed=()):
            """blocks reachable from the successors of b (b itself only through a cycle)"""
            seen = set()
            work = [s for s in succ[b] if s not in removed]
            while work:
                x = work.pop()
                if x in seen or x in removed:
                    continue
                seen.add(x)
                work.extend(succ[x])
            return seen
        for f, ws in sorted(W.items()):
            if self.singletons and f[0] not in self.singletons:
                continue
            rs = R.get(f, set())
            if not rs:
                continue
            for w in sorted(ws):
                after_w = reach_from(w)
                for c in sorted(C & after_w):
                    # reads reachable from c without passing another overwrite of f
                    other_w = ws - {c}
                    live = reach_from(c, removed=other_w)
                    # a block that overwrites f and also reads it (f = g(f)) counts as read first
                    hit = sorted((rs & live) | {b for b in (rs & other_w) if b in reach_from(c, removed=other_w - {b})})
                    # the read in the overwriting block w itself (loop) is not after c unless reachable
                    hit = [b for b in hit if b != c]
                    if hit:
                        if not self.self_restoring(body, f, w):
                            out.append((f, w, c, hit[0]))
                        break
                else:
                    continue
                break
        return out
