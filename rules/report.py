"""Run context: records rule instances, findings, floors; applies the known-findings
protocol; writes evidence."""
import hashlib
import json
import os
import time

VERIF = os.path.dirname(os.path.dirname(os.path.abspath(__file__)))


class Finding:
    def __init__(self, rule, key, what, loc=None, detail=None, fail_closed=False):
        self.rule = rule
        self.key = key          # stable: rule|fn path|subject|ordinal — no line numbers
        self.what = what        # one line: what fails
        self.loc = loc          # file:line (diagnostics only)
        self.detail = detail or {}
        self.fail_closed = fail_closed

    def as_dict(self):
        return {"rule": self.rule, "key": self.key, "what": self.what, "loc": self.loc,
                "detail": self.detail, "fail_closed": self.fail_closed}


class Ctx:
    def __init__(self, prop, tier, seed, facts):
        self.prop = prop
        self.tier = tier
        self.seed = seed
        self.facts = facts
        self.t0 = time.time()
        self.rules = {}            # rule id -> text
        self.instances = {}        # rule id -> list of (key, nontrivial)
        self.findings = []
        self.samples = []
        self.undecided = []        # clauses of the property explicitly not decided
        self.assumptions = []
        self.extra = {}
        self._cur = None

    # ---- declaration
    def rule(self, rid, text):
        self.rules[rid] = text
        self.instances.setdefault(rid, [])
        self._cur = rid
        return rid

    def inst(self, rid, key, nontrivial=True, sample=None):
        """an instance of rule `rid` was examined (and, unless a finding follows, passed)"""
        self.instances.setdefault(rid, []).append((key, nontrivial))
        if sample is not None and len([s for s in self.samples if s.get("rule") == rid]) < 3:
            s = {"rule": rid, "instance": key}
            s.update(sample if isinstance(sample, dict) else {"detail": sample})
            self.samples.append(s)

    def finding(self, rid, key, what, loc=None, **detail):
        self.findings.append(Finding(rid, "%s|%s" % (rid, key), what, loc, detail))

    def fail_closed(self, rid, what, **detail):
        """anchor not found / count below floor / unrecognised shape: the check cannot decide"""
        self.findings.append(Finding(rid, "%s|fail-closed|%s" % (rid, what), "cannot decide: " + what,
                                     None, detail, fail_closed=True))

    def floor(self, rid, n, what=None):
        have = len(self.instances.get(rid, []))
        if have < n:
            self.fail_closed(rid, "%s: %d instances analysed, floor is %d" % (what or "instance count", have, n))
            return False
        return True

    def not_decided(self, text):
        self.undecided.append(text)

    def assume(self, text):
        self.assumptions.append(text)


def load_known():
    p = os.path.join(VERIF, "known_findings.json")
    if not os.path.exists(p):
        return []
    with open(p) as f:
        return json.load(f)["findings"]


def finish(ctx, level="other"):
    """apply known findings, print protocol lines, write evidence, return exit code"""
    known = {k["key"]: k for k in load_known() if k["property"] == ctx.prop and k.get("status") == "known"}
    viol = []
    knownhits = []
    for f in ctx.findings:
        if f.key in known and not f.fail_closed:
            knownhits.append((f, known[f.key]))
        else:
            viol.append(f)
    os.makedirs(os.path.join(VERIF, "evidence", "violations"), exist_ok=True)
    for f, k in knownhits:
        print("KNOWN-FINDING: property=%s %s [%s]" % (ctx.prop, k.get("what") or f.what, f.key))
    rc = 0
    for f in viol:
        h = hashlib.sha256(f.key.encode()).hexdigest()[:12]
        rp = os.path.join("evidence", "violations", "%s-%s.json" % (ctx.prop, h))
        with open(os.path.join(VERIF, rp), "w") as fh:
            json.dump({"property": ctx.prop, "tree_key": getattr(ctx.facts, "key", None),
                       "finding": f.as_dict(), "rule_text": ctx.rules.get(f.rule)}, fh, indent=1)
        print("%s %s: %s" % (f.loc or "-", f.rule, f.what))
        for dk, dv in f.detail.items():
            print("    %s: %s" % (dk, dv))
        print("VIOLATION property=%s replay=%s" % (ctx.prop, rp))
        rc = 1

    evaluations = sum(len(v) for v in ctx.instances.values())
    distinct = len({(r, k) for r, v in ctx.instances.items() for (k, nt) in v if nt})
    per_rule = {r: {"instances": len(v), "text": ctx.rules.get(r, "")} for r, v in ctx.instances.items()}
    expl = "static analysis over compiler facts (HIR+MIR of the current tree, profile %s, tree key %s, %d source files hashed). Rules: %s" % (
        ctx.facts.profile, getattr(ctx.facts, "key", "?"), getattr(ctx.facts, "nfiles", 0),
        " || ".join("%s: %s [%d instances]" % (r, ctx.rules[r], len(ctx.instances.get(r, []))) for r in ctx.rules))
    if ctx.undecided:
        expl += " || NOT decided by this check: " + "; ".join(ctx.undecided)
    samples = ctx.samples[:12]
    if not samples:
        samples = [{"rule": r, "instance": v[0][0]} for r, v in ctx.instances.items() if v][:5]
    ev = {
        "property_id": ctx.prop,
        "tier": ctx.tier,
        "seed": ctx.seed,
        "level": level,
        "coverage": {
            "explanation": expl,
            "evaluations": evaluations,
            "distinct_nontrivial": distinct,
            "rule": "one evaluation = one rule instance (table row, call site, path, field, function) examined on the resolved program; non-trivial = the verdict needed a comparison/path/flow computation, not mere existence; distinct by (rule, instance key)",
            "obligations": evaluations,
            "discharged": evaluations - len([f for f in ctx.findings if not f.fail_closed]),
            "samples": samples,
            "per_rule": per_rule,
            "findings": [f.as_dict() for f in ctx.findings],
            "known_findings_matched": [f.key for f, _ in knownhits],
            "functions_in_facts": len(ctx.facts.fns),
        },
        "assumptions": ctx.assumptions + [
            "the rustc front end (type check, MIR construction) represents the program faithfully",
            "external crates (std, nom, petgraph, lsp-types, emulator_6502) are modelled by name-keyed summaries, not analysed",
        ],
        "wall_s": round(time.time() - ctx.t0, 3),
        "violations": len(viol),
    }
    ev["coverage"].update(ctx.extra)
    with open(os.path.join(VERIF, "evidence", "%s.json" % ctx.prop), "w") as fh:
        json.dump(ev, fh, indent=1)
    print("%s: %d rule instances examined over %d rules, %d finding(s): %d known, %d violation(s); %.1fs" % (
        ctx.prop, evaluations, len(ctx.rules), len(ctx.findings), len(knownhits), len(viol), time.time() - ctx.t0))
    return rc
