"""A4 — label propagation ("taint") over MIR: interprocedural, field-based, context-insensitive,
flow-insensitive inside a function (dominance is consulted only at sinks).

A label starts at *sources* (results of named calls, named parameters, reads of named fields) and flows
through assignments, casts, arithmetic, aggregates, references, workspace calls (argument → parameter,
return → destination, closure arguments of higher-order std functions → closure parameters) and, for
callees outside the workspace, from any argument to the result unless the callee is in the kill list.

Soundness caveats (stated in every evidence file that uses this module): flows through trait objects outside
the workspace, `unsafe`, interior mutability of external types and raw pointers are not tracked; a `&mut`
argument of an external call is only tainted for the listed container mutators.
"""
from collections import defaultdict, deque

from . import lib

# external callees whose result does not carry the argument's label (length/emptiness/comparison queries)
DEFAULT_KILL = (
    "::len", "::is_empty", "::is_some", "::is_none", "::is_ok", "::is_err", "::contains", "::contains_key",
    "::eq", "::ne", "::lt", "::le", "::gt", "::ge", "::cmp", "::partial_cmp", "::starts_with", "::ends_with",
    "::capacity", "::count", "fmt::Arguments::new", "::fmt", "Formatter", "::hash",
)
# external mutators: a labelled argument labels the receiver
MUTATORS = ("::push", "::push_str", "::insert", "::extend", "::extend_from_slice", "::resize", "::append", "::push_back",
            "::entry", "::or_insert", "::or_insert_with", "::replace", "::splice")


def _workspace(of):
    """global (field-based) labels only for the workspace's own types; fields of generic std/external containers
    (Option, Result, Range, tuples, Vec …) stay with the local that holds them"""
    return of.startswith("mos_core::") or of.startswith("mos::")


class Taint:
    def __init__(self, fx, label, source_calls=(), source_params=(), source_fields=(), kill=DEFAULT_KILL,
                 kill_calls=(), sanitizers=(), carrier=None):
        """source_calls: path suffixes (normalised) whose *result* is labelled
           source_params: (fn path suffix, param index starting at 1)
           source_fields: (adt-or-variant path suffix, field name): reading it yields the label
           kill_calls: additional path suffixes whose result is clean
           sanitizers: path suffixes of workspace/external fns whose result is clean even if args are labelled"""
        self.fx = fx
        self.label = label
        # type-directed filter: only locals/fields whose type can carry the labelled kind of value are ever labelled
        self.carrier = carrier or (lambda ty: True)
        self._carrier_cache = {}
        self.source_calls = tuple(source_calls)
        self.source_params = tuple(source_params)
        self.source_fields = tuple(source_fields)
        self.kill = tuple(kill) + tuple(kill_calls) + tuple(sanitizers)
        self.t = defaultdict(set)       # fn id -> set of labelled locals
        self.fields = set()             # (of, name) labelled fields
        self.ret = set()                # fn ids whose return value is labelled
        self.why = {}                   # (fid, local) -> short provenance string (first reason)
        self.alias = {}                 # fid -> {ptr local: pointee local}
        self._closure_params = {}
        self.run()

    # ---------------------------------------------------------------- helpers
    def _field_src(self, of, n):
        for sfx, fn_ in self.source_fields:
            if n == fn_ and (of == sfx or of.endswith("::" + sfx) or of.endswith(sfx)):
                return True
        return False

    def place_tainted(self, fid, p):
        if p is None:
            return False
        if p["l"] in self.t[fid]:
            return True
        for e in (p.get("p") or []):
            if isinstance(e, dict) and "n" in e and _workspace(e["of"]):
                if (e["of"], e["n"]) in self.fields or self._field_src(e["of"], e["n"]):
                    return True
        return False

    def op_tainted(self, fid, op):
        return self.place_tainted(fid, lib.op_place(op))

    def _carries(self, ty):
        c = self._carrier_cache.get(ty)
        if c is None:
            c = self._carrier_cache[ty] = bool(self.carrier(ty))
        return c

    def _mark(self, fid, l, why):
        if not self._carries(self.fx.fns[fid].locals[l]["ty"]):
            return False
        if l not in self.t[fid]:
            self.t[fid].add(l)
            self.why.setdefault((fid, l), why)
            return True
        return False

    def _mark_place(self, fid, p, why):
        """label the destination place: a named ADT field labels the field (globally); otherwise the base local"""
        ch = False
        named = [e for e in (p.get("p") or []) if isinstance(e, dict) and "n" in e and _workspace(e["of"])]
        if named:
            e = named[-1]
            key = (e["of"], e["n"])
            if key not in self.fields and self._carries(e.get("ty", "")):
                self.fields.add(key)
                ch = True
            # writing through a local temp aggregate also labels the local when it is not a long-lived self/ctx reference
            f = self.fx.fns[fid]
            ty = f.locals[p["l"]]["ty"]
            if not ty.startswith("&"):
                ch |= self._mark(fid, p["l"], why)
        else:
            ch |= self._mark(fid, p["l"], why)
            al = self.alias.get(fid, {}).get(p["l"])
            if al is not None and "deref" in (p.get("p") or []):
                ch |= self._mark(fid, al, why)
        return ch

    def _is_source_call(self, pn):
        return any(lib.pm(pn, s) for s in self.source_calls)

    def _killed(self, pn):
        if not pn:
            return False
        n = lib.norm(pn)
        return any(n.endswith(k) or k in n for k in self.kill)

    # ---------------------------------------------------------------- fixpoint
    def run(self):
        fx = self.fx
        # aliases  _p = &(mut) _x
        for f in fx.fns.values():
            al = {}
            for _, _, s in lib.stmts(f, cleanup=True):
                if s["k"] == "assign" and s["rv"]["k"] in ("ref", "rawptr") and not s["dst"].get("p") and not s["rv"]["place"].get("p"):
                    al[s["dst"]["l"]] = s["rv"]["place"]["l"]
            self.alias[f.id] = al
        # parameter sources
        for f in fx.fns.values():
            for sfx, idx in self.source_params:
                if lib.pm(f.path, sfx):
                    self._mark(f.id, idx, "parameter %d of %s" % (idx, f.path))
        callers = defaultdict(set)
        work = deque(fx.fns.keys())
        inq = set(work)
        nfields = -1
        rounds = 0
        while work:
            fid = work.popleft()
            inq.discard(fid)
            f = fx.fns[fid]
            before_fields = len(self.fields)
            changed_callees, ret_changed = self._process(f, callers)
            for c in changed_callees:
                if c not in inq:
                    work.append(c)
                    inq.add(c)
            if ret_changed:
                for c in callers.get(fid, ()):
                    if c not in inq:
                        work.append(c)
                        inq.add(c)
            if len(self.fields) != before_fields:
                # a newly labelled field can be read anywhere: re-run everything once
                for g in fx.fns:
                    if g not in inq:
                        work.append(g)
                        inq.add(g)
            rounds += 1
            if rounds > 200000:
                raise RuntimeError("taint fixpoint does not converge")

    def _closure_args(self, f, t):
        """closure function ids passed (as aggregate values) to this call"""
        out = []
        du = getattr(f, "_du", None)
        for a in t["args"]:
            p = lib.op_place(a)
            if p is None:
                continue
            ty = f.locals[p["l"]]["ty"]
            if "{closure@" in ty:
                # find the aggregate that built it
                for bi, b in enumerate(f.blocks):
                    for s in b["stmts"]:
                        if s["k"] == "assign" and s["dst"]["l"] == p["l"] and s["rv"]["k"] == "agg" and s["rv"].get("ak") == "closure":
                            out.append((s["rv"]["closure"], s["rv"]["ops"]))
        return out

    def _process(self, f, callers):
        fid = f.id
        changed_callees = set()
        ret_before = fid in self.ret
        progress = True
        it = 0
        while progress and it < 50:
            progress = False
            it += 1
            for b in f.blocks:
                for s in b["stmts"]:
                    if s["k"] != "assign":
                        continue
                    rv = s["rv"]
                    k = rv["k"]
                    src = False
                    if k in ("use", "cast", "repeat"):
                        src = self.op_tainted(fid, rv["op"])
                    elif k in ("ref", "rawptr", "copy_for_deref", "discr"):
                        src = self.place_tainted(fid, rv["place"]) and k != "discr"
                    elif k == "binop":
                        # comparisons yield booleans: the label does not survive
                        if rv["op"] in ("Eq", "Ne", "Lt", "Le", "Gt", "Ge", "Cmp"):
                            src = False
                        else:
                            src = self.op_tainted(fid, rv["l"]) or self.op_tainted(fid, rv["r"])
                    elif k == "unop":
                        src = self.op_tainted(fid, rv["a"]) and rv["op"] != "PtrMetadata"
                    elif k == "agg":
                        if rv.get("ak") == "closure":
                            src = False
                        else:
                            src = any(self.op_tainted(fid, o) for o in rv["ops"])
                            # labelled operand stored into a named field of an ADT aggregate → label that field
                            if rv.get("ak") == "adt" and _workspace(rv["adt"]):
                                for i, o in enumerate(rv["ops"]):
                                    if self.op_tainted(fid, o) and i < len(rv.get("fields", [])):
                                        of = rv["adt"] + ("::" + rv["variant"] if self._is_enum(rv["adt"]) else "")
                                        key = (of, rv["fields"][i])
                                        if key not in self.fields:
                                            self.fields.add(key)
                                            progress = True
                    if src:
                        if self._mark_place(fid, s["dst"], "line %s" % s.get("line")):
                            progress = True
                t = b["term"]
                if t["k"] != "call":
                    continue
                pn, fr = lib.callee(t)
                args_t = [self.op_tainted(fid, a) for a in t["args"]]
                any_t = any(args_t)
                rid = fr.get("rid") or fr.get("id")
                res_t = False
                if pn and self._is_source_call(pn):
                    res_t = True
                elif rid in self.fx.fns and not self._killed(pn):
                    g = self.fx.fns[rid]
                    callers[rid].add(fid)
                    for i, at in enumerate(args_t):
                        if at and i + 1 <= g.argc:
                            if self._mark(rid, i + 1, "argument %d from %s line %s" % (i, f.path, t.get("line"))):
                                changed_callees.add(rid)
                    if rid in self.ret:
                        res_t = True
                elif "indirect" in fr:
                    res_t = any_t
                else:
                    if fr.get("rkind") == "virtual" or (fr.get("trait") and "rid" not in fr):
                        # dyn / unresolved trait call: every workspace impl
                        for im in self._impls(fr["path"]):
                            callers[im].add(fid)
                            g = self.fx.fns[im]
                            for i, at in enumerate(args_t):
                                if at and i + 1 <= g.argc:
                                    if self._mark(im, i + 1, "dyn argument from %s" % f.path):
                                        changed_callees.add(im)
                            if im in self.ret:
                                res_t = True
                    if not self._killed(pn):
                        res_t = res_t or any_t
                    # higher-order: labelled receiver/arguments reach the closure's parameters; its result the destination
                    for cid, caps in self._closure_args(f, t):
                        if cid in self.fx.fns:
                            g = self.fx.fns[cid]
                            callers[cid].add(fid)
                            if any_t:
                                for i in range(2, g.argc + 1):
                                    if self._mark(cid, i, "closure parameter via %s (%s line %s)" % (lib.norm(pn or "?").rsplit("::", 1)[-1], f.path, t.get("line"))):
                                        changed_callees.add(cid)
                            if cid in self.ret and not self._killed(pn):
                                res_t = True
                    if any_t and pn and any(lib.norm(pn).endswith(m) for m in MUTATORS) and t["args"]:
                        p0 = lib.op_place(t["args"][0])
                        if p0 is not None and not args_t[0]:
                            tgt = self.alias.get(fid, {}).get(p0["l"], p0["l"])
                            if self._mark(fid, tgt, "mutated by %s line %s" % (lib.norm(pn).rsplit("::", 1)[-1], t.get("line"))):
                                progress = True
                if res_t:
                    if self._mark_place(fid, t["dst"], "result of %s line %s" % (lib.norm(pn or "indirect"), t.get("line"))):
                        progress = True
            # captured upvars of closures: a closure created here captures labelled locals → label the closure's upvar field reads
            for b in f.blocks:
                for s in b["stmts"]:
                    if s["k"] == "assign" and s["rv"]["k"] == "agg" and s["rv"].get("ak") == "closure":
                        cid = s["rv"]["closure"]
                        if cid in self.fx.fns:
                            g = self.fx.fns[cid]
                            for i, o in enumerate(s["rv"]["ops"]):
                                if self.op_tainted(fid, o):
                                    key = ("closure:" + cid, str(i))
                                    if key not in self._closure_params:
                                        self._closure_params[key] = True
                                        # reads of _1.<i> in the closure
                                        self._taint_upvar(g, i)
                                        changed_callees.add(cid)
        if 0 in self.t[fid]:
            self.ret.add(fid)
        return changed_callees, (fid in self.ret) != ret_before

    def _taint_upvar(self, g, idx):
        for b in g.blocks:
            for s in b["stmts"]:
                if s["k"] != "assign":
                    continue
                rv = s["rv"]
                p = None
                if rv["k"] in ("use", "cast"):
                    p = lib.op_place(rv["op"])
                elif rv["k"] in ("ref", "copy_for_deref"):
                    p = rv["place"]
                if p is not None and p["l"] == 1:
                    for e in (p.get("p") or []):
                        if isinstance(e, dict) and e.get("of") == "closure" and e.get("f") == idx:
                            self._mark(g.id, s["dst"]["l"], "captured variable #%d" % idx)

    _enum_cache = {}

    def _is_enum(self, adt):
        a = self.fx.adts.get(adt)
        return bool(a) and a["kind"] == "Enum"

    _impl_cache = None

    def _impls(self, trait_item):
        if self._impl_cache is None:
            c = defaultdict(set)
            for im in self.fx.impls:
                for m in im["methods"]:
                    if m.get("trait_item") and m["id"] in self.fx.fns:
                        c[m["trait_item"]].add(m["id"])
            self._impl_cache = c
        return self._impl_cache.get(trait_item, ())

    # ---------------------------------------------------------------- queries
    def explain(self, fid, l, depth=4):
        return self.why.get((fid, l), "?")


def guarded_nonzero(fn, bi, op):
    """is block bi dominated by the non-zero successor of a `switchInt(x)` where x is the same local as `op`
    (the `match rhs { 0 => …, _ => lhs / rhs }` idiom)?"""
    l = lib.op_local(op)
    if l is None:
        return False
    # follow a plain copy chain back: _t = _3
    srcs = {l}
    for _ in range(3):
        for _, _, s in lib.stmts(fn):
            if s["k"] == "assign" and not s["dst"].get("p") and s["dst"]["l"] in srcs and s["rv"]["k"] == "use":
                q = lib.op_local(s["rv"]["op"])
                if q is not None:
                    srcs.add(q)
    for bj, b in enumerate(fn.blocks):
        t = b["term"]
        if t["k"] == "switch" and lib.op_local(t["discr"]) in srcs:
            zero = [bb for v, bb in t["targets"] if v == 0]
            if zero and t["otherwise"] != zero[0] and lib.dominates(fn, t["otherwise"], bi):
                return True
    return False


# ---------------------------------------------------------------- carriers (type-directed filters)
import re as _re

_IDENT = _re.compile(r"[A-Za-z_][A-Za-z0-9_]*(?:::[A-Za-z_][A-Za-z0-9_]*)*")
_INTS = {"i8", "i16", "i32", "i64", "i128", "isize", "u8", "u16", "u32", "u64", "u128", "usize"}
_WRAP = {"core::option::Option", "core::result::Result", "core::ops::control_flow::ControlFlow", "core::ops::range::Range",
         "core::ops::range::RangeInclusive", "core::ops::range::RangeFrom", "core::ops::range::RangeTo", "core::convert::Infallible", "bool", "mut",
         "mos_core::errors::Diagnostics", "mos_core::codegen::evaluator::EvaluationError", "anyhow::Error", "str", "char", "dyn", "static"}


def make_carrier(leaves, extra_wrappers=()):
    """carrier(ty): every path identifier of the type is a wrapper or a leaf, and at least one leaf occurs"""
    leaves = set(leaves)
    wrap = _WRAP | set(extra_wrappers)

    def carrier(ty):
        ids = _IDENT.findall(ty)
        ids = [i for i in ids if not (len(i) <= 2 and i.startswith("'")) and i not in ("a", "b", "_")]
        if not ids:
            return False
        has = False
        for i in ids:
            if i in leaves:
                has = True
            elif i in wrap:
                continue
            else:
                return False
        return has
    return carrier


INT_CARRIER = make_carrier(_INTS | {"mos_core::codegen::program_counter::ProgramCounter", "mos_core::codegen::SymbolData",
                                     "mos_core::codegen::MacroDefinition"})


# ---------------------------------------------------------------- constant range guards

class Bounds:
    """values known to lie in a small constant range at a program point:
       `if !(LO..=HI).contains(&x) { return Err(..) }`  — x ∈ [LO, HI] in every block dominated by the `true` successor.
    The range literal is a promoted constant in MIR, so its bounds are read from the HIR call on the same line."""

    LIMIT = 1 << 32

    def __init__(self, fx, fn):
        self.fn = fn
        self.guards = []          # (true-successor block, local, lo, hi)
        self.du = lib.DefUse(fn)
        owner = fn
        while owner.kind == "closure" and owner.d.get("parent") in fx.fns:
            owner = fx.fns[owner.d["parent"]]
        hir_ranges = {}
        if owner.d.get("hir"):
            for x in lib.hwalk(owner.hir["body"]):
                if x.get("k") == "mcall" and lib.pm(x.get("path"), "RangeInclusive::contains"):
                    ends = []
                    for e in lib.hwalk(lib.strip(x["recv"])):
                        if e.get("k") == "unary" and e["op"] == "Neg" and lib.hlit(e["a"]) is not None:
                            ends.append(-lib.hlit(e["a"]))
                        elif e.get("k") == "lit" and e.get("lk") == "int":
                            ends.append(e["v"])
                    if len(ends) == 3 and ends[0] == -ends[1]:
                        ends = [ends[0], ends[2]]
                    if len(ends) == 2:
                        hir_ranges.setdefault(x.get("ln"), []).append(tuple(ends))
        from .c04 import dst_switch_true_succ
        for bi, t in lib.calls(fn):
            if not lib.pm(lib.callee(t)[0], "RangeInclusive::contains"):
                continue
            rs = hir_ranges.get(t.get("line"))
            if not rs or len(rs) != 1:
                continue
            lo, hi = rs[0]
            # the tested value: &x  (through one re-borrow)
            p = lib.op_place(t["args"][1])
            x = self._deref_source(p["l"]) if p else None
            ts = dst_switch_true_succ(fn, bi)
            if x is not None and ts is not None:
                self.guards.append((ts, x, lo, hi))

    def _deref_source(self, l, depth=4):
        while depth > 0:
            depth -= 1
            d = self.du.single_def(l)
            if not d or d[2] != "assign":
                return None
            rv = d[3]["rv"]
            if rv["k"] == "ref":
                pl = rv["place"]
                if not pl.get("p"):
                    return pl["l"]
                if pl.get("p") == ["deref"]:
                    l = pl["l"]
                    continue
                return None
            return None
        return None

    def range_of(self, op, bi, depth=14):
        """(lo, hi) if the operand is known to be within a small constant range in block bi, else None"""
        c = lib.const_int(op)
        if c is not None:
            return (c, c) if abs(c) <= self.LIMIT else None
        l = lib.op_local(op)
        if l is None or depth <= 0:
            return None
        for ts, x, lo, hi in self.guards:
            if x == l and lib.dominates(self.fn, ts, bi) and abs(lo) <= self.LIMIT and abs(hi) <= self.LIMIT:
                return (lo, hi)
        d = self.du.single_def(l)
        if not d or d[2] != "assign":
            return None
        rv = d[3]["rv"]
        dbi = d[0]
        if rv["k"] == "use":
            p = lib.op_place(rv["op"])
            if p is not None and p.get("p") and p["p"] == [p["p"][0]] and isinstance(p["p"][0], dict) and p["p"][0].get("of") == "tuple" and p["p"][0].get("f") == 0:
                # result .0 of a checked AddWithOverflow etc.
                return self.range_of({"copy": {"l": p["l"]}}, dbi, depth - 1)
            return self.range_of(rv["op"], dbi, depth - 1) if dbi == bi or lib.dominates(self.fn, dbi, bi) else None
        if rv["k"] == "cast":
            return self.range_of(rv["op"], dbi, depth - 1)
        if rv["k"] == "binop":
            a, b = self.range_of(rv["l"], dbi, depth - 1), self.range_of(rv["r"], dbi, depth - 1)
            op = rv["op"].replace("WithOverflow", "").replace("Unchecked", "")
            if op in ("Rem",) and b is not None and b[0] >= 1:
                return (-(b[1] - 1), b[1] - 1)
            if op == "BitAnd" and (a is not None or b is not None):
                m = (b or a)
                return (0, max(abs(m[0]), abs(m[1])))
            if a is not None and b is not None:
                if op == "Add":
                    return (a[0] + b[0], a[1] + b[1])
                if op == "Sub":
                    return (a[0] - b[1], a[1] - b[0])
                if op == "Mul":
                    vals = [a[0] * b[0], a[0] * b[1], a[1] * b[0], a[1] * b[1]]
                    return (min(vals), max(vals))
        return None
