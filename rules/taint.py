"""A4 — label propagation ("taint") over MIR: interprocedural, field-based, context-insensitive,
flow-insensitive inside a function (dominance is consulted only at sinks).

A label starts at *sources* (results of named calls, named parameters, reads of named fields) and flows
through assignments, casts, arithmetic, aggregates, references, workspace calls (argument → parameter,
return → destination, closure arguments of higher-order std functions → closure parameters) and, for
callees outside the workspace, from any argument to the result unless the callee is in the kill list.

Soundness caveats (stated in every evidence file that uses this module): flows through trait objects outside
the workspace, `unsafe`, interior mutability of external types and raw pointers are not tracked; a `&mut`
argument of an external call is only tainted for the listed container mutators.
"""
from collections import defaultdict, deque

from . import lib

# external callees whose result does not carry the argument's label (length/emptiness/comparison queries)
DEFAULT_KILL = (
    "::len", "::is_empty", "::is_some", "::is_none", "::is_ok", "::is_err", "::contains", "::contains_key",
    "::eq", "::ne", "::lt", "::le", "::gt", "::ge", "::cmp", "::partial_cmp", "::starts_with", "::ends_with",
    "::capacity", "::count", "fmt::Arguments::new", "::fmt", "Formatter", "::hash",
)
# external mutators: a labelled argument labels the receiver
MUTATORS = ("::push", "::push_str", "::insert", "::extend", "::extend_from_slice", "::resize", "::append", "::push_back",
            "::entry", "::or_insert", "::or_insert_with", "::replace", "::splice")


def _workspace(of):
    """global (field-based) labels only for the workspace's own types; fields of generic std/external containers
    (Option, Result, Range, tuples, Vec …) stay with the local that holds them"""
    return of.startswith("mos_core::") or of.startswith("mos::")


class Taint:
    """Origins of a local are a set of tags: 'S' (a source inside this function or its callees, or a labelled field) and parameter
    indices (the value depends on that parameter).  A parameter is *actual* when some caller passes a labelled value.  A local is
    labelled iff its origins contain 'S' or an actual parameter.  Return values are therefore context-sensitive (an accessor such as
    `as_usize` only returns a label to the callers that passed one in); sinks inside a callee and field writes are context-insensitive."""

    def __init__(self, fx, label, source_calls=(), source_params=(), source_fields=(), kill=DEFAULT_KILL,
                 kill_calls=(), sanitizers=(), carrier=None, local_only=()):
        self.fx = fx
        self.label = label
        # ADTs whose fields are never labelled globally (value types that are created everywhere, e.g. a line/column pair):
        # the label stays with the local that holds the value
        self.local_only = tuple(local_only)
        self.carrier = carrier or (lambda ty: True)
        self._carrier_cache = {}
        self.source_calls = tuple(source_calls)
        self.source_params = tuple(source_params)
        self.source_fields = tuple(source_fields)
        self.kill = tuple(kill) + tuple(kill_calls) + tuple(sanitizers)
        self.o = {}                      # fn id -> {local: set(tags)}
        self.actual = defaultdict(set)   # fn id -> set of actual parameter indices
        self.fields = set()              # (of, name) labelled fields
        self.why = {}                    # (fid, local) -> provenance
        self.alias = {}
        self._upvars = defaultdict(set)  # closure id -> captured indices that are labelled
        self.t = _View(self)
        self.run()

    # ---------------------------------------------------------------- helpers
    def _carries(self, ty):
        c = self._carrier_cache.get(ty)
        if c is None:
            c = self._carrier_cache[ty] = bool(self.carrier(ty))
        return c

    def _field_src(self, of, n):
        for sfx, fn_ in self.source_fields:
            if n == fn_ and (of == sfx or of.endswith("::" + sfx) or of.endswith(sfx)):
                return True
        return False

    def _eff(self, fid, tags):
        if not tags:
            return False
        if "S" in tags:
            return True
        act = self.actual.get(fid)
        return bool(act) and any(t in act for t in tags if t != "S")

    def place_orig(self, fid, p):
        if p is None:
            return frozenset()
        tags = self.o[fid].get(p["l"])
        tags = set(tags) if tags else set()
        for e in (p.get("p") or []):
            if isinstance(e, dict) and "n" in e:
                if (_workspace(e["of"]) and (e["of"], e["n"]) in self.fields) or self._field_src(e["of"], e["n"]):
                    tags.add("S")
        return tags

    def op_orig(self, fid, op):
        return self.place_orig(fid, lib.op_place(op))

    def place_tainted(self, fid, p):
        return self._eff(fid, self.place_orig(fid, p))

    def op_tainted(self, fid, op):
        return self._eff(fid, self.op_orig(fid, op))

    def local_tainted(self, fid, l):
        return self._eff(fid, self.o[fid].get(l))

    def _add(self, fid, l, tags, why):
        if not tags or not self._carries(self.fx.fns[fid].locals[l]["ty"]):
            return False
        cur = self.o[fid].setdefault(l, set())
        new = tags - cur
        if new:
            cur |= new
            self.why.setdefault((fid, l), why)
            return True
        return False

    def _add_place(self, fid, p, tags, why):
        ch = False
        if not tags:
            return False
        named = [e for e in (p.get("p") or []) if isinstance(e, dict) and "n" in e and _workspace(e["of"]) and
                 not any(e["of"].startswith(lo) for lo in self.local_only)]
        if named:
            e = named[-1]
            key = (e["of"], e["n"])
            if key not in self.fields and self._carries(e.get("ty", "")) and self._eff(fid, tags):
                self.fields.add(key)
                self._fields_changed = True
                ch = True
            f = self.fx.fns[fid]
            if not f.locals[p["l"]]["ty"].startswith("&"):
                ch |= self._add(fid, p["l"], tags, why)
        else:
            ch |= self._add(fid, p["l"], tags, why)
            al = self.alias.get(fid, {}).get(p["l"])
            if al is not None and "deref" in (p.get("p") or []):
                ch |= self._add(fid, al, tags, why)
        return ch

    def _is_source_call(self, pn):
        return any(lib.pm(pn, s) for s in self.source_calls)

    def _killed(self, pn):
        if not pn:
            return False
        n = lib.norm(pn)
        return any(n.endswith(k) or k in n for k in self.kill)

    def _is_enum(self, adt):
        a = self.fx.adts.get(adt)
        return bool(a) and a["kind"] == "Enum"

    _impl_cache = None

    def _impls(self, trait_item):
        if self._impl_cache is None:
            c = defaultdict(set)
            for im in self.fx.impls:
                for m in im["methods"]:
                    if m.get("trait_item") and m["id"] in self.fx.fns:
                        c[m["trait_item"]].add(m["id"])
            self._impl_cache = c
        return self._impl_cache.get(trait_item, ())

    # ---------------------------------------------------------------- fixpoint
    def run(self):
        fx = self.fx
        self._closures = {}
        for f in fx.fns.values():
            al = {}
            cl = {}
            for _, _, s in lib.stmts(f, cleanup=True):
                if s["k"] == "assign" and s["rv"]["k"] in ("ref", "rawptr") and not s["dst"].get("p") and not s["rv"]["place"].get("p"):
                    al[s["dst"]["l"]] = s["rv"]["place"]["l"]
                if s["k"] == "assign" and s["rv"]["k"] == "agg" and s["rv"].get("ak") == "closure" and not s["dst"].get("p"):
                    cl[s["dst"]["l"]] = (s["rv"]["closure"], s["rv"]["ops"])
            self.alias[f.id] = al
            self._closures[f.id] = cl
            self.o[f.id] = {}
            for i in range(1, f.argc + 1):
                if self._carries(f.locals[i]["ty"]):
                    self.o[f.id][i] = {i}
        for f in fx.fns.values():
            for sfx, idx in self.source_params:
                if lib.pm(f.path, sfx):
                    self.actual[f.id].add(idx)
        callers = defaultdict(set)
        work = deque(fx.fns.keys())
        inq = set(work)
        rounds = 0
        while work:
            fid = work.popleft()
            inq.discard(fid)
            f = fx.fns[fid]
            self._fields_changed = False
            ret_before = frozenset(self.o[fid].get(0, ()))
            touched = self._process(f, callers)
            for c in touched:
                if c not in inq:
                    work.append(c)
                    inq.add(c)
            if frozenset(self.o[fid].get(0, ())) != ret_before:
                for c in callers.get(fid, ()):
                    if c not in inq:
                        work.append(c)
                        inq.add(c)
            if self._fields_changed:
                for g in fx.fns:
                    if g not in inq:
                        work.append(g)
                        inq.add(g)
            rounds += 1
            if rounds > 400000:
                raise RuntimeError("taint fixpoint does not converge")

    def _make_actual(self, gid, idx, touched):
        if idx not in self.actual[gid]:
            self.actual[gid].add(idx)
            touched.add(gid)

    def _process(self, f, callers):
        fid = f.id
        touched = set()
        o = self.o[fid]
        progress = True
        it = 0
        while progress and it < 60:
            progress = False
            it += 1
            for b in f.blocks:
                for s in b["stmts"]:
                    if s["k"] != "assign":
                        continue
                    rv = s["rv"]
                    k = rv["k"]
                    tags = set()
                    if k in ("use", "cast", "repeat"):
                        tags = self.op_orig(fid, rv["op"])
                    elif k in ("ref", "rawptr", "copy_for_deref"):
                        tags = self.place_orig(fid, rv["place"])
                    elif k == "binop":
                        if rv["op"] not in ("Eq", "Ne", "Lt", "Le", "Gt", "Ge", "Cmp"):
                            tags = self.op_orig(fid, rv["l"]) | self.op_orig(fid, rv["r"])
                    elif k == "unop":
                        if rv["op"] != "PtrMetadata":
                            tags = self.op_orig(fid, rv["a"])
                    elif k == "agg" and rv.get("ak") != "closure":
                        for i, op in enumerate(rv["ops"]):
                            ot = self.op_orig(fid, op)
                            tags |= ot
                            if rv.get("ak") == "adt" and _workspace(rv["adt"]) and self._eff(fid, ot) and i < len(rv.get("fields", [])) and \
                                    not any(rv["adt"].startswith(lo) for lo in self.local_only):
                                of = rv["adt"] + ("::" + rv["variant"] if self._is_enum(rv["adt"]) else "")
                                key = (of, rv["fields"][i])
                                if key not in self.fields:
                                    self.fields.add(key)
                                    self._fields_changed = True
                                    progress = True
                    if tags and self._add_place(fid, s["dst"], set(tags), "line %s" % s.get("line")):
                        progress = True
                t = b["term"]
                if t["k"] != "call":
                    continue
                pn, fr = lib.callee(t)
                args_o = [self.op_orig(fid, a) for a in t["args"]]
                args_e = [self._eff(fid, x) for x in args_o]
                rid = fr.get("rid") or fr.get("id")
                res = set()
                if pn and self._is_source_call(pn):
                    res = {"S"}
                elif rid in self.fx.fns and not self._killed(pn):
                    g = self.fx.fns[rid]
                    callers[rid].add(fid)
                    for i, e in enumerate(args_e):
                        if e and i + 1 <= g.argc:
                            self._make_actual(rid, i + 1, touched)
                    rtags = self.o[rid].get(0, ())
                    for tg in rtags:
                        if tg == "S":
                            res.add("S")
                        elif isinstance(tg, int) and tg - 1 < len(args_o):
                            res |= args_o[tg - 1]
                elif "indirect" in fr:
                    for x in args_o:
                        res |= x
                else:
                    if fr.get("rkind") == "virtual" or (fr.get("trait") and "rid" not in fr):
                        for im in self._impls(fr["path"]):
                            callers[im].add(fid)
                            g = self.fx.fns[im]
                            for i, e in enumerate(args_e):
                                if e and i + 1 <= g.argc:
                                    self._make_actual(im, i + 1, touched)
                            for tg in self.o[im].get(0, ()):
                                if tg == "S":
                                    res.add("S")
                                elif isinstance(tg, int) and tg - 1 < len(args_o):
                                    res |= args_o[tg - 1]
                    killed = self._killed(pn)
                    if not killed:
                        for x in args_o:
                            res |= x
                    # higher-order std function: labelled arguments reach the closure's parameters, its result the destination
                    for a in t["args"]:
                        pa = lib.op_place(a)
                        cinfo = self._closures[fid].get(pa["l"]) if pa and not pa.get("p") else None
                        if cinfo and cinfo[0] in self.fx.fns:
                            cid = cinfo[0]
                            g = self.fx.fns[cid]
                            callers[cid].add(fid)
                            if any(args_e):
                                for i in range(2, g.argc + 1):
                                    self._make_actual(cid, i, touched)
                            if not killed:
                                for tg in self.o[cid].get(0, ()):
                                    if tg == "S":
                                        res.add("S")
                                    elif isinstance(tg, int) and tg >= 2:
                                        for x in args_o:
                                            res |= x
                    if any(args_e) and pn and any(lib.norm(pn).endswith(m) for m in MUTATORS) and t["args"]:
                        p0 = lib.op_place(t["args"][0])
                        if p0 is not None:
                            tgt = self.alias.get(fid, {}).get(p0["l"], p0["l"])
                            un = set()
                            for x in args_o[1:]:
                                un |= x
                            if self._add(fid, tgt, un, "mutated by %s line %s" % (lib.norm(pn).rsplit("::", 1)[-1], t.get("line"))):
                                progress = True
                if res and self._add_place(fid, t["dst"], res, "result of %s line %s" % (lib.norm(pn or "indirect"), t.get("line"))):
                    progress = True
            # closures created here capture labelled locals
            for l, (cid, ops) in self._closures[fid].items():
                if cid not in self.fx.fns:
                    continue
                for i, op in enumerate(ops):
                    if self.op_tainted(fid, op) and i not in self._upvars[cid]:
                        self._upvars[cid].add(i)
                        self._taint_upvar(self.fx.fns[cid], i)
                        touched.add(cid)
        return touched

    def _taint_upvar(self, g, idx):
        for b in g.blocks:
            for s in b["stmts"]:
                if s["k"] != "assign":
                    continue
                rv = s["rv"]
                p = None
                if rv["k"] in ("use", "cast"):
                    p = lib.op_place(rv["op"])
                elif rv["k"] in ("ref", "copy_for_deref"):
                    p = rv["place"]
                if p is not None and p["l"] == 1:
                    for e in (p.get("p") or []):
                        if isinstance(e, dict) and e.get("of") == "closure" and e.get("f") == idx:
                            self._add(g.id, s["dst"]["l"], {"S"}, "captured variable #%d" % idx)

    # ---------------------------------------------------------------- queries
    def explain(self, fid, l, depth=4):
        return self.why.get((fid, l), "?")


class _View:
    """T.t[fid] -> set of labelled locals (compatibility view)"""

    def __init__(self, T):
        self.T = T

    def __getitem__(self, fid):
        return {l for l, tags in self.T.o.get(fid, {}).items() if self.T._eff(fid, tags)}

    def items(self):
        for fid in self.T.o:
            yield fid, self[fid]

    def values(self):
        for fid in self.T.o:
            yield self[fid]


def guarded_nonzero(fn, bi, op):
    """is block bi dominated by the non-zero successor of a `switchInt(x)` where x is the same local as `op`
    (the `match rhs { 0 => …, _ => lhs / rhs }` idiom)?"""
    l = lib.op_local(op)
    if l is None:
        return False
    # follow a plain copy chain back: _t = _3
    srcs = {l}
    for _ in range(3):
        for _, _, s in lib.stmts(fn):
            if s["k"] == "assign" and not s["dst"].get("p") and s["dst"]["l"] in srcs and s["rv"]["k"] == "use":
                q = lib.op_local(s["rv"]["op"])
                if q is not None:
                    srcs.add(q)
    for bj, b in enumerate(fn.blocks):
        t = b["term"]
        if t["k"] == "switch" and lib.op_local(t["discr"]) in srcs:
            zero = [bb for v, bb in t["targets"] if v == 0]
            if zero and t["otherwise"] != zero[0] and lib.dominates(fn, t["otherwise"], bi):
                return True
    return False


# ---------------------------------------------------------------- carriers (type-directed filters)
import re as _re

_IDENT = _re.compile(r"[A-Za-z_][A-Za-z0-9_]*(?:::[A-Za-z_][A-Za-z0-9_]*)*")
_INTS = {"i8", "i16", "i32", "i64", "i128", "isize", "u8", "u16", "u32", "u64", "u128", "usize"}
_WRAP = {"core::option::Option", "core::result::Result", "core::ops::control_flow::ControlFlow", "core::ops::range::Range",
         "core::ops::range::RangeInclusive", "core::ops::range::RangeFrom", "core::ops::range::RangeTo", "core::convert::Infallible", "bool", "mut",
         "mos_core::errors::Diagnostics", "mos_core::codegen::evaluator::EvaluationError", "anyhow::Error", "str", "char", "dyn", "static"}


def make_carrier(leaves, extra_wrappers=()):
    """carrier(ty): every path identifier of the type is a wrapper or a leaf, and at least one leaf occurs"""
    leaves = set(leaves)
    wrap = _WRAP | set(extra_wrappers)

    def carrier(ty):
        ids = _IDENT.findall(ty)
        ids = [i for i in ids if not (len(i) <= 2 and i.startswith("'")) and i not in ("a", "b", "_")]
        if not ids:
            return False
        has = False
        for i in ids:
            if i in leaves:
                has = True
            elif i in wrap:
                continue
            else:
                return False
        return has
    return carrier


INT_CARRIER = make_carrier(_INTS | {"mos_core::codegen::program_counter::ProgramCounter", "mos_core::codegen::SymbolData",
                                     "mos_core::codegen::MacroDefinition"})


# ---------------------------------------------------------------- constant range guards

class Bounds:
    """values known to lie in a small constant range at a program point:
       `if !(LO..=HI).contains(&x) { return Err(..) }`  — x ∈ [LO, HI] in every block dominated by the `true` successor.
    The range literal is a promoted constant in MIR, so its bounds are read from the HIR call on the same line."""

    LIMIT = 1 << 32

    def __init__(self, fx, fn):
        self.fn = fn
        self.guards = []          # (true-successor block, local, lo, hi)
        self.du = lib.DefUse(fn)
        owner = fn
        while owner.kind == "closure" and owner.d.get("parent") in fx.fns:
            owner = fx.fns[owner.d["parent"]]
        hir_ranges = {}
        if owner.d.get("hir"):
            for x in lib.hwalk(owner.hir["body"]):
                if x.get("k") == "mcall" and lib.pm(x.get("path"), "RangeInclusive::contains"):
                    ends = []
                    for e in lib.hwalk(lib.strip(x["recv"])):
                        if e.get("k") == "unary" and e["op"] == "Neg" and lib.hlit(e["a"]) is not None:
                            ends.append(-lib.hlit(e["a"]))
                        elif e.get("k") == "lit" and e.get("lk") == "int":
                            ends.append(e["v"])
                    if len(ends) == 3 and ends[0] == -ends[1]:
                        ends = [ends[0], ends[2]]
                    if len(ends) == 2:
                        hir_ranges.setdefault(x.get("ln"), []).append(tuple(ends))
        from .c04 import dst_switch_true_succ
        for bi, t in lib.calls(fn):
            if not lib.pm(lib.callee(t)[0], "RangeInclusive::contains"):
                continue
            rs = hir_ranges.get(t.get("line"))
            if not rs or len(rs) != 1:
                continue
            lo, hi = rs[0]
            # the tested value: &x  (through one re-borrow)
            p = lib.op_place(t["args"][1])
            x = self._deref_source(p["l"]) if p else None
            ts = dst_switch_true_succ(fn, bi)
            if x is not None and ts is not None:
                self.guards.append((ts, x, lo, hi))

    def _deref_source(self, l, depth=4):
        while depth > 0:
            depth -= 1
            d = self.du.single_def(l)
            if not d or d[2] != "assign":
                return None
            rv = d[3]["rv"]
            if rv["k"] == "ref":
                pl = rv["place"]
                if not pl.get("p"):
                    return pl["l"]
                if pl.get("p") == ["deref"]:
                    l = pl["l"]
                    continue
                return None
            return None
        return None

    def range_of(self, op, bi, depth=14):
        """(lo, hi) if the operand is known to be within a small constant range in block bi, else None"""
        c = lib.const_int(op)
        if c is not None:
            return (c, c) if abs(c) <= self.LIMIT else None
        l = lib.op_local(op)
        if l is None or depth <= 0:
            return None
        for ts, x, lo, hi in self.guards:
            if x == l and lib.dominates(self.fn, ts, bi) and abs(lo) <= self.LIMIT and abs(hi) <= self.LIMIT:
                return (lo, hi)
        d = self.du.single_def(l)
        if not d or d[2] != "assign":
            return None
        rv = d[3]["rv"]
        dbi = d[0]
        if rv["k"] == "use":
            p = lib.op_place(rv["op"])
            if p is not None and p.get("p") and p["p"] == [p["p"][0]] and isinstance(p["p"][0], dict) and p["p"][0].get("of") == "tuple" and p["p"][0].get("f") == 0:
                # result .0 of a checked AddWithOverflow etc.
                return self.range_of({"copy": {"l": p["l"]}}, dbi, depth - 1)
            return self.range_of(rv["op"], dbi, depth - 1) if dbi == bi or lib.dominates(self.fn, dbi, bi) else None
        if rv["k"] == "cast":
            return self.range_of(rv["op"], dbi, depth - 1)
        if rv["k"] == "binop":
            a, b = self.range_of(rv["l"], dbi, depth - 1), self.range_of(rv["r"], dbi, depth - 1)
            op = rv["op"].replace("WithOverflow", "").replace("Unchecked", "")
            if op in ("Rem",) and b is not None and b[0] >= 1:
                return (-(b[1] - 1), b[1] - 1)
            if op == "BitAnd" and (a is not None or b is not None):
                m = (b or a)
                return (0, max(abs(m[0]), abs(m[1])))
            if a is not None and b is not None:
                if op == "Add":
                    return (a[0] + b[0], a[1] + b[1])
                if op == "Sub":
                    return (a[0] - b[1], a[1] - b[0])
                if op == "Mul":
                    vals = [a[0] * b[0], a[0] * b[1], a[1] * b[0], a[1] * b[1]]
                    return (min(vals), max(vals))
        return None
