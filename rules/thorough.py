"""Thorough tier = quick +
  (a) the same rules on release-like MIR/HIR (overflow checks and debug assertions off);
      a finding in either profile counts;
  (b) census: extraction with --all-targets must still contain the same non-test functions;
  (c) self-test: every seeded one-instance-broken variant under mutants/<Cxx>/ is applied to a scratch
      copy of the *current* tree; the rules must report exactly the expected instance keys in addition
      to what they report on the unmodified tree.  A mutant that no longer applies is skipped (recorded).
A failing self-test makes the check fail closed: its verdict cannot be trusted.
"""
import concurrent.futures
import json
import os
import subprocess
import sys

from . import facts as F

VERIF = os.path.dirname(os.path.dirname(os.path.abspath(__file__)))


def _mutant_worker(args):
    patch, prop = args
    r = subprocess.run([sys.executable, os.path.join(VERIF, "tools", "mutant.py"), "--json", patch, prop],
                       stdout=subprocess.PIPE, stderr=subprocess.PIPE, text=True)
    try:
        return patch, json.loads(r.stdout.strip().splitlines()[-1])
    except Exception:
        return patch, {"_error": "mutant run failed: %s %s" % (r.stdout[-300:], r.stderr[-300:])}


def extend(ctx, run_rules):
    prop = ctx.prop
    # (a) release-like profile
    rid = ctx.rule("T.rel", "the property's rules re-evaluated on facts extracted with -C overflow-checks=off -C debug-assertions=off "
                   "(what `cargo build --release` ships); findings of either profile count")
    rel = F.load("rel")
    c2 = run_rules(prop, ctx.tier, ctx.seed, rel)
    have = {f.key for f in ctx.findings}
    n_new = 0
    for f in c2.findings:
        if f.key not in have:
            f.what = "[release profile] " + f.what
            ctx.findings.append(f)
            n_new += 1
    n2 = sum(len(v) for v in c2.instances.values())
    ctx.inst(rid, "profile=rel", sample={"instances_in_release_profile": n2, "findings_only_in_release_profile": n_new})
    for r, v in c2.instances.items():
        for k, nt in v[:0]:
            pass
    ctx.extra["release_profile_instances"] = n2

    # (b) census over all targets
    rid = ctx.rule("T.census", "every non-test function the rules analysed is also present when the workspace is extracted with --all-targets "
                   "(the rules did not analyse a configuration nobody builds)")
    alld, _, _, _ = F.ensure("all")
    allf = F.Facts(alld, "all", kinds=("rlib", "executable", "test"))
    missing = [p for p in ctx.facts.by_path if p not in allf.by_path]
    ctx.inst(rid, "all-targets", sample={"functions_dev": len(ctx.facts.by_path), "functions_all_targets": len(allf.by_path)})
    ctx.extra["census_all_targets_functions"] = len(allf.by_path)
    if missing:
        ctx.fail_closed(rid, "%d analysed functions are absent from the --all-targets extraction, e.g. %s" % (len(missing), missing[:3]))

    # (c) seeded mutants
    rid = ctx.rule("T.selftest", "seeded one-instance-broken variants (mutants/%s/*.diff): each must be reported with exactly the expected instance key(s)" % prop)
    mdir = os.path.join(VERIF, "mutants", prop)
    exp_path = os.path.join(mdir, "expect.json")
    if not os.path.isdir(mdir) or not os.path.exists(exp_path):
        ctx.inst(rid, "no-mutants", nontrivial=False)
        return
    with open(exp_path) as fh:
        expect = json.load(fh)
    base = {f.key for f in ctx.findings}
    jobs = [(os.path.join(mdir, n + ".diff"), prop) for n in sorted(expect)]
    res = {}
    with concurrent.futures.ThreadPoolExecutor(max_workers=4) as ex:
        for patch, out in ex.map(_mutant_worker, jobs):
            res[os.path.basename(patch)[:-5]] = out
    caught = skipped = missed_seeds = 0
    detail = {}
    for name in sorted(expect):
        out = res.get(name, {"_error": "not run"})
        if "_error" in out:
            if "does not apply" in out["_error"]:
                skipped += 1
                detail[name] = "skipped: patch does not apply to the current tree"
                ctx.inst(rid, name, nontrivial=False)
                continue
            ctx.fail_closed(rid, "mutant %s: %s" % (name, out["_error"][:200]))
            continue
        got = {f["key"] for f in out.get(prop, [])}
        new = got - base
        want = set(expect[name]["keys"])
        ctx.inst(rid, name, sample={"mutant": name, "breaks": expect[name].get("what"), "reported": sorted(new)})
        if not want and name.startswith("seed-") and not new:
            # an independently written change that the rules do not report: recorded as missed in seeded/INDEX.md, shown here as such
            detail[name] = "NOT reported (recorded as missed in seeded/INDEX.md)"
            missed_seeds += 1
            continue
        if not want <= got:
            ctx.fail_closed(rid, "mutant %s (%s) is not reported: expected %s, new findings %s" % (
                name, expect[name].get("what"), sorted(want), sorted(new)))
        elif new - want:
            ctx.fail_closed(rid, "mutant %s produces findings beyond the broken instance: %s" % (name, sorted(new - want)))
        else:
            caught += 1
            detail[name] = "caught: " + ", ".join(sorted(want))
    ctx.extra["selftest"] = {"mutants": len(expect), "caught": caught, "skipped": skipped, "independent_changes_not_reported": missed_seeds, "detail": detail}
