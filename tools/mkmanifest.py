#!/usr/bin/env python3
"""regenerates MANIFEST.json from the table below (claimed properties = those with a rules/cXX.py listed in CLAIMS)"""
import json, os
V = os.path.dirname(os.path.dirname(os.path.abspath(__file__)))
ids = [json.loads(l)["id"] for l in open(os.path.join(V, "properties.jsonl"))]

TRUST = ("rustc front end (type check, HIR lowering, MIR construction at mir-opt-level 0) represents the program faithfully; "
         "external crates (std, nom, petgraph, lsp-types, emulator_6502, …) are modelled by name-keyed summaries listed in the rule modules; "
         "reference tables under ref/ transcribe the ISA and the user guide correctly")

CLAIMS = {
 "C01": ("table agreement + structural rules on typed HIR / resolved call graph",
         "Decides the structural clauses of C01 for *every* instance at once: the opcode table against an independently written ISA table on all 840 "
         "(mnemonic, form, index) keys under first-match semantics (every undefined combination is shown to reach the rejecting arm), the zero-page/absolute "
         "boundary guard, little-endian operand bytes, the branch constants (+2, -128..=127, +256, reject otherwise), the operand grammar ↔ addressing-form map "
         "and alternative order, the mnemonic tag tables, line locality of the operand grammar, and that the opcode table takes nothing but mnemonic, form, index register and operand value. It does not execute the assembler; arithmetic on concrete "
         "operands is rustc's.", "§4 C01"),
 "C02": ("field-effect analysis over MIR + structural HIR rules",
         "Decides necessary structural conditions of the fixed point: every context/segment field a pass mutates is reset for the next pass or tabled persistent; "
         "changed, newly filled and first-defined symbols force another pass, and whether a value changed is decided by `!=` or by a comparator that does not stop at the kind of value; the only successful loop exit requires no errors and nothing undefined, and is tested after the segment symbols of the pass were registered; a defined segment replaces nothing that was emitted; all program-visible addresses "
         "(labels, block symbols, `*`, source map) live in the target address space and `* =` converts before setting the physical pc. Convergence and values on "
         "concrete programs are not decided.", "§4 C02"),
 "C03": ("table agreement parser ↔ AST ↔ printer ↔ evaluator ↔ documentation (typed HIR)",
         "Every operator, modifier, radix, literal keyword, data size and encoding is compared as a table row between the grammar extracted from the nom combinators, "
         "the evaluator's arms (canonicalised expression shapes, operand order), Display, and a reference transcribed from the user guide; precedence classes, left "
         "fold and prefix shadowing are structural; prefix operators are applied inside-out, no binary result bypasses the operator table, every identifier value passes the `<`/`>` of its own occurrence, `true`/`false` end at a word boundary and a `-` in front of `(` or `$` is a sign; the text encoders cut no character to a byte without having tested the character. Numeric results are rustc's i64 operations.", "§4 C03"),
 "C04": ("dominance on MIR CFG + type-directed discard detection on HIR + who-may-write table",
         "Shows for the build command that every file-creating or writing call is dominated by the no-error branches of parse and codegen and by the Ok continuation of "
         "merge_segments, that no other function may create files, that every error diagnostic built in the core carries a label unless tabled, that the failure exit "
         "status is a non-zero constant on every path, that no Result<_, Diagnostics> is thrown away unreported anywhere in non-test code, that the path rejecting an out-of-range branch still emits the instruction (so the error is reported at the branch), and that every push onto the import stack, the scope path and the macro depth meets its pop on every path to a return, error exits included (so an error leaves nothing behind for the next pass); no result kept in a variable is dropped on a path that returns success.", "§4 C04"),
 "C05": ("printer/parser coverage rules on typed HIR + extracted combinator grammar",
         "Every field of every AST variant is printed; every trivia-carrying element a parser closure binds is moved, mapped or has its trivia read; elements bound to `_` "
         "consume constant text or nothing; no bound element reaches the tree only through a lossy Option combinator; swallow-all (`rest`) never occurs without a diagnostic; the file parser is all_consuming; case normalisation never touches "
         "trivia; no parser function removes or replaces characters of source text it keeps; an optional group of parsed elements is taken apart completely (no catch-all arm over a `Some`); constant text is dropped only where a tree node is built that can print it back. Partitioning of arbitrary text by the trivia parsers is not decided.", "§4 C05"),
 "C06": ("interprocedural label propagation (taint) over MIR to Assert/allocation/index/loop sinks, with dominating-guard discharge",
         "Every integer the program text controls (literals, evaluated expressions, config values, SymbolData::Number) is followed, field-based and across calls, "
         "to the panicking primitives of the shipped MIR: overflow/division/shift/negation asserts, allocation sizes, indices, loop trip counts; a site is discharged "
         "only by a recognised dominating guard (non-zero switch, constant range check) or a tabled bound. Also: no unwrap on literal conversion, no user string "
         "into the asserting Identifier constructor, a finite pass bound with a diagnostic, no unwrap/expect on Result<_, Diagnostics> or on I/O results of the command-line path, an import-cycle check in front of the recursive expansion that tests the very value it pushes, a char-boundary test in front of case-insensitive tags that a longer character can fold to, a parser input that is the stored text itself (spans index it), no expression function applied under its own lock, chunk / window / step sizes clamped or tested against zero. Absence of all panics, "
         "stack depth and termination of arbitrary programs are not decided.", "§4 C06"),
 "C07": ("structural rules on typed HIR + must-pass-through on MIR",
         "Decides the structural clauses only: polarity of `.if` (true is `!= 0`), iteration domain and `index` binding of `.loop`, positional macro binding after the arity check, "
         "a macro scope of its own named after the invocation's position (the same in every pass) and entered with the definition's block, balanced scope/dummy-segment push-pop on every path, per-block symbol insertions not allowed to fail silently, the scoped macro lookup on every path (must-call with wrapper summaries), argument evaluation in the invoking scope, the defining edge as a symbol's parent, and `.import *` exporting every child of the import scope. "
         "Equivalence with the hand expansion on concrete programs is not decided.", "§4 C07"),
 "C08": ("grammar extraction from nom combinators: terminal case and trivia-wrapper rules",
         "Every terminal containing a letter is matched case-insensitively; every terminal is reachable only behind a trivia wrapper unless tabled; text kept from a "
         "case-insensitive keyword is never compared case-sensitively, neither against a literal anywhere nor along its flow out of the parser closure into the function it is handed to; the empty line comment is accepted; no parser function decides on the raw text of the input (starts_with / trim / find on a fragment) outside a two-line table; no look-ahead (`not`, `peek`) skips trivia; `else` and `from` are matched behind multi-line trivia. What the hand-written nested-comment scanner computes and equality of outputs for concrete layout variants is not decided.", "§4 C08"),
 "C09": ("table agreement + container-type and shape rules on HIR/MIR",
         "Config keys agree between validator, extractor and reference; banks and segments live in insertion-ordered containers and write_banks walks its Vec; the prg "
         "header bytes and defaults have the documented shape; every documented error has a diagnostic and Ok is returned only without errors; no configured option is "
         "overwritten without an absence test; the merge places segments at (start − bank start) with min/max ranges and never copies parts of the image over other parts (what no segment covers is fresh fill). Offsets on concrete configurations are not decided.", "§4 C09"),
 "C10": ("type-directed hash-order detection on MIR (receiver types embed their source iterator) + frozen classification table + total-sort recognition",
         "Every consumer of a std hash_map/hash_set iterator in non-test code is order-insensitive by nature, sorted on a key that identifies the element, or tabled safe "
         "with a reason; containers whose order reaches output are insertion-ordered; the CLI emitter prints diagnostics in collection order. A new unclassified site is "
         "reported; a walk in hash order branches on no first-come membership answer (visited-sets), so tabled reasons stay true; nothing reachable from `mos build` calls a process-seeded hasher, the clock, the process / thread identity, the environment or formats an address, and every output file is created truncating, never appended to. File-system enumeration order and thread scheduling are not decided.", "§4 C10"),
 "C11": ("must-pass-through on MIR + two interprocedural label propagations (target vs physical address space)",
         "Single emission choke point with a source-map entry of exactly the emitted length on every path; no comparison or subtraction mixes a target-space address with "
         "a physical one without the relocation offset; macro re-attribution only under the listing option and by position; half-open address lookups; no context field is overwritten before and read after a nested activation of the code generator without being restored (re-entrancy analysis); listing rows are cut at address gaps, read from the entry's own segment and written to distinct files; the row without bytes and the rows with bytes are decided on the same collection (every source line gets a row); no collection there is keyed by a target address alone; the source map is append-only as long as entries are addressed by position; distinct source paths inside the project get distinct listing files; a listing row is labelled with the address of its own first byte, not a running one. Row layout on concrete programs is not decided.", "§4 C11"),
 "C12": ("formatter coverage and trivia-carrier rules on typed HIR + dominance on MIR",
         "Every text-carrying field of every AST variant is emitted; a Located emitted through `.data` is the token's leading element or tabled (so its comments cannot be lost); "
         "both comment kinds become comment chunks and only blank lines are suppressed; `mos format` writes only after the whole project parsed; a chunk-dropping decision never depends on the text of the line; no Located value of an argument list is written through its data alone and no trivia list is copied selectively by item kind; a joined line is replaced by a part of itself only where the rest is blank; files opened for writing are truncated; a line break is dropped only on conditions over the line being built. Token-sequence and byte "
         "equality after formatting are not decided.", "§4 C12"),
 "C14": ("field-effect/dominance on MIR, label propagation CLIENTPOS/BYTELEN, hash-order classification, capability table",
         "Analysis results are reset before any early return and, on every path from where a handler reads the client's text, the text is stored, the project re-analysed and diagnostics republished (must-call with wrapper summaries); diagnostics of files that left the project are withdrawn; request handlers do not mutate the shared analysis; "
         "client positions never reach a panicking index; client URIs are never force-unwrapped; no hash order in answers; positions sent are not byte offsets; advertised "
         "capabilities equal registered handlers; every field of the server context outside a five-line table is re-derived on every path of perform_codegen and request handlers store into no other field; range-only answers (lenses, highlights, semantic tokens, document symbols) are confined to the requested document; the record of what the client was told is written by the publisher only; no constant is added to the byte index of a character found by predicate. Equality with a fresh server on concrete histories is not decided.", "§4 C14"),
 "C15": ("analysis-path coverage on typed HIR (completeness clause only)",
         "Every expression, interpolated string and block of every statement kind reaches a usage-tracking evaluation on the path the language server takes; the usage database "
         "and the evaluator resolve through one traversal; usages carry per-segment spans; rename builds its edits from the definition and all recorded usages of every import of the defining file, in original-document coordinates and only where the recorded text is the symbol's name (an import's alias stays), and not at all where an occurrence also stands for a symbol defined elsewhere; every occurrence gets the new name itself (no second look-up by name) and the per-file edit lists of a symbol's copies are merged, never replaced; whether a usage is recorded does not depend on fields of the code generator other than its options and symbol table. Everything "
         "else in C15 (byte-identical output after rename, renaming back) is not decided.", "§4 C15/C16"),
 "C16": ("analysis-path coverage on typed HIR (completeness clause only)",
         "Same completeness clause as C15 plus single-resolver agreement, per-segment usage spans, a per-pass reset of the usage database and a fixed, narrowest-first order among the definitions at a position; references and highlights select the same symbol definitions and answer each place once; the branch of an .if that is not taken is analysed in a scope of its own; a column, which counts characters, is never taken for a number of bytes in the code map, the analysis database and the source map; whether a usage is recorded does not depend on generator state; no symbol is removed from the symbol table during code generation (its place is the key of the usage database). Which occurrence binds where on concrete programs is not decided.", "§4 C15/C16"),
 "C17": ("label propagation BYTELEN → LSP positions; dominance and shape rules on HIR",
         "No UTF-8 byte length/offset becomes an LSP character in the formatting answer; formatting only without diagnostics; the language server and the CLI share one formatter "
         "and the server uses default options; the edit loop advances its position tracker over deleted and unchanged chunks only, in merged edits too; no character-counting column of the code map reaches an edit position; the diff is taken against the stored buffer itself; the handlers answer the list that was computed, uncut. The diff-to-edit result on concrete buffers is "
         "not decided.", "§4 C17"),
 "C18": ("field-effect analysis on MIR + table agreement + shape rules on HIR",
         "Pending assertions are never mutated during a run; CPU flag masks and register keys agree with the 6502 and the guide; ram16 byte order; failure iff zero/unevaluable, "
         "success only at BRK after the assertions at that address; exit status 1 iff a test failed; memory accessors do not slice RAM unchecked; the assertion scan covers every pending element; relocated segments are loaded where the cpu runs them; the runner keeps only the assertions and traces of the bank it loaded; every assertion is stored with its own copy of the symbol table. The emulator itself is external.", "§4 C18"),
 "C19": ("guard-liveness must-analysis on MIR + shape rules on HIR (lock-coverage and stepping-shape clauses)",
         "In the machine thread every CPU-advancing call happens under a running-state guard taken before the state test; pause reads the program counter under the guard that "
         "covers the store of Stopped(pc); the breakpoint test dominates every step of a free run and searches the shared list under its lock, exempting only the address the machine was halted at; next/stepIn/stepOut step under the same guard and stop through pause; next/stepOut follow the call depth (jsr/rts paired, not the stack pointer); breakpoints are kept per source file; evaluate fetches registers and flags on every path to the expression evaluator; every address range of a source line keeps its breakpoint; the adapter-backed ram() is registered only for machines without a program of their own. All other interleavings and stepping on concrete programs are not decided.", "§4 C19"),
 "C20": ("ownership/escape rule for Arc::try_unwrap + call-graph rules for blocking primitives + self-deadlock analysis over lock guards (MIR must-liveness)",
         "No force-unwrapped Arc::try_unwrap on an Arc whose clone another long-lived owner keeps; no joined thread can sit in a blocking accept; shutdown notifies handlers "
         "before answering, never waits on another thread while doing so, and the debug session listens for it and completes the selected operation; no thread asks for a lock it already holds; a thread that its owner joins has no untimed wait the owner does not wake; the exit status does not depend on the debugger thread (no forced join result, no explicit panic reachable from the session loop outside a table, no forced configuration); shutdown handlers registered late are signalled at once; sleeps reachable from joined threads are bounded constants; the thread that accepts connections reads from no socket without a timeout; no destructor waits for a thread and the debugger thread is joined only behind the language server's main loop; in the whole-program lock-class graph no two classes are taken in opposite orders by different threads and none is re-acquired through a callee, outside two tabled pairs of distinct instances; the debugger calls no workspace function outside the context's own methods while it holds the language server's context. Promptness beyond that and the cancellation of a step that never ends are not decided.", "§4 C20"),
}

NA = {
 "C13": "idempotence of the formatter is a fixed-point equation of a string function over all programs and configurations; no structural clause was found whose violation is necessary for the behaviour to break (the known counter-examples depend on how indentation interacts with the text of multi-line comments). Static analysis in reach cannot decide it; no claim (DESIGN.md §4 C13).",
}

checks = []
for i in ids:
    if i in CLAIMS:
        tech, text, ref = CLAIMS[i]
        checks.append({
            "property_id": i,
            "quick_cmd": "./check %s --tier quick" % i,
            "thorough_cmd": "./check %s --tier thorough" % i,
            "evidence_file": "evidence/%s.json" % i,
            "replay_cmd_template": "./check %s --replay {path}" % i,
            "engine": "mosfacts+rules",
            "level_claimed": {"category": "other", "text": text, "design_ref": ref},
            "level_note": TRUST,
            "technique": "static analysis: " + tech,
        })
na = [{"property_id": i, "reason": NA.get(i, "not built")} for i in ids if i not in CLAIMS]
m = {
 "version": 1,
 "setup_cmd": "cd engine/mosfacts && cargo +nightly build --release --offline && cd ../.. && python3 -m compileall -q rules check && ./check --warm",
 "hooks": {"guard": "datatrash_mos_verif",
           "enable": "none needed: static analysis reads the source through the compiler front end (cargo +nightly check with the mosfacts driver as RUSTC_WORKSPACE_WRAPPER); no instrumentation is compiled into mos",
           "baseline_off_cmd": "cd /repo && (cargo nextest run --workspace --no-fail-fast --tool-config-file pb:/w/lib/nextest.toml --profile pb --test-threads 8 --offline || cargo test --workspace --no-fail-fast --offline)",
           "source_commits": [], "add_only": True},
 "engines": [
   {"name": "mosfacts", "path": "engine/mosfacts", "serves_properties": sorted(CLAIMS), "kind_free_text": "rustc_private driver (nightly): dumps ADTs, impls, typed path-resolved HIR bodies and MIR bodies with resolved callees as JSON facts per crate"},
   {"name": "rules", "path": "rules", "serves_properties": sorted(CLAIMS), "kind_free_text": "Python 3 (stdlib only) rule library over the facts: CFG/dominance, call graph, field effects, combinator-grammar extraction, table agreement"},
 ],
 "checks": checks,
 "notes": "Every check re-extracts facts from /repo's current working tree (cache keyed by a hash of all workspace sources). Known genuine defects are listed in known_findings.json and printed as KNOWN-FINDING lines. Thorough tier = quick + release-profile facts + all-targets census + self-test on the seeded variants of mutants/<id>/ (one-instance-broken mutants, behaviour-preserving ok-* variants that must stay silent, and the independently written changes of seeded/).",
 "not_applicable": na,
}
json.dump(m, open(os.path.join(V, "MANIFEST.json"), "w"), indent=1)
print("claimed:", sorted(CLAIMS), "na:", len(na))
