#!/usr/bin/env python3
"""WHAT="what it breaks" tools/mkmut.py <Cxx> <name> <file relative to /repo> <old text> <new text> [<file> <old> <new> …]
writes mutants/<Cxx>/<name>.diff (a unified diff that replaces the first occurrence of old by new)."""
import difflib, os, sys
import json
prop, name = sys.argv[1], sys.argv[2]
rest = sys.argv[3:]
what = os.environ.get("WHAT", "")
out = []
orig, cur = {}, {}
for i in range(0, len(rest), 3):
    rel, old, new = rest[i:i + 3]
    old = old.encode().decode("unicode_escape"); new = new.encode().decode("unicode_escape")
    if rel not in cur:
        orig[rel] = cur[rel] = open(os.path.join("/repo", rel)).read()
    if old not in cur[rel]:
        sys.exit("old text not found in %s: %r" % (rel, old))
    cur[rel] = cur[rel].replace(old, new, 1)
for rel in orig:
    out.extend(difflib.unified_diff(orig[rel].splitlines(True), cur[rel].splitlines(True), "a/" + rel, "b/" + rel))
d = os.path.join(os.path.dirname(os.path.dirname(os.path.abspath(__file__))), "mutants", prop)
os.makedirs(d, exist_ok=True)
open(os.path.join(d, name + ".diff"), "w").write("".join(out))
ep = os.path.join(d, "expect.json")
e = json.load(open(ep)) if os.path.exists(ep) else {}
e.setdefault(name, {"keys": [], "what": what})
if what:
    e[name]["what"] = what
json.dump(e, open(ep, "w"), indent=1, sort_keys=True)
print("wrote", os.path.join(d, name + ".diff"))
