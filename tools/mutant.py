#!/usr/bin/env python3
"""developer aid + thorough-tier helper:
   tools/mutant.py <patch.diff> C01 [C02 …]   — apply the patch to a scratch copy of /repo, extract facts, run the
   named checks against the copy, print their findings; the copy is removed afterwards."""
import os, shutil, subprocess, sys, tempfile, json
VERIF = os.path.dirname(os.path.dirname(os.path.abspath(__file__)))
sys.path.insert(0, VERIF)


SCRATCH = "/var/tmp/mosverif.scratch"


def run_on_patch(patch, props, keep=False, repo="/repo"):
    """returns {prop: [finding dicts]} or {"_error": …}.  One fixed scratch directory, serialised by a lock
    (the shared warm target dir would serialise the compilations anyway)."""
    import fcntl
    from rules import facts as F, report
    import importlib
    os.makedirs(F.CACHE, exist_ok=True)
    lock = open(os.path.join(F.CACHE, ".scratchlock"), "w")
    fcntl.flock(lock, fcntl.LOCK_EX)
    try:
        os.makedirs(SCRATCH, exist_ok=True)
        subprocess.check_call(["rsync", "-a", "--delete", "--exclude", "target", "--exclude", ".git", "--exclude", "vscode", repo + "/", SCRATCH + "/"])
        r = subprocess.run(["patch", "-p1", "--no-backup-if-mismatch", "-d", SCRATCH, "-i", os.path.abspath(patch)],
                           stdout=subprocess.PIPE, stderr=subprocess.STDOUT, text=True)
        if r.returncode != 0:
            return {"_error": "patch does not apply: " + r.stdout[-400:]}
        try:
            fd, key, nfiles, spent = F.ensure("dev", repo=SCRATCH)
        except SystemExit as e:
            return {"_error": "mutant does not compile: %s" % e}
        fx = F.Facts(fd, "dev")
        fx.key = key
        fx.nfiles = nfiles
        shutil.rmtree(os.path.dirname(fd), ignore_errors=True)
    finally:
        if not keep:
            shutil.rmtree(SCRATCH, ignore_errors=True)
        fcntl.flock(lock, fcntl.LOCK_UN)
        lock.close()
    out = {}
    for p in props:
        mod = importlib.import_module("rules.%s" % p.lower())
        ctx = report.Ctx(p, "thorough", 0, fx)
        mod.run(ctx)
        out[p] = [f.as_dict() for f in ctx.findings]
    return out


if __name__ == "__main__":
    args = sys.argv[1:]
    as_json = False
    record = False
    if args and args[0] == "--json":
        as_json = True
        args = args[1:]
    if args and args[0] == "--record":
        # tools/mutant.py --record Cxx : run every mutants/Cxx/*.diff, write mutants/Cxx/expect.json with the NEW finding keys
        # (relative to the current tree); review the file by hand afterwards.
        prop = args[1].upper()
        import concurrent.futures, importlib
        from rules import facts as F, report
        mdir = os.path.join(VERIF, "mutants", prop)
        fx = F.load("dev")
        ctx = report.Ctx(prop, "quick", 0, fx)
        importlib.import_module("rules.%s" % prop.lower()).run(ctx)
        base = {f.key for f in ctx.findings}
        exp_path = os.path.join(mdir, "expect.json")
        old = json.load(open(exp_path)) if os.path.exists(exp_path) else {}
        names = sorted(n[:-5] for n in os.listdir(mdir) if n.endswith(".diff"))
        only = set(args[2:])

        def one(n):
            return n, run_on_patch(os.path.join(mdir, n + ".diff"), [prop])
        todo = [n for n in names if (not only and (n not in old or (not old[n].get("keys") and not n.startswith("ok-")))) or n in only]
        with concurrent.futures.ThreadPoolExecutor(max_workers=4) as ex:
            for n, res in ex.map(one, todo):
                if "_error" in res:
                    print("!!", n, res["_error"][:300]); continue
                new = sorted({f["key"] for f in res[prop]} - base)
                what = (old.get(n) or {}).get("what", "")
                if n.startswith("ok-"):
                    # behaviour-preserving variant: the expectation is silence and is never recorded from a run
                    old[n] = {"keys": [], "what": what}
                    print(("SILENT" if not new else "FALSE ALARM"), n, new)
                    continue
                old[n] = {"keys": new, "what": what}
                print(("OK  " if new else "MISS"), n, new)
        json.dump(old, open(exp_path, "w"), indent=1, sort_keys=True)
        sys.exit(0)
    res = run_on_patch(args[0], [p.upper() for p in args[1:]])
    if as_json:
        print(json.dumps(res)); sys.exit(0)
    if "_error" in res:
        print(res["_error"]); sys.exit(2)
    for p, fs in res.items():
        print("==", p, len(fs), "finding(s)")
        for f in fs:
            print("  ", f["key"], "::", f["what"][:160])
