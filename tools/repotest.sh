#!/bin/bash
# runs the pinned test suite of a repo tree (default /repo) the way BASELINE.json does; prints a summary line
cd "${1:-/repo}" && cargo nextest run --workspace --no-fail-fast --tool-config-file pb:/w/lib/nextest.toml --profile pb --test-threads 8 --offline --retries 3 2>&1 | grep -E "^\s+(Summary|FAIL|SIGABRT|TIMEOUT)|error:" | sort | uniq | head -20
