#!/usr/bin/env python3
"""tools/seedcheck.py <seeded/<id> dir> [Cxx …]
Applies seeded/<id>/patch.diff to /repo (git apply), runs the quick checks (all claimed properties unless some are named),
undoes the patch (git checkout -- .), and writes seeded/<id>/result.json: which checks reported which NEW violations."""
import json, os, subprocess, sys
V = os.path.dirname(os.path.dirname(os.path.abspath(__file__)))
d = os.path.abspath(sys.argv[1])
props = [p.upper() for p in sys.argv[2:]]
if not props:
    props = [c["property_id"] for c in json.load(open(os.path.join(V, "MANIFEST.json")))["checks"]]
st = subprocess.run(["git", "-C", "/repo", "status", "--porcelain", "--untracked-files=no"], stdout=subprocess.PIPE, text=True).stdout.strip()
if st:
    sys.exit("refusing: /repo has uncommitted changes:\n" + st)
r = subprocess.run(["git", "-C", "/repo", "apply", os.path.join(d, "patch.diff")], stdout=subprocess.PIPE, stderr=subprocess.STDOUT, text=True)
if r.returncode != 0:
    sys.exit("patch does not apply: " + r.stdout)
res = {}
try:
    for p in props:
        out = subprocess.run([os.path.join(V, "check"), p], cwd=V, stdout=subprocess.PIPE, stderr=subprocess.STDOUT, text=True)
        viol = []
        lines = out.stdout.splitlines()
        for i, l in enumerate(lines):
            if l.startswith("VIOLATION"):
                # the line(s) before describe it
                j = i - 1
                while j >= 0 and lines[j].startswith("    "):
                    j -= 1
                viol.append(lines[j][:400] if j >= 0 else l)
        res[p] = {"exit": out.returncode, "violations": viol}
        print(p, "exit", out.returncode, "|", "; ".join(v[:160] for v in viol)[:400])
finally:
    subprocess.run(["git", "-C", "/repo", "checkout", "--", "."])
json.dump(res, open(os.path.join(d, "result.json"), "w"), indent=1)
caught = [p for p, v in res.items() if v["exit"] == 1]
print("caught by:", caught or "NOTHING")
