#!/bin/bash
# tools/seedconfirm.sh <worktree> : confirm a seeded change in its scratch worktree: builds, 209 tests pass, demo fails with it and passes without it
W=$1; cd "$W" || exit 2
export CARGO_NET_OFFLINE=true CARGO_TARGET_DIR=$W/target
DEMO=${2:-DELIVER/demo.sh}
echo "== diff matches patch: $(git diff -- mos-core mos | diff -q - DELIVER/patch.diff >/dev/null && echo yes || echo NO)"
cargo build --offline --workspace 2>&1 | tail -1
cargo nextest run --workspace --no-fail-fast --tool-config-file pb:/w/lib/nextest.toml --profile pb --test-threads 8 --offline --retries 3 2>&1 | grep -E "Summary|FAIL" | head -5
bash $DEMO >/tmp/seed/$(basename $W).with.log 2>&1; echo "== demo with change: exit $?"
git apply -R DELIVER/patch.diff || exit 3
bash $DEMO >/tmp/seed/$(basename $W).without.log 2>&1; echo "== demo without change: exit $?"
git apply DELIVER/patch.diff
