#!/bin/bash
# tools/seedconfirm_py.sh <worktree> <demo script relative to worktree> : like seedconfirm.sh for python demonstrations that need a rebuilt binary
W=$1; D=$2; cd "$W" || exit 2
export CARGO_NET_OFFLINE=true CARGO_TARGET_DIR=$W/target
echo "== diff matches patch: $(git diff -- mos-core mos | diff -q - DELIVER/patch.diff >/dev/null && echo yes || echo NO)"
cargo build --offline --workspace 2>&1 | tail -1
cargo nextest run --workspace --no-fail-fast --tool-config-file pb:/w/lib/nextest.toml --profile pb --test-threads 8 --offline --retries 3 2>&1 | grep -E "Summary|FAIL" | head -5
python3 $D >/tmp/seed/$(basename $W).with.log 2>&1; echo "== demo with change: exit $?"
git apply -R DELIVER/patch.diff || exit 3
cargo build --offline -p mos 2>&1 | tail -1
python3 $D >/tmp/seed/$(basename $W).without.log 2>&1; echo "== demo without change: exit $?"
git apply DELIVER/patch.diff
cargo build --offline -p mos 2>&1 | tail -1
