#!/usr/bin/env python3
"""tools/seedindex.py — regenerates seeded/INDEX.md from the meta.json of every kept change (the header of the existing file is kept)."""
import glob, json, os
V = os.path.dirname(os.path.dirname(os.path.abspath(__file__)))
p = os.path.join(V, "seeded", "INDEX.md")
head = []
for line in open(p):
    head.append(line)
    if line.startswith("|---"):
        break
rows = []
for mp in sorted(glob.glob(os.path.join(V, "seeded", "*", "meta.json"))):
    m = json.load(open(mp))
    cell = lambda t: str(t or "").replace("|", "\\|").replace("\n", " ")
    rows.append("| %s | %s | %s | %s | %s |\n" % (m["id"], m["breaks_property"], cell(m.get("needs_to_manifest")), cell(m.get("reported_by")), cell(m.get("status"))))
open(p, "w").write("".join(head + rows))
print("%d changes listed" % len(rows))
