#!/usr/bin/env python3
"""tools/seedkeep.py <id> <worktree>  — copies DELIVER/* of a confirmed seeded change into seeded/<id>/ and writes a meta.json skeleton
(needs_to_manifest / reported_by / status are filled in by hand afterwards)."""
import json, os, shutil, sys
V = os.path.dirname(os.path.dirname(os.path.abspath(__file__)))
sid, wt = sys.argv[1], sys.argv[2]
d = os.path.join(V, "seeded", sid)
os.makedirs(d, exist_ok=True)
for n in os.listdir(os.path.join(wt, "DELIVER")):
    if n.endswith(".log"):
        continue
    shutil.copy(os.path.join(wt, "DELIVER", n), os.path.join(d, n))
mp = os.path.join(d, "meta.json")
if not os.path.exists(mp):
    json.dump({"id": sid, "breaks_property": sid.split("-")[0], "needs_to_manifest": "", "written_by": "fresh sub-agent given only the property text and a scratch git "
               "worktree of /repo (HEAD with the repairs)", "confirmed_by_me": {"in": "scratch worktree %s (removed afterwards)" % wt,
               "build": "cargo build --offline --workspace: ok", "tests": "", "demo_with_change": "", "demo_without_change": ""},
               "checks_run": "tools/seedcheck.py (git -C /repo apply patch.diff; every claimed check, quick tier; git -C /repo checkout -- .)",
               "reported_by": "", "status": ""}, open(mp, "w"), indent=1)
print(sorted(os.listdir(d)))
