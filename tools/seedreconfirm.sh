#!/bin/bash
# tools/seedreconfirm.sh [<id> …] : for every kept seeded change (or the named ones) check on the CURRENT /repo HEAD that it still breaks its property:
# applies seeded/<id>/patch.diff in a scratch worktree, builds, runs the demonstration (expected: non-zero) — the direction "passes without the change" is
# not repeated here.  Prints one line per change.  Scratch worktree: /tmp/seed/reconf (created on demand, removed at the end).
V=$(cd "$(dirname "$0")/.." && pwd)
W=/tmp/seed/reconf
export CARGO_NET_OFFLINE=true CARGO_TARGET_DIR=$W/target
git -C /repo worktree remove --force $W >/dev/null 2>&1
git -C /repo worktree add --detach $W HEAD >/dev/null 2>&1 || { echo "cannot create $W"; exit 2; }
ids="$@"; [ -z "$ids" ] && ids=$(ls $V/seeded | grep -v INDEX)
for id in $ids; do
  d=$V/seeded/$id; [ -f $d/patch.diff ] || continue
  cd $W && git checkout -q -- . && git clean -fdq -e target >/dev/null 2>&1
  if ! git apply $d/patch.diff 2>/dev/null; then echo "$id: DOES NOT APPLY"; continue; fi
  mkdir -p DELIVER && cp -r $d/* DELIVER/ 2>/dev/null
  if ! cargo build --offline -p mos >/dev/null 2>&1; then echo "$id: DOES NOT BUILD"; continue; fi
  demo=$(ls DELIVER | grep -E "^demo.*\.(sh|py)$" | grep -v demo.sh.orig | head -1)
  [ -f DELIVER/demo_one.sh ] && demo=demo_one.sh
  case "$demo" in
    *.sh) timeout 900 bash DELIVER/$demo >/dev/null 2>&1; rc=$?;;
    *.py) timeout 900 python3 DELIVER/$demo >/dev/null 2>&1; rc=$?;;
    *) echo "$id: no demo script found ($(ls DELIVER | tr '\n' ' '))"; continue;;
  esac
  if [ $rc -eq 0 ]; then echo "$id: demo PASSES with the change — no longer a breaking change on this tree"; else echo "$id: still breaks (demo exit $rc)"; fi
done
cd /; git -C /repo worktree remove --force $W >/dev/null 2>&1
