#!/usr/bin/env python3
"""developer aid: ./tools/show.py hir|mir <fn path suffix> [--profile dev]  — prints facts of a function compactly"""
import sys, os, json
sys.path.insert(0, os.path.dirname(os.path.dirname(os.path.abspath(__file__))))
from rules import facts as F, lib

def sx(n, ind=0, out=None):
    pad = "  " * ind
    if isinstance(n, dict):
        k = n.get("k", "")
        head = [k]
        for a in ("name", "op", "lk", "v", "src", "mode"):
            if a in n and not isinstance(n[a], (dict, list)):
                head.append("%s=%r" % (a, n[a]))
        if "res" in n:
            r = n["res"]; head.append("res=" + str(r.get("path") or r.get("name") or r.get("dk")))
        if "path" in n and isinstance(n["path"], str): head.append("path=" + n["path"])
        if "ty" in n: head.append(":" + n["ty"][:90])
        if "ln" in n: head.append("@%s" % n["ln"])
        if n.get("exp"): head.append("EXP")
        print(pad + "(" + " ".join(head))
        for key, v in n.items():
            if isinstance(v, dict):
                print(pad + " ." + key); sx(v, ind + 2)
            elif isinstance(v, list) and v and isinstance(v[0], (dict, list)):
                print(pad + " ." + key + "[]")
                for x in v: sx(x, ind + 2)
    elif isinstance(n, list):
        for x in n: sx(x, ind)

def opstr(o):
    if o is None: return "-"
    if "const" in o:
        c = o["const"]
        if "fn" in c: return "fn:" + c["fn"]["path"]
        if "int" in c: return "%d_%s" % (c["int"], c["ty"])
        if "str" in c: return repr(c["str"])
        return "const " + c.get("disp", "?")[:60]
    p = o.get("copy") or o.get("move")
    if p is None: return str(o)
    return ("move " if "move" in o else "") + plstr(p)

def plstr(p):
    s = "_%d" % p["l"]
    for e in p.get("p") or []:
        if e == "deref": s = "(*%s)" % s
        elif isinstance(e, dict) and "n" in e: s += ".%s" % e["n"]
        elif isinstance(e, dict) and "downcast" in e: s = "(%s as %s)" % (s, e["downcast"])
        elif isinstance(e, dict) and "index" in e: s += "[_%d]" % e["index"]
        else: s += "{%s}" % json.dumps(e)
    return s

def rvstr(rv):
    k = rv["k"]
    if k == "use": return opstr(rv["op"])
    if k == "ref": return ("&mut " if rv["mut"] else "&") + plstr(rv["place"])
    if k == "binop": return "%s(%s, %s)" % (rv["op"], opstr(rv["l"]), opstr(rv["r"]))
    if k == "unop": return "%s(%s)" % (rv["op"], opstr(rv["a"]))
    if k == "cast": return "%s as %s [%s]" % (opstr(rv["op"]), rv["ty"], rv["ck"])
    if k == "agg":
        n = rv.get("adt", rv["ak"]) + ("::" + rv["variant"] if "variant" in rv else "")
        if rv["ak"] == "closure": n = "closure " + rv["closure"]
        return "%s{%s}" % (n, ", ".join(opstr(x) for x in rv["ops"]))
    if k == "discr": return "discr(%s)" % plstr(rv["place"])
    if k == "copy_for_deref": return "deref_copy " + plstr(rv["place"])
    return k + " " + rv.get("disp", "")

def mir(f):
    print("fn", f.path, f.file, f.lo, "argc", f.argc, "->", f.ret_ty)
    for i, l in enumerate(f.locals):
        print("  let _%d: %s%s" % (i, l["ty"], "  // " + l["name"] if l.get("name") else ""))
    for u in f.upvars: print("  upvar", u["name"], plstr(u["place"]))
    for bi, b in enumerate(f.blocks):
        print(" bb%d%s:" % (bi, " (cleanup)" if b["cleanup"] else ""))
        for s in b["stmts"]:
            if s["k"] == "assign": print("    %s = %s   // %s" % (plstr(s["dst"]), rvstr(s["rv"]), s.get("line")))
            elif s["k"] == "setdiscr": print("    discr(%s) = %d" % (plstr(s["dst"]), s["vi"]))
        t = b["term"]; k = t["k"]
        if k == "call":
            p, fr = lib.callee(t)
            print("    %s = %s(%s) -> bb%s unwind %s  // %s%s" % (plstr(t["dst"]), p or ("indirect " + opstr(fr["indirect"])), ", ".join(opstr(a) for a in t["args"]), t.get("target"), t.get("unwind"), t["line"], " EXP" if t.get("exp") else ""))
        elif k == "switch": print("    switch %s %s otherwise bb%d" % (opstr(t["discr"]), ["%d->bb%d" % (v, b2) for v, b2 in t["targets"]], t["otherwise"]))
        elif k == "drop": print("    drop(%s : %s) -> bb%d" % (plstr(t["place"]), t["pty"][:80], t["target"]))
        elif k == "assert": print("    assert %s %s(%s) -> bb%d // %s" % (opstr(t["cond"]), t["kind"], ", ".join(opstr(a) for a in t["ops"]), t["target"], t["line"]))
        elif k == "goto": print("    goto bb%d" % t["target"])
        else: print("    " + k)

if __name__ == "__main__":
    what, suf = sys.argv[1], sys.argv[2]
    prof = sys.argv[4] if len(sys.argv) > 4 and sys.argv[3] == "--profile" else "dev"
    fx = F.load(prof)
    fs = fx.find(suf)
    for f in fs:
        if what == "hir":
            print("fn", f.path, f.file, f.lo)
            if f.d.get("hir"): sx(f.hir["body"])
            else: print("  (closure: see owner)")
        elif what == "mir": mir(f)
        elif what == "ls": print(f.path, f.where, len(f.blocks))
